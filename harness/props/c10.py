"""C10 — orthogonal wavelet transform: isometry, perfect reconstruction, adjoint, advertised shape.

Proof side (lean/SigpyVerif/Props/C10.lean): sigpy's glue (generated padding formula and call signatures,
pad/crop index maps) and the mathematics of one zero-extended filter-bank level for any filter pair
satisfying completeness (adjoint, perfect reconstruction, isometry; Haar instance; levels and axes); the executed
multi-level 1-D list model incl. pywt.waverec's trimming rule (perfect reconstruction, adjoint, isometry at every
level count and length) and the full 1-D sigpy pipeline fwt1/iwt1 (pad, wavedec, pack | unpack, waverec, crop);
separable N-d at level 1 over an arbitrary list of axes; multi-level N-d (Props/C10Ml.lean: recursion on the approximation
block, coeffs_to_array's block layout with zero filling, padding/crop) isometry / adjoint / perfect reconstruction for
every level count, rank, axes list and shape, on the advertised box; `Complete` from the orthonormality of dec_lo alone
when dec_hi is its alternating flip (checked for every pywt wavelet by the `filters` stream).
Contract side (this file, `correspond`): PyWavelets' filters satisfy the hypotheses (1e-10) and its
dwt/idwt/wavedec/waverec/packing compute the modelled formulas — the Lean driver executes the model exactly
in rationals (float filter taps are dyadic rationals and are passed exactly; inputs are integers) and the
result is compared with the float implementation at 1e-10.
Search side (`search`): the property's three identities and the advertised shape on the real
`sp.fwt/sp.iwt/linop.Wavelet(.H/.H.H)`, written from the statement, independent of the model.

Representation of the inputs (round 3 hardening).  "Real and complex inputs" are numpy arrays holding real or complex
numbers; the statement does not restrict how they are stored.  The integer test data of the exact model is therefore
handed to the implementation in varying storage (`draw_feed`: float64, (u)int8..64, byte-swapped, long double, complex128 =
two model requests; C / Fortran / strided / reversed / transposed / window / read-only / unaligned / .real-part views) -
the exact model value is the expected result for every one of them - and the search oracle draws storage dtype (also
float16/32, complex64 at a single-precision tolerance), memory layout, magnitude, an independently stored coefficient
array for the adjoint identity, numpy-integer spelling of the arguments, and call histories over several live operators.
All identities are judged on the exact values the arrays hold (float64 / complex128 copies), never in the input's dtype.
Known finding explored by this widening: complex arrays in NON-NATIVE byte order lose their imaginary part inside
PyWavelets (key C10:byteswapped-complex-input).
"""
import itertools
import json
import warnings
from fractions import Fraction

import numpy as np

from harness import common
from harness.translate import gen as G

PROPERTY = "C10"
LEAN_MODULES = ["SigpyVerif.Props.C10", "SigpyVerif.Props.C10Ml"]
THEOREMS = ["SigpyVerif.C10." + t for t in [
    "zshape_spec", "zshape_sites_agree", "shape_consistent", "inverse_mirrors_forward", "glue_returns", "pad_extra_zero_in_front",
    "crop_is_pad_adjoint", "pad_crop",
    "synthesis_is_adjoint", "qmf_perfect_reconstruction", "qmf_isometry_1level",
    "haar_supported", "haar_complete", "haar_orthonormal", "haar_real",
    "isometry_comp", "adjoint_comp", "qmf_isometry_rows", "qmf_isometry_cols",
    "dwt1_isometry", "wavedec_isometry", "wavedec_packed_isometry",
    "complete_window", "supportedOn_ofList", "sumN_eq_sum",
    # multi-level list model (executed by the driver): perfect reconstruction and adjointness incl. trimming rule
    "idwt1_dwt1", "waverec_wavedec", "wavedec_perfect_reconstruction", "wavedec_perfect_reconstruction_take",
    "dwt1_adjoint", "waverec_length", "wavedec_map_length", "wavedec_adjoint",
    # full 1-D sigpy pipeline
    "resize1d", "pad_list", "crop_list", "fwt1_iwt1_id", "fwt1_isometry", "fwt1_length", "iwt1_is_adjoint",
    # separable N-d at level 1: per-axis maps over an arbitrary list of axes
    "boxSum_alongAxis_sq", "boxSum_alongAxis_adj", "alongAxis_left_inverse",
    "applyAxes_isometry", "applyAxes_adjoint", "applyAxes_left_inverse",
    "level1Map_isIso", "level1Map_isAdj", "level1Map_isInv", "padMap_isIso", "padMap_isAdj", "padMap_isInv",
    "fwtn_level1_isometry", "fwtn_level1_adjoint", "fwtn_level1_pr", "fwt1_level1_eq",
    # Complete from the orthonormality of dec_lo alone (dec_hi = alternating flip)
    "finsum_even_odd", "finsum_shift2", "finsum_flip2", "ofList_altFlipL", "supportedOn_altFlip",
    "complete_of_qmf_pair", "complete_of_orthonormal_lo", "fwt1_iwt1_id_qmf", "fwt1_isometry_qmf", "ofList_haar",
    # multi-level N-d (Props/C10Ml.lean): coeffs_to_array's block layout incl. zero filling, recursion on the approximation block
    "tabM_app", "fwtnRecM_app", "iwtnRecM_app", "fwtnM_app", "iwtnM_app",
    "inBoxB_iff", "inBox_iff", "boxSum_congr", "boxSum_indicator", "shapeAxes_map", "le_packedLen", "sum_packed_axis",
    "applyAxes_vanish_other", "applyAxes_left_inverse_on",
    "levelMap_isIso", "levelMap_isAdj", "levelMap_isInv", "levelMap_zero", "shapeAxes_lvSteps", "lvSteps_vanish",
    "lvSteps_zero_filling", "fwtnRec_isometry", "fwtnRec_adjoint", "fwtnRec_pr",
    "shapeAxes_padSteps", "zShape_eq_gen", "padMap_eq_gen",
    "fwtn_isometry", "fwtn_adjoint", "fwtn_pr", "fwtnOutShape_eq_waveShape", "maxLevel_spec",
]]

FAMILIES = ("haar", "db", "sym", "coif")
QUICK_WAVELETS = ["haar", "db1", "db2", "db3", "db4", "db6", "db9", "db14", "db20", "sym2", "sym3", "sym4", "sym5",
                  "sym8", "sym13", "sym20", "coif1", "coif2", "coif3", "coif5", "coif11", "coif17"]
LEVELS = [None, 1, 2, 3]
ATOL_MODEL = 1e-10   # exact model value vs float implementation, integer inputs |x| <= 9 (observed <= 1e-14)
RTOL_PROP = 1e-8     # the property's tolerance (observed <= 6e-11)
FILTER_TOL = 1e-10   # orthonormality / completeness sums of pywt's filter taps (observed <= 1.5e-11)


def translate(ctx):
    G.regenerate(ctx, ["UtilFormulas", "C10Formulas"])


def all_wavelets():
    import pywt
    return [w for f in FAMILIES for w in pywt.wavelist(f)]


def wavelets_for(ctx, rng, extra=3):
    names = all_wavelets()
    if ctx.tier == "thorough":
        return names
    q = [w for w in QUICK_WAVELETS if w in names]
    rest = [w for w in names if w not in q]
    return q + rng.sample(rest, min(extra, len(rest)))


# ---- protocol helpers -----------------------------------------------------------------------
def fr(v):
    f = Fraction(float(v)) if not isinstance(v, (int, np.integer)) else Fraction(int(v))
    return str(f.numerator) if f.denominator == 1 else "%d/%d" % (f.numerator, f.denominator)


def RL(v):
    v = list(v)
    return ",".join(fr(t) for t in v) if v else "-"


def IL(v):
    v = list(v)
    return ",".join(str(int(t)) for t in v) if v else "-"


def parse_rats(s):
    s = s.strip()
    return [] if s == "-" else [float(Fraction(t)) for t in s.split(",")]


def parse_ints(s):
    s = s.strip()
    return [] if s == "-" else [int(t) for t in s.split(",")]


def lv(level):
    return "none" if level is None else str(level)


def filt(name):
    import pywt
    w = pywt.Wavelet(name)
    return w, "h=%s g=%s" % (RL(w.dec_lo), RL(w.dec_hi))


def subsets(nd, rng=None, limit=None):
    """axes arguments: None, every non-empty subset with non-negative, negative and mixed spelling"""
    out = [None]
    for r in range(1, nd + 1):
        for c in itertools.combinations(range(nd), r):
            out.append(tuple(c))
            out.append(tuple(a - nd for a in c))
            if r > 1:
                out.append(tuple(a - nd if i % 2 else a for i, a in enumerate(c)))
                out.append(tuple(reversed(c)))
    if limit is not None and rng is not None and len(out) > limit:
        out = [None] + rng.sample(out[1:], limit - 1)
    return out


SHAPES_BASE = [(1,), (2,), (3,), (5,), (8,), (13,), (16,), (31,), (1, 1), (3, 4), (5, 7), (1, 6), (9, 2), (6, 6),
               (2, 3, 5), (4, 1, 3), (3, 3, 3)]


def rand_shape(rng):
    nd = rng.choice([1, 1, 2, 2, 3])
    hi = {1: 45, 2: 12, 3: 7}[nd]
    return tuple(rng.randint(1, hi) for _ in range(nd))


# ---- correspondence streams -----------------------------------------------------------------------
def stream_filters(ctx):
    """hypotheses of the theorems on pywt's actual filter taps (every orthogonal wavelet, both tiers)"""
    import pywt
    bad = 0
    worst = 0.0
    worst_flip = 0.0
    for name in all_wavelets():
        w = pywt.Wavelet(name)
        h, g = np.array(w.dec_lo, dtype=float), np.array(w.dec_hi, dtype=float)
        L = len(h)
        ctx.case(("filters", name))
        ctx.count("filters:" + name.rstrip("0123456789"))
        errs = {}
        errs["structure"] = 0.0 if (w.orthogonal and len(g) == L and L % 2 == 0 and w.dec_len == L
                                    and list(w.rec_lo) == list(w.dec_lo)[::-1]
                                    and list(w.rec_hi) == list(w.dec_hi)[::-1]) else 1.0
        e = 0.0
        for m in range(-(L // 2), L // 2 + 1):
            lo, hi = max(0, -2 * m), min(L, L - 2 * m)
            def corr(a, b):
                return float(np.dot(a[lo:hi], b[lo + 2 * m:hi + 2 * m])) if hi > lo else 0.0
            e = max(e, abs(corr(h, h) - (m == 0)), abs(corr(g, g) - (m == 0)), abs(corr(h, g)))
        errs["orthonormal"] = e
        def H(f, j):
            return f[j] if 0 <= j < L else 0.0
        e = 0.0
        for n in (0, 1):
            for n2 in range(n - L, n + L + 1):
                s = sum(H(h, 2 * k + 1 - n) * H(h, 2 * k + 1 - n2) + H(g, 2 * k + 1 - n) * H(g, 2 * k + 1 - n2)
                        for k in range(-L, L + 1))
                e = max(e, abs(s - (n == n2)))
        errs["complete"] = e
        # dec_hi IS the alternating flip of dec_lo, pywt's sign convention s = -1: g[j] = (-1)^(j+1) h[L-1-j]
        # (hypothesis of `complete_of_qmf_pair`: with it `Complete` follows from the orthonormality of dec_lo)
        errs["altflip"] = max(abs(g[j] - (-1) ** (j + 1) * h[L - 1 - j]) for j in range(L)) if len(g) == L else 1.0
        worst_flip = max(worst_flip, errs["altflip"])
        worst = max(worst, errs["orthonormal"], errs["complete"])
        for k, v in errs.items():
            if not v <= FILTER_TOL:
                bad += 1
                ctx.disagree("filters", dict(kind="filters", wavelet=name, which=k), v, "<= %g" % FILTER_TOL)
    ctx.notes.append("filters: worst orthonormality/completeness residual of pywt's taps %.2e (tolerance %g); "
                     "dec_hi vs alternating flip of dec_lo: max difference %.1e (exact when 0)" % (worst, FILTER_TOL, worst_flip))
    ctx.oblige("correspondence:C10.filters", "correspondence", bad == 0,
               "%d wavelets violate the filter-bank hypotheses (orthonormal/complete/rec=reversed dec/dec_hi=alternating flip of dec_lo)" % bad)


def _cmp(a, b, tol=ATOL_MODEL):
    # by value, whatever the dtype of the implementation's result (an integer-typed result is compared like any other)
    a, b = np.asarray(a).astype(complex).ravel(), np.asarray(b).astype(complex).ravel()
    return a.shape == b.shape and (a.size == 0 or float(np.abs(a - b).max()) <= tol)


# ---- how the integer test data of the exact model is handed to the implementation -------------------------------
# The model computes with the integers themselves; the implementation receives them in an array of some storage dtype
# and memory layout (every one of them holds exactly these integers, so the exact model value is the expected result
# for all of them; single-precision storage is left to the search oracle, whose tolerance is relative).
FEED_DTYPES = ["float64"] * 4 + ["int8", "int16", "int32", "int64", "uint8", "uint16", "uint32", "uint64", ">f8", ">i4", "longdouble"]
FEED_LAYOUTS = ["C"] * 4 + ["F", "strided", "neg", "T", "window", "ro", "unaligned", "part"]


def draw_feed(rng, allow_complex=False):
    dts = FEED_DTYPES + (["complex128"] * 3 + ["clongdouble"] if allow_complex else [])
    return dict(dtype=rng.choice(dts), layout=rng.choice(FEED_LAYOUTS), seed=rng.randint(0, 10 ** 6))


def feed_ints(vals, feed):
    """the integer data a feed can hold: absolute values for unsigned storage"""
    if feed is not None and np.dtype(feed["dtype"]).kind == "u":
        return [abs(int(v)) for v in vals]
    return [int(v) for v in vals]


def feed_array(ints, feed, shape=None, imag=None):
    a = np.asarray(ints, dtype=np.int64)
    if shape is not None:
        a = a.reshape(shape)
    if feed is None:
        return a.astype(float)
    dt = np.dtype(feed["dtype"])
    if dt.kind == "c" and imag is not None:
        a = a + 1j * np.asarray(imag, dtype=np.int64).reshape(a.shape)
    return lay(a.astype(dt), feed["layout"], feed["seed"])


def gen_1d_cases(ctx, rng, names):
    """(kind, wavelet, payload) for the model-vs-implementation stream in 1-D"""
    import pywt
    cases = []
    lens_fixed = [1, 2, 3, 4, 7, 10]
    for name in names:
        L = pywt.Wavelet(name).dec_len
        lens = lens_fixed + [L - 1, L, L + 1, 2 * L + 1] + [rng.randint(1, 3 * L + 6) for _ in range(2 if ctx.tier == "quick" else 6)]
        for n in sorted(set(l for l in lens if l >= 1)):
            x = [rng.randint(-9, 9) for _ in range(n)]
            cases.append(("dwt", name, dict(x=x)))
            m = pywt.dwt_coeff_len(n, L, "zero")
            cases.append(("idwt", name, dict(a=[rng.randint(-9, 9) for _ in range(m)], d=[rng.randint(-9, 9) for _ in range(m)])))
            for level in (LEVELS if n <= 2 * L + 1 else [rng.choice(LEVELS)]):
                ax = rng.choice([None, (0,), (-1,)])
                fx, fc = draw_feed(rng), draw_feed(rng)
                cases.append(("fwt1", name, dict(x=feed_ints(x, fx), level=level, axes=ax, feed=fx)))
                cases.append(("iwt1", name, dict(n=n, level=level, axes=ax, seed=rng.randint(0, 10 ** 6), feed=fc)))
    return cases


def line_1d(kind, name, p, extra=None):
    _, f = filt(name)
    if kind == "dwt":
        return "C10 dwt %s x=%s" % (f, IL(p["x"]))
    if kind == "idwt":
        return "C10 idwt %s a=%s d=%s" % (f, IL(p["a"]), IL(p["d"]))
    if kind == "fwt1":
        return "C10 fwt1 %s level=%s x=%s" % (f, lv(p["level"]), IL(p["x"]))
    if kind == "iwt1":
        return "C10 iwt1 %s level=%s n=%d c=%s" % (f, lv(p["level"]), p["n"], IL(extra))
    raise ValueError(kind)


def iwt1_input(name, p):
    """integer coefficient array of the advertised shape (shape + slices from the real get_wavelet_shape)"""
    import sigpy as sp
    osh, sl = sp.wavelet.get_wavelet_shape([p["n"]], name, p["axes"], p["level"])
    r = np.random.RandomState(p["seed"])
    c = r.randint(-9, 10, size=osh)
    return np.array(feed_ints(c.ravel(), p.get("feed"))).reshape(c.shape), sl


def impl_1d(kind, name, p, via):
    import pywt
    import sigpy as sp
    from sigpy import linop
    if kind == "dwt":
        a, d = pywt.dwt(np.array(p["x"], dtype=float), name, "zero")
        return ("ok", [a, d])
    if kind == "idwt":
        return ("ok", [pywt.idwt(np.array(p["a"], dtype=float), np.array(p["d"], dtype=float), name, "zero")])
    if kind == "fwt1":
        x = feed_array(p["x"], p.get("feed"))
        if via == "linop":
            return ("ok", [linop.Wavelet(x.shape, axes=p["axes"], wave_name=name, level=p["level"])(x)])
        return ("ok", [sp.fwt(x, wave_name=name, axes=p["axes"], level=p["level"])])
    if kind == "iwt1":
        c, sl = iwt1_input(name, p)
        c = feed_array(c, p.get("feed"))
        if via == "linop":
            return ("ok", [linop.Wavelet([p["n"]], axes=p["axes"], wave_name=name, level=p["level"]).H(c)])
        return ("ok", [sp.iwt(c, [p["n"]], sl, wave_name=name, axes=p["axes"], level=p["level"])])
    raise ValueError(kind)


def stream_1d(ctx, rng, names):
    cases = gen_1d_cases(ctx, rng, names)
    lines, meta = [], []
    for kind, name, p in cases:
        extra = None
        if kind == "iwt1":
            try:
                extra = iwt1_input(name, p)[0].ravel().tolist()
            except Exception as e:  # noqa
                extra = []
        lines.append(line_1d(kind, name, p, extra))
        meta.append((kind, name, p))
    replies = ctx.driver(lines)
    bad = 0
    for (kind, name, p), ln, r in zip(meta, lines, replies):
        model = [parse_rats(s) for s in r[3:].split(" | ")] if r.startswith("ok ") else r
        for via in (("fn", "linop") if kind in ("fwt1", "iwt1") else ("fn",)):
            try:
                impl = impl_1d(kind, name, p, via)[1]
            except Exception as e:  # noqa
                impl = "err %s" % type(e).__name__
            ctx.case((kind, name, json.dumps(p, sort_keys=True), via),
                     sample=dict(op=kind, wavelet=name, args=p, reply=r[:100]) if ctx.evaluations % 211 == 0 else None)
            ctx.count("1d:%s" % kind)
            if "feed" in p:
                ctx.count("feed:dtype:%s" % p["feed"]["dtype"])
                ctx.count("feed:layout:%s" % p["feed"]["layout"])
            ok = isinstance(model, list) and isinstance(impl, list) and len(model) == len(impl) and \
                all(_cmp(a, b) for a, b in zip(model, impl))
            if not ok:
                bad += 1
                ctx.disagree("dwt1d", dict(kind=kind, wavelet=name, p=p, via=via),
                             [np.asarray(a).tolist() for a in impl] if isinstance(impl, list) else impl, model)
    ctx.oblige("correspondence:C10.dwt1d", "correspondence", bad == 0,
               "%d disagreements between the Lean filter-bank/1-D pipeline model and pywt.dwt/idwt, sp.fwt/iwt, Wavelet(.H)" % bad)


def stream_levels(ctx, rng, names):
    """pywt.wavedec / pywt.waverec (mode='zero') vs the executed list model on UNPADDED signals: odd lengths, odd
    intermediate lengths (the trimming rule of waverec: an approximation one longer than the next detail loses its
    last sample), waverec on arbitrary integer coefficient lists of wavedec's lengths."""
    import pywt
    cases = []
    for name in names:
        L = pywt.Wavelet(name).dec_len
        lens = [1, 2, 3, 5, 6, L - 1, L + 1, 2 * L + 3] + [rng.randint(1, 3 * L + 8) for _ in range(2 if ctx.tier == "quick" else 6)]
        for n in sorted(set(l for l in lens if l >= 1)):
            for J in ([1, 2, 3] if n <= 6 else [rng.choice([1, 2, 3, 4])]):
                cases.append((name, n, J, [rng.randint(-9, 9) for _ in range(n)], rng.randint(0, 10 ** 6)))
    lines, meta = [], []
    for name, n, J, x, seed in cases:
        _, f = filt(name)
        L = pywt.Wavelet(name).dec_len
        ns = [n]
        for _ in range(J):
            ns.append(pywt.dwt_coeff_len(ns[-1], L, "zero"))
        clens = [ns[J]] + [ns[j] for j in range(J, 0, -1)]
        r = np.random.RandomState(seed)
        c = [r.randint(-9, 10, size=m) for m in clens]
        trims = sum(1 for j in range(1, J) if ns[j] % 2 == 1)   # reconstructions of an odd-length approximation
        lines.append("C10 wavedec %s level=%d x=%s" % (f, J, IL(x)))
        meta.append(("wavedec", name, n, J, x, None, trims))
        lines.append("C10 waverec %s lens=%s c=%s" % (f, IL(clens), IL(np.concatenate(c))))
        meta.append(("waverec", name, n, J, None, c, trims))
    replies = ctx.driver(lines)
    bad = 0
    for (kind, name, n, J, x, c, trims), r in zip(meta, replies):
        model = [parse_rats(t) for t in r[3:].split(" | ")] if r.startswith("ok ") else r
        try:
            with warnings.catch_warnings():
                warnings.simplefilter("ignore")
                if kind == "wavedec":
                    impl = [np.asarray(a) for a in pywt.wavedec(np.array(x, dtype=float), name, "zero", level=J)]
                else:
                    impl = [pywt.waverec([a.astype(float) for a in c], name, "zero")]
        except Exception as e:  # noqa
            impl = "err %s" % type(e).__name__
        ctx.case(("levels", kind, name, n, J, json.dumps(x if x is not None else [a.tolist() for a in c])),
                 sample=dict(op=kind, wavelet=name, n=n, level=J, reply=r[:100]) if ctx.evaluations % 97 == 0 else None)
        ctx.count("levels:%s:%s" % (kind, "trim" if trims else "notrim"))
        ok = isinstance(model, list) and isinstance(impl, list) and len(model) == len(impl) and \
            all(_cmp(a, b) for a, b in zip(model, impl))
        if not ok:
            bad += 1
            ctx.disagree("levels", dict(kind="levels", op=kind, wavelet=name, n=n, level=J),
                         [np.asarray(a).tolist() for a in impl] if isinstance(impl, list) else impl, model)
    ctx.oblige("correspondence:C10.levels", "correspondence", bad == 0,
               "%d disagreements between the Lean wavedec/waverec list model (trimming rule) and pywt.wavedec/waverec" % bad)


def norm_axes(axes, nd):
    return list(range(nd)) if axes is None else [a % nd for a in axes]


def gen_shape_cases(ctx, rng, names):
    shapes = list(SHAPES_BASE) + [rand_shape(rng) for _ in range(6 if ctx.tier == "quick" else 40)]
    cases = []
    for name in names:
        for shape in rng.sample(shapes, 14 if ctx.tier == "thorough" else 9):
            for axes in subsets(len(shape), rng, limit=7 if ctx.tier == "thorough" else 5):
                for level in LEVELS:
                    cases.append(dict(wavelet=name, shape=list(shape), axes=None if axes is None else list(axes), level=level,
                                      dtype=rng.choice(["float64", "float64", "complex128", "float32", "complex64", "int16", "uint8", "int64"])))
    return cases


def stream_shapes(ctx, rng, names):
    """advertised shape: model formula vs Wavelet.oshape vs InverseWavelet.ishape vs fwt(x).shape"""
    import pywt
    import sigpy as sp
    from sigpy import linop
    cases = gen_shape_cases(ctx, rng, names)
    lines = []
    for c in cases:
        L = pywt.Wavelet(c["wavelet"]).dec_len
        lines.append("C10 shape sh=%s ax=%s L=%d level=%s" % (IL(c["shape"]), IL(sorted(norm_axes(c["axes"], len(c["shape"])))), L, lv(c["level"])))
    replies = ctx.driver(lines)
    bad = 0
    for c, ln, r in zip(cases, lines, replies):
        model = parse_ints(r[3:]) if r.startswith("ok ") else r
        ax = None if c["axes"] is None else tuple(c["axes"])
        try:
            W = linop.Wavelet(c["shape"], axes=ax, wave_name=c["wavelet"], level=c["level"])
            Wi = linop.InverseWavelet(c["shape"], axes=ax, wave_name=c["wavelet"], level=c["level"])
            y = sp.fwt(np.ones(c["shape"], dtype=c["dtype"]), wave_name=c["wavelet"], axes=ax, level=c["level"])
            impl = [list(W.oshape), list(Wi.ishape), list(y.shape), list(W.ishape), list(Wi.oshape)]
        except Exception as e:  # noqa
            impl = "err %s" % type(e).__name__
        ctx.case(("shape", json.dumps(c, sort_keys=True)),
                 sample=dict(line=ln, reply=r) if ctx.evaluations % 977 == 0 else None)
        ctx.count("shape:%dd" % len(c["shape"]))
        want = [model, model, model, c["shape"], c["shape"]] if isinstance(model, list) else model
        if impl != want:
            bad += 1
            ctx.disagree("shapes", dict(kind="shape", **c), impl, want)
    ctx.oblige("correspondence:C10.shapes", "correspondence", bad == 0,
               "%d disagreements between the model's coefficient shape and Wavelet.oshape / InverseWavelet.ishape / fwt(x).shape" % bad)


def stream_glue(ctx):
    """padding formula and pad/crop index maps (generated formula + C09 resize model) vs util.resize"""
    import sigpy as sp
    ns = list(range(1, 41))
    lines = ["C10 zshape i=%s" % IL(ns)] + ["C10 padcrop i=%d" % i for i in ns]
    rep = ctx.driver(lines)
    bad = 0
    want_z = [((i + 1) // 2) * 2 for i in ns]  # the documented behaviour: next even number
    z = [parse_ints(s) for s in rep[0][3:].split(" | ")] if rep[0].startswith("ok ") else rep[0]
    ctx.case(("zshape",))
    if z != [want_z, want_z]:
        bad += 1
        ctx.disagree("glue", dict(kind="zshape", i=ns), want_z, z)
    for i, r in zip(ns, rep[1:]):
        ctx.case(("padcrop", i))
        ctx.count("glue:padcrop")
        model = [parse_ints(s) for s in r[3:].split(" | ")] if r.startswith("ok ") else r
        zi = ((i + 1) // 2) * 2
        pad = sp.resize(np.arange(1, i + 1), [zi])        # labels 1..i, 0 = inserted zero
        crop = sp.resize(np.arange(1, zi + 1), [i])
        impl = [[int(v) - 1 for v in pad], [int(v) - 1 for v in crop]]
        if impl != model:
            bad += 1
            ctx.disagree("glue", dict(kind="padcrop", i=i), impl, model)
    ctx.oblige("correspondence:C10.glue", "correspondence", bad == 0, "%d disagreements on zshape / centre pad / centre crop" % bad)


def stream_separable(ctx, rng, names):
    """N-D, level 1: fwt = pad every axis to even, then the executed 1-D model (one level, [a|d] packing) along each
    transformed axis in the order given — exactly `fwtnSteps`; ties `fwtn_level1_isometry/_adjoint/_pr` (through
    `fwt1_level1_eq`) to the real N-D transform."""
    import sigpy as sp
    n_cases = 30 if ctx.tier == "quick" else 120
    bad = 0
    for _ in range(n_cases):
        name = rng.choice(names)
        nd = rng.choice([2, 2, 3])
        shape = tuple(rng.randint(1, 6 if nd == 2 else 4) for _ in range(nd))
        axes = rng.choice(subsets(nd))
        feed = draw_feed(rng)
        x = np.array(feed_ints([rng.randint(-9, 9) for _ in range(int(np.prod(shape)))], feed), dtype=object).reshape(shape)
        tr = norm_axes(axes, nd)

        def cost(nm):  # exact rational work of the model: output size x filter length (long filters in 3-D are ~1e6)
            import pywt
            L = pywt.Wavelet(nm).dec_len
            out = 1
            for a, n in enumerate(shape):
                z = n + n % 2
                out *= 2 * ((z + L - 1) // 2) if a in tr else z
            return out * L
        if cost(name) > (30000 if ctx.tier == "quick" else 120000):
            name = rng.choice([w for w in names if cost(w) <= 30000] or ["haar"])
        _, f = filt(name)
        cur = np.vectorize(Fraction, otypes=[object])(x)
        ok = True
        # the steps of `fwtnSteps` (Props/C10.lean): every axis is padded to even (extra zero in front) ...
        for ax in range(nd):
            if cur.shape[ax] % 2:
                z = np.zeros(cur.shape[:ax] + (1,) + cur.shape[ax + 1:], dtype=object)
                z[...] = Fraction(0)
                cur = np.concatenate([z, cur], axis=ax)
        # ... then one level of the executed 1-D model along each transformed axis, in the order given
        for ax in tr:
            moved = np.moveaxis(cur, ax, -1)
            flat = moved.reshape(-1, moved.shape[-1])
            lines = ["C10 fwt1 %s level=1 x=%s" % (f, ",".join(
                (str(v.numerator) if v.denominator == 1 else "%d/%d" % (v.numerator, v.denominator)) for v in row)) for row in flat]
            rep = ctx.driver(lines)
            if not all(r.startswith("ok ") for r in rep):
                ok = False
                break
            rows = [[Fraction(t) for t in r[3:].split(",")] for r in rep]
            new = np.array(rows, dtype=object).reshape(moved.shape[:-1] + (len(rows[0]),))
            cur = np.moveaxis(new, -1, ax)
        ctx.case(("separable", name, shape, axes, x.ravel().tolist()))
        ctx.count("separable:%dd" % nd)
        try:
            impl = sp.fwt(feed_array([int(v) for v in x.ravel()], feed, shape), wave_name=name, axes=axes, level=1)
        except Exception as e:  # noqa
            impl = None
        model = cur.astype(float) if ok else None
        if impl is None or model is None or impl.shape != model.shape or not _cmp(impl, model):
            bad += 1
            ctx.disagree("separable", dict(kind="separable", wavelet=name, shape=list(shape), feed=feed,
                                           axes=None if axes is None else list(axes), x=[int(v) for v in x.ravel()]),
                         None if impl is None else impl.tolist(), None if model is None else model.tolist())
    ctx.oblige("correspondence:C10.separable", "correspondence", bad == 0,
               "%d disagreements between per-axis composition of the 1-D model and N-D sp.fwt(level=1)" % bad)



def _nd_cost(shape, tr, L, level):
    """rational work of the N-d model ~ packed size x (filter length + axis length) per transformed axis"""
    J = 3 if level is None else level
    out = 1
    for a, n in enumerate(shape):
        z = n + n % 2
        if a in tr:
            ns = [z]
            for _ in range(J):
                ns.append((ns[-1] + L - 1) // 2)
            out *= ns[-1] + sum(ns[1:])
        else:
            out *= z
    return out * max(1, len(tr)) * (L + max(shape))


def stream_nd_levels(ctx, rng, names):
    """MULTI-LEVEL N-D: the executed Lean model `fwtnM`/`iwtnM` (= `fwtn`/`iwtn` of fwtn_isometry/_adjoint/_pr, by
    fwtnM_app/iwtnM_app) vs sp.fwt / linop.Wavelet and sp.iwt / Wavelet.H: integer data, float taps passed exactly as
    dyadic rationals, every value of the packed array compared (block offsets, zero filling, recursion on the
    approximation block only, odd sizes, axes subsets incl. negative / mixed / reordered spelling, level None/1/2/3);
    `iwtn` on ARBITRARY integer coefficient arrays (non-zero values in the zero filling included)."""
    import pywt
    import sigpy as sp
    from sigpy import linop
    n_cases = 70 if ctx.tier == "quick" else 420
    budget = 60000 if ctx.tier == "quick" else 250000
    short = [w for w in names if pywt.Wavelet(w).dec_len <= 8] or ["haar"]
    fixed = [("haar", (5, 6), None, 2), ("db2", (8, 3), None, 2), ("db2", (7, 8), (1,), None), ("db2", (6, 5, 4), (0, 2), 2),
             ("db3", (9, 10), (-1, 0), 2), ("haar", (16, 16), None, None), ("db2", (8, 8), (-2, -1), 3), ("db4", (3, 3, 3), None, 2),
             ("db2", (13,), (-1,), 3), ("haar", (2, 3, 5), (1, -1), None), ("sym4", (10, 7), (0,), 2), ("db2", (24, 4), None, None)]
    cases = [c for c in fixed if c[0] in all_wavelets()]
    while len(cases) < n_cases:
        name = rng.choice(short if rng.random() < 0.7 else names)
        L = pywt.Wavelet(name).dec_len
        nd = rng.choice([1, 2, 2, 2, 3, 3])
        shape = tuple(rng.randint(1, {1: 40, 2: 13, 3: 6}[nd]) for _ in range(nd))
        axes = rng.choice(subsets(nd))
        level = rng.choice([None, 1, 2, 2, 3, 3])
        if _nd_cost(shape, norm_axes(axes, nd), L, level) <= budget:
            cases.append((name, shape, axes, level))
    lines, meta = [], []

    def ints(n, feed):
        return np.array(feed_ints([rng.randint(-9, 9) for _ in range(n)], feed), dtype=np.int64)

    for name, shape, axes, level in cases:
        _, f = filt(name)
        nd = len(shape)
        ax = norm_axes(axes, nd)
        fx, fc = draw_feed(rng, allow_complex=True), draw_feed(rng, allow_complex=True)
        n = int(np.prod(shape))
        x = ints(n, fx).reshape(shape)
        xi = ints(n, fx).reshape(shape) if np.dtype(fx["dtype"]).kind == "c" else None
        try:
            osh, sl = sp.wavelet.get_wavelet_shape(shape, name, axes, level)
        except Exception as e:  # noqa
            osh, sl = None, None
        seed = rng.randint(0, 10 ** 6)
        rs = np.random.RandomState(seed)
        c = ci = None
        if osh is not None:
            c = np.array(feed_ints(rs.randint(-9, 10, size=osh).ravel(), fc), dtype=np.int64).reshape(osh)
            ci = rs.randint(-9, 10, size=osh) if np.dtype(fc["dtype"]).kind == "c" else None
        li = [len(lines)]
        lines.append("C10 fwtn %s sh=%s ax=%s level=%s x=%s" % (f, IL(shape), IL(ax), lv(level), IL(x.ravel())))
        if xi is not None:   # complex data: the model (a real-linear map applied to both parts) is asked for the imaginary part too
            li.append(len(lines))
            lines.append("C10 fwtn %s sh=%s ax=%s level=%s x=%s" % (f, IL(shape), IL(ax), lv(level), IL(xi.ravel())))
        meta.append(("fwtn", name, shape, axes, level, x, xi, None, fx, li))
        if c is not None:
            li = [len(lines)]
            lines.append("C10 iwtn %s sh=%s ax=%s level=%s c=%s" % (f, IL(shape), IL(ax), lv(level), IL(c.ravel())))
            if ci is not None:
                li.append(len(lines))
                lines.append("C10 iwtn %s sh=%s ax=%s level=%s c=%s" % (f, IL(shape), IL(ax), lv(level), IL(ci.ravel())))
            meta.append(("iwtn", name, shape, axes, level, c, ci, sl, fc, li))
    replies = ctx.driver_guarded(lines, chunk=20, chunk_timeout=60, line_timeout=30)
    bad = skipped = 0
    for (kind, name, shape, axes, level, data, imag, sl, feed, li) in meta:
        rs_ = [replies[i] for i in li]
        r = rs_[0]
        if "err model-timeout" in rs_:
            skipped += 1
            continue
        case = dict(kind="ndlevels", op=kind, wavelet=name, shape=list(shape), axes=None if axes is None else list(axes), level=level,
                    feed=feed)
        model = None
        if all(t.startswith("ok ") for t in rs_):
            try:
                parts = []
                for t in rs_:
                    if kind == "fwtn":
                        sh_s, v_s = t[3:].split(" | ")
                        parts.append(np.array(parse_rats(v_s)).reshape(parse_ints(sh_s)))
                    else:
                        parts.append(np.array(parse_rats(t[3:])).reshape(shape))
                model = parts[0] if len(parts) == 1 else parts[0] + 1j * parts[1]
            except Exception as e:  # noqa
                model = None
        for via in ("fn", "linop"):
            try:
                arr = feed_array(data.ravel(), feed, data.shape, None if imag is None else imag.ravel())
                if kind == "fwtn":
                    impl = (sp.fwt(arr, wave_name=name, axes=axes, level=level) if via == "fn"
                            else linop.Wavelet(shape, axes=axes, wave_name=name, level=level)(arr))
                else:
                    impl = (sp.iwt(arr, shape, sl, wave_name=name, axes=axes, level=level) if via == "fn"
                            else linop.Wavelet(shape, axes=axes, wave_name=name, level=level).H(arr))
            except Exception as e:  # noqa
                impl = "err %s" % type(e).__name__
            ctx.case(("ndlevels", kind, name, tuple(shape), axes, level, via, data.ravel().tolist(), json.dumps(feed, sort_keys=True)),
                     sample=dict(op=kind, wavelet=name, shape=list(shape), axes=axes, level=level, via=via, feed=feed, reply=r[:80])
                     if ctx.evaluations % 61 == 0 else None)
            ctx.count("ndlevels:%s:%dd:%s" % (kind, len(shape), "odd" if any(s % 2 for s in shape) else "even"))
            ctx.count("feed:dtype:%s" % feed["dtype"])
            ctx.count("feed:layout:%s" % feed["layout"])
            ok = model is not None and isinstance(impl, np.ndarray) and impl.shape == model.shape and _cmp(impl, model)
            if not ok:
                bad += 1
                ctx.disagree("ndlevels", dict(case, via=via),
                             impl if isinstance(impl, str) else dict(shape=list(impl.shape), dtype=str(impl.dtype), head=np.asarray(impl).ravel()[:6].tolist()),
                             r[:120] if model is None else dict(shape=list(model.shape), head=model.ravel()[:6].tolist()))
    if skipped:
        ctx.notes.append("ndlevels: %d requests not compared (model time-out)" % skipped)
    ctx.oblige("correspondence:C10.ndlevels", "correspondence", bad == 0 and skipped <= len(lines) // 4,
               "%d disagreements (%d not compared) between the executed multi-level N-d Lean model (fwtnM/iwtnM) and "
               "sp.fwt/sp.iwt/Wavelet(.H)" % (bad, skipped))


def stream_maxlevel(ctx):
    """`level=None`: the model's `maxLevel` (maxLevel_spec: largest J with (L-1)*2^J <= n) vs pywt.dwt_max_level, and the
    N-d rule of wavedecn (smallest over the transformed axes) through get_wavelet_shape's number of slices"""
    import pywt
    import sigpy as sp
    ns = list(range(0, 140)) + [255, 256, 257, 1023, 1024, 4095, 4096, 10 ** 6]
    Ls = list(range(2, 42, 2)) + [76, 102]
    rep = ctx.driver(["C10 maxlevel n=%s L=%d" % (IL(ns), L) for L in Ls])
    bad = 0
    for L, r in zip(Ls, rep):
        model = parse_ints(r[3:]) if r.startswith("ok ") else r
        impl = [int(pywt.dwt_max_level(n, L)) for n in ns]
        want = [max([J for J in range(0, 40) if (L - 1) * 2 ** J <= n] or [0]) for n in ns]   # the statement of maxLevel_spec
        ctx.case(("maxlevel", L))
        ctx.count("maxlevel")
        if model != impl or impl != want:
            bad += 1
            ctx.disagree("maxlevel", dict(kind="maxlevel", L=L), impl, model)
    ctx.oblige("correspondence:C10.maxlevel", "correspondence", bad == 0,
               "%d filter lengths where maxLevel differs from pywt.dwt_max_level / the closed form" % bad)


class _Rec:
    """records the PyWavelets calls sigpy.wavelet makes"""

    def __init__(self, real):
        self._real, self.calls = real, []

    def __getattr__(self, name):
        f = getattr(self._real, name)
        if name in ("wavedecn", "waverecn", "coeffs_to_array", "array_to_coeffs"):
            def wrap(*a, **k):
                # arguments by PARAMETER NAME of the PyWavelets function (positional / keyword spelling and explicitly
                # passed defaults of the caller do not matter), omitted ones with PyWavelets' default
                import inspect
                ba = inspect.signature(f).bind(*a, **k)
                ba.apply_defaults()
                self.calls.append((name, dict(ba.arguments)))
                return f(*a, **k)
            return wrap
        return f


def _slices_eq(a, b):
    return json.dumps(a, default=str, sort_keys=True) == json.dumps(b, default=str, sort_keys=True)


def stream_packing_reified(ctx, rng, names):
    """(a) coeffs_to_array / array_to_coeffs with the slices stored by get_wavelet_shape are inverse 0/1
    packings on labelled coefficient sets; (b) the arguments Wavelet / InverseWavelet hand to PyWavelets."""
    import pywt
    import sigpy as sp
    import sigpy.wavelet as SW
    from sigpy import linop
    n_cases = 60 if ctx.tier == "quick" else 600
    bad_p = bad_r = 0
    for _ in range(n_cases):
        name = rng.choice(names)
        shape = rng.choice(SHAPES_BASE) if rng.random() < 0.5 else rand_shape(rng)
        axes = rng.choice(subsets(len(shape)))
        level = rng.choice(LEVELS)
        zshape = [((i + 1) // 2) * 2 for i in shape]
        case = dict(kind="packing", wavelet=name, shape=list(shape), axes=None if axes is None else list(axes), level=level)
        ctx.case(("packing", json.dumps(case, sort_keys=True)))
        ctx.count("packing:%dd" % len(shape))
        # (a) labelled coefficient set of the structure wavedecn produces for the padded shape
        try:
            coeffs = pywt.wavedecn(np.zeros(zshape), name, mode="zero", axes=axes, level=level)
            lab = 0
            def label(a):
                nonlocal lab
                out = np.arange(lab + 1, lab + 1 + a.size, dtype=float).reshape(a.shape)
                lab += a.size
                return out
            lc = [label(coeffs[0])] + [{k: label(v) for k, v in sorted(d.items())} for d in coeffs[1:]]
            arr, sl = pywt.coeffs_to_array(lc, axes=axes)
            osh, sl_sigpy = sp.wavelet.get_wavelet_shape(shape, name, axes, level)
            back = pywt.array_to_coeffs(arr, sl_sigpy, output_format="wavedecn")
            ok = tuple(osh) == arr.shape and _slices_eq(sl, sl_sigpy) and len(back) == len(lc) \
                and np.array_equal(back[0], lc[0]) \
                and all(sorted(b) == sorted(c) and all(np.array_equal(b[k], c[k]) for k in c) for b, c in zip(back[1:], lc[1:])) \
                and sorted(arr[arr != 0].ravel().tolist()) == list(range(1, lab + 1))
            obs = None if ok else dict(oshape=list(osh), packed=list(arr.shape), slices_equal=_slices_eq(sl, sl_sigpy))
        except Exception as e:  # noqa
            ok, obs = False, "err %s" % type(e).__name__
        if not ok:
            bad_p += 1
            ctx.disagree("packing", case, obs, "array_to_coeffs(coeffs_to_array(c), stored slices) == c, every label exactly once")
        # (b) reified arguments
        rec = _Rec(pywt)
        SW.pywt = rec
        try:
            W = linop.Wavelet(shape, axes=axes, wave_name=name, level=level)
            Wi = W.H
            Wii = Wi.H
            n_ctor = len(rec.calls)
            x = np.ones(shape)
            y = W(x)
            n_f = len(rec.calls)
            Wi(y)
            calls = rec.calls
        except Exception as e:  # noqa
            calls, W, Wi, Wii = "err %s" % type(e).__name__, None, None, None
        finally:
            SW.pywt = pywt
        case_r = dict(case, kind="reified")
        ctx.case(("reified", json.dumps(case_r, sort_keys=True)))
        problems = []
        if isinstance(calls, str):
            problems.append(calls)
        else:
            def attrs(op):
                return (op.wave_name, op.axes, op.level)
            if not (isinstance(Wi, linop.InverseWavelet) and isinstance(Wii, linop.Wavelet)):
                problems.append("H types %s %s" % (type(Wi).__name__, type(Wii).__name__))
            else:
                if not (attrs(W) == attrs(Wi) == attrs(Wii) == (name, axes, level)):
                    problems.append("attributes not forwarded: %r %r %r" % (attrs(W), attrs(Wi), attrs(Wii)))
                if not (list(Wi.oshape) == list(W.ishape) and list(Wi.ishape) == list(W.oshape)
                        and list(Wii.ishape) == list(W.ishape) and list(Wii.oshape) == list(W.oshape)):
                    problems.append("shapes of .H/.H.H")
            decs = [c for c in calls if c[0] == "wavedecn"]
            recs = [c for c in calls if c[0] == "waverecn"]
            for nm_, A in decs:
                if not (list(np.shape(A["data"])) == zshape and A["wavelet"] == name and A["mode"] == "zero"
                        and A["axes"] == axes and A["level"] == level):
                    problems.append("wavedecn(%s, %r)" % (list(np.shape(A["data"])), {k: v for k, v in A.items() if k != "data"}))
            for nm_, A in recs:
                if not (A["wavelet"] == name and A["mode"] == "zero" and A["axes"] == axes):
                    problems.append("waverecn(%r)" % ({k: v for k, v in A.items() if k != "coeffs"},))
            for nm_, A in [c for c in calls if c[0] == "coeffs_to_array"]:
                if not (A["axes"] == axes and isinstance(A["padding"], int) and A["padding"] == 0):
                    problems.append("coeffs_to_array(%r)" % ({k: v for k, v in A.items() if k != "coeffs"},))
            for nm_, A in [c for c in calls[n_f:] if c[0] == "array_to_coeffs"]:
                if not (_slices_eq(A["coeff_slices"], Wi.coeff_slices) and A["output_format"] == "wavedecn"):
                    problems.append("array_to_coeffs slices/format")
            if len(decs) < 3 or len(recs) != 1:
                problems.append("call counts dec=%d rec=%d" % (len(decs), len(recs)))
        if problems:
            bad_r += 1
            ctx.disagree("reified", case_r, problems[:4], "same wave_name/axes/level, mode='zero', padded shape on every call")
    ctx.oblige("correspondence:C10.packing", "correspondence", bad_p == 0, "%d packing round-trip failures" % bad_p)
    ctx.oblige("correspondence:C10.reified", "correspondence", bad_r == 0,
               "%d cases where Wavelet/InverseWavelet hand PyWavelets other arguments than the model assumes" % bad_r)


def correspond(ctx):
    warnings.simplefilter("ignore")  # pywt warns when an explicit level exceeds the max level (in the domain)
    ctx.rule = ("filters: every orthogonal wavelet of pywt; levels: wavelet x unpadded length (odd incl.) x level, pywt.wavedec and "
                "pywt.waverec on arbitrary integer coefficient lists (trimming rule); 1-D: wavelet x length (incl. L-1, L, L+1, odd) x level x axes "
                "spelling with integer data, exact rational model vs float impl at 1e-10, both entry points; the integer data reaches the "
                "implementation (1-D, separable, ndlevels streams) in a drawn storage: float64 / (u)int8..64 / >f8 / >i4 / long double "
                "(complex128 / clongdouble with an independent imaginary part in ndlevels) x C / Fortran / strided / reversed / transposed / "
                "window / read-only / unaligned / .real-part layout; shapes: wavelet x "
                "shape (1-3 D, odd/even/shorter than the filter) x axes subset (incl. negative/mixed/reordered) x level x dtype of the probe array; "
                "separable: N-D level-1 by per-axis composition of the model; ndlevels: wavelet (short filters favoured) x 1-3 D shape "
                "(odd sizes) x axes subset/spelling x level None/1/2/3 with integer data through the executed multi-level N-d model, forward "
                "on arrays and inverse on arbitrary coefficient arrays, both entry points; maxlevel: lengths 0..139 + powers of two x even "
                "filter lengths; packing/reified: labelled coefficient sets and "
                "recorded PyWavelets calls. Cases are distinct by (stream, wavelet, shape/length, axes, level, data); all are "
                "non-trivial (non-empty arrays; labelled or random non-constant data)")
    rng = ctx.rng
    names = wavelets_for(ctx, rng)
    ctx.assumptions += [
        "PyWavelets (C code) is modelled, not verified: dwt/idwt/wavedec(n)/waverec(n)/coeffs_to_array/array_to_coeffs compute the "
        "formulas of Model/C10.lean (validated on every run by the dwt1d/separable/packing/shapes streams)",
        "pywt's filter taps satisfy completeness/orthonormality only to ~1e-11 (validated by the filters stream); the theorems are exact "
        "statements about filters satisfying them exactly",
        "Complete is proved from the orthonormality of dec_lo alone when dec_hi is its alternating flip (complete_of_qmf_pair); that "
        "dec_hi IS the alternating flip of dec_lo is checked for every pywt wavelet on every run (filters stream, observed exact); the general "
        "Orthonormal -> Complete (g not assumed to be the flip) is TRUE for finitely supported filters but not proved here: it is the statement "
        "that the 2x2 polyphase matrix E(z) over the commutative ring of Laurent polynomials with E(z) E~(z) = I also has E~(z) E(z) = I "
        "(left inverse = right inverse for square matrices over a commutative ring, Mathlib Matrix.mul_eq_one_comm); what is missing is the "
        "translation of the finsum-over-Z identities into Laurent-polynomial matrix identities. The contract does not NEED the flip "
        "mathematically; the proof available does, and the flip is an exactly checkable (bit-for-bit) property of the taps whereas the "
        "orthonormality sums hold only to 1e-11",
        "N-d, ALL levels: proved (Props/C10Ml.lean: fwtn_isometry/_adjoint/_pr over the advertised box, fwtnOutShape_eq_waveShape) for the "
        "model fwtn/iwtn of pywt.wavedecn + coeffs_to_array | array_to_coeffs + waverecn (recursion on the approximation block, detail blocks "
        "at the accumulated offsets, zero filling); that PyWavelets' Python layer computes this model is a CONTRACT validated value by value "
        "by the ndlevels stream (the executed twins fwtnM/iwtnM are proved equal to fwtn/iwtn: fwtnM_app/iwtnM_app)",
        "axes: the model takes a duplicate-free list of axes already reduced mod ndim (PyWavelets raises on repeated axes; sigpy forwards the "
        "axes tuple unchanged, negative entries index shape[ax] like numpy) - the ndlevels/shapes streams call the real code with the "
        "unnormalised tuple and the model with a % ndim",
        "level=None: pywt.dwt_max_level is PyWavelets' C code (contract); the model's maxLevel is proved to be the largest J with (L-1)*2^J <= n "
        "(maxLevel_spec) and compared with pywt.dwt_max_level on every run (maxlevel stream)",
        "complex inputs: PyWavelets transforms real and imaginary parts separately (validated value by value by the ndlevels stream on "
        "complex128 / clongdouble data with independent integer real and imaginary parts, and by the search oracle on complex data)",
        "storage of the input: the theorems are about the numbers an array holds; that sigpy + PyWavelets read exactly those numbers from any "
        "storage dtype / memory layout (PyWavelets converts everything except float32 / complex64 / float64 / complex128 to float64, float16 "
        "to float32) is validated by the streams' storage feeds (exact, 1e-10) and the search oracle (single precision at %g relative)" % RTOL_SINGLE,
    ]
    ctx.trusted += ["PyWavelets %s (C implementation of dwt/idwt and its Python multilevel/packing layer): contract validated by "
                    "correspondence on every run, not verified" % __import__("pywt").__version__,
                    "numpy slicing semantics of util.resize (C09 model)"]
    import time
    for fn, args in [(stream_filters, ()), (stream_glue, ()),
                     (stream_1d, (rng, names if ctx.tier == "thorough" else names[:: 2] + names[-3:])),
                     (stream_levels, (rng, names if ctx.tier == "thorough" else names[1:: 2] + names[-2:])),
                     (stream_shapes, (rng, names)), (stream_separable, (rng, names)),
                     (stream_nd_levels, (rng, names)), (stream_maxlevel, ()),
                     (stream_packing_reified, (rng, names))]:
        t = time.time()
        fn(ctx, *args)
        common.log("  %s: %.1fs" % (fn.__name__, time.time() - t))
    ctx.traces = ctx.evaluations


# ---- the property's own oracle on the real code ----------------------------------------------------
# The statement quantifies over "real and complex inputs": every numpy array holding real or complex numbers is an
# input - whatever its storage dtype (float16/32/64, complex64/128, signed/unsigned integers of every width, long
# double, non-native byte order), memory layout (C / Fortran order, strided / reversed / transposed views, windows of
# larger buffers, the .real/.imag part of a complex array, read-only, unaligned, broadcast views) and magnitude.  The
# identities are always judged against the EXACT values the array holds (converted to float64 / complex128, which is
# lossless for every dtype generated here), never against an array of the input's own dtype.
DT_DOUBLE = ["float64", "complex128"]
DT_SINGLE = ["float32", "complex64", "float16"]          # PyWavelets transforms these in single precision
DT_INT = ["int8", "int16", "int32", "int64", "uint8", "uint16", "uint32", "uint64"]
DT_SWAPPED_REAL = [">f8", ">f4", ">i2", ">i4", ">u2"]     # non-native byte order (raw files); converted to float64 by pywt
DT_LONG = ["longdouble", "clongdouble"]                  # converted to float64 / complex128 by pywt
DT_SWAPPED_COMPLEX = [">c16", ">c8"]
LAYOUTS = ["C", "F", "strided", "neg", "T", "window", "ro", "unaligned", "bcast", "part"]
RTOL_SINGLE = 5e-4   # single-precision arrays are transformed in single precision (observed <= 4e-7 relative)
KEY_SWAPPED_COMPLEX = "C10:byteswapped-complex-input"


def case_dtype(c, which="dtype"):
    d = c.get(which)
    if d is None and which == "cdtype":
        d = c.get("dtype")
    return d if d is not None else ("complex128" if c.get("cplx") else "float64")


def dclass(dtype):
    d = np.dtype(dtype)
    if not d.isnative and d.kind == "c":
        return "bswapc"
    if not d.isnative:
        return "bswap"
    if d.kind in "iu":
        return "int"
    if d.name in DT_SINGLE:
        return "single"
    if d.name in ("float64", "complex128"):
        return "double"
    return "long"


def rtol_of(*dtypes):
    return RTOL_SINGLE if any(dclass(d) == "single" for d in dtypes) else RTOL_PROP


def make_input(shape, cplx, seed):
    r = np.random.RandomState(seed)
    x = r.standard_normal(shape)
    if cplx:
        x = x + 1j * r.standard_normal(shape)
    return x


def make_typed(shape, dtype, seed, scale=0):
    """values of the requested storage dtype.  Floating kinds: standard normal (x 10^scale); integer kinds: uniform
    in +-(2^(4+9*scale) - 1) clipped to the dtype's range (non-negative for unsigned), always exactly representable in
    float64.  For float64 / complex128 and scale 0 this is `make_input` (older replays keep their data)."""
    dt = np.dtype(dtype)
    shape = tuple(int(s) for s in shape)
    if dt.kind in "iu":
        info = np.iinfo(dt)
        hi = min(int(info.max), 2 ** (4 + 9 * min(abs(int(scale)), 3)) - 1)
        lo = max(int(info.min), -hi)
        a = np.random.RandomState(seed).randint(lo, hi + 1, size=shape, dtype=np.int64)
        return a.astype(dt)
    a = make_input(shape, dt.kind == "c", seed)
    if scale:
        a = a * 10.0 ** int(scale)
    return a.astype(dt)


def exact(a):
    """the values an array holds, as a fresh C-contiguous float64 / complex128 array"""
    a = np.asarray(a)
    return np.array(a, dtype=np.complex128 if a.dtype.kind == "c" else np.float64, order="C", copy=True)


def lay(a, layout, seed):
    """an array with the values of `a` (except 'bcast': the first slice repeated) in the requested memory layout; the
    memory around / between the elements of a view holds non-zero garbage"""
    r = np.random.RandomState((seed + 7919) % (2 ** 31))
    nd = a.ndim

    def garbage(shape, dtype=None):
        dtype = a.dtype if dtype is None else np.dtype(dtype)
        if dtype.kind in "iu":
            return r.randint(1, 8, size=shape).astype(dtype)
        g = 3.0 + r.standard_normal(shape)
        if dtype.kind == "c":
            g = g - 2j * g
        return g.astype(dtype)

    def filled(view):
        view[...] = a
        return view

    if layout == "F":
        return np.array(a, order="F", copy=True)
    if layout == "strided":
        st = [int(r.randint(2, 4)) for _ in range(nd)]
        buf = garbage(tuple(s * t for s, t in zip(a.shape, st)))
        return filled(buf[tuple(slice(t - 1, None, t) for t in st)])
    if layout == "neg":
        buf = garbage(a.shape)
        return filled(buf[tuple(slice(None, None, -1) for _ in range(nd))])
    if layout == "T":
        perm = list(r.permutation(nd)) if nd > 2 else list(range(nd))[::-1]
        buf = garbage(tuple(a.shape[p] for p in perm))
        return filled(buf.transpose(np.argsort(perm)))
    if layout == "window":
        lo = [int(r.randint(0, 3)) for _ in range(nd)]
        buf = garbage(tuple(s + l + 2 for s, l in zip(a.shape, lo)))
        return filled(buf[tuple(slice(l, l + s) for s, l in zip(a.shape, lo))])
    if layout == "ro":
        b = np.array(a, order="C", copy=True)
        b.setflags(write=False)
        return b
    if layout == "unaligned":
        raw = np.full(a.size * a.dtype.itemsize + 1, 0x55, dtype=np.uint8)
        return filled(raw[1:].view(a.dtype).reshape(a.shape))
    if layout == "bcast":   # zero stride along the first axis (read-only): e.g. a profile repeated over a batch axis
        return np.broadcast_to(np.array(a[:1], copy=True), a.shape)
    if layout == "part" and a.dtype.kind == "f" and a.dtype.isnative and a.dtype.itemsize in (4, 8):
        z = garbage(a.shape, "complex64" if a.dtype.itemsize == 4 else "complex128")
        return filled(z.real if seed % 2 else z.imag)   # real / imaginary part of a complex array: a strided real view
    return np.array(a, order="C", copy=True)


def spell(c, shape, axes, level):
    """`spell`=1: the same request written with numpy integers (shape entries, axes entries, level)"""
    if not c.get("spell"):
        return list(shape), axes, level
    return (tuple(np.int64(s) for s in shape), None if axes is None else tuple(np.int64(a) for a in axes),
            None if level is None else np.int64(level))


def l2(a):
    """l2 norm without BLAS (thread start-up dominates on tiny arrays)"""
    a = np.asarray(a)
    if not (a.dtype.isnative and a.dtype.name in ("float64", "complex128")):
        a = exact(a)
    return float(np.sqrt((a.real ** 2 + a.imag ** 2).sum()))


def ip(a, b):
    """<a, b> = sum conj(a) b"""
    return complex((np.conj(exact(a)) * exact(b)).sum())


def parity(shape):
    return "odd" if any(s % 2 for s in shape) else "even"


WORST = {}   # largest observed residual / (norm scale) per precision class: reported in the evidence notes


class _Run:
    """one configuration, evaluated in stages so that several live operators can be interleaved (histories)"""

    def __init__(self, c):
        self.c = c
        self.name, self.shape, self.level = c["wavelet"], [int(s) for s in c["shape"]], c["level"]
        self.axes = None if c["axes"] is None else tuple(int(a) for a in c["axes"])
        self.dt, self.cdt = case_dtype(c), case_dtype(c, "cdtype")
        self.layout, self.clayout = c.get("layout", "C"), c.get("clayout", c.get("layout", "C"))
        self.error = None
        self.xe = exact(self.mk_x())

    # every call of the implementation gets a freshly built array (same values, same layout): the verdict on one call never
    # depends on what another call did to its argument (that inputs are left alone is property C02, not this one)
    def mk_x(self):
        c = self.c
        if getattr(self, "_xb", None) is None:
            self._xb = make_typed(self.shape, self.dt, c["seed"], c.get("scale", 0))
            self._xb.setflags(write=False)
        return lay(self._xb, self.layout, c["seed"])

    def mk_c(self):
        c = self.c
        if getattr(self, "_cb", None) is None:
            self._cb = make_typed(self.cshape, self.cdt, c["seed"] + 1, c.get("cscale", c.get("scale", 0)))
            self._cb.setflags(write=False)
        return lay(self._cb, self.clayout, c["seed"] + 1)

    def params(self):
        return (self.name, tuple(self.shape), self.axes, self.level, bool(self.c.get("spell")))

    def guarded(self, stage):
        if self.error is not None:
            return
        try:
            with warnings.catch_warnings():
                warnings.simplefilter("ignore")
                stage()
        except Exception as e:  # a request inside the quantified domain must work
            self.error = e

    def construct(self, shared=None):
        def stage():
            import sigpy as sp
            from sigpy import linop
            shape, axes, level = spell(self.c, self.shape, self.axes, self.level)
            ops = None if shared is None else shared.get(self.params())
            if ops is None:
                W = linop.Wavelet(shape, axes=axes, wave_name=self.name, level=level)
                ops = (W, W.H, W.H.H)
                if shared is not None:
                    shared[self.params()] = ops
            self.W, self.WH, self.WHH = ops
            self.osh, self.sl = sp.wavelet.get_wavelet_shape(shape, wave_name=self.name, axes=axes, level=level)
            self.args = (shape, axes, level)
        self.guarded(stage)

    def forward(self):
        def stage():
            import sigpy as sp
            shape, axes, level = self.args
            self.y = sp.fwt(self.mk_x(), wave_name=self.name, axes=axes, level=level)
            self.yl = self.W(self.mk_x())
            self.yhh = self.WHH(self.mk_x())
            self.cshape = tuple(self.y.shape)
            self.cce = exact(self.mk_c())
        self.guarded(stage)

    def inverse(self):
        def stage():
            import sigpy as sp
            shape, axes, level = self.args
            WH = self.WH
            self.xr = sp.iwt(self.y.copy(), shape, self.sl, wave_name=self.name, axes=axes, level=level)
            self.xc = sp.iwt(self.mk_c(), shape, self.sl, wave_name=self.name, axes=axes, level=level)
            self.xrl = WH(self.yl.copy()) if tuple(self.yl.shape) == tuple(WH.ishape) else None
            self.xcl = WH(self.mk_c()) if self.cshape == tuple(WH.ishape) else None
        self.guarded(stage)

    def verify(self, ctx, origin, case=None, prefix=""):
        """the four claims of the statement, on the values the input array holds"""
        c = self.c if case is None else case
        shape = self.shape
        cls = dclass(self.dt)
        tag = parity(shape) + ("" if cls == "double" else ":" + cls)
        ok = True

        def fail(key, what, obs, exp):
            nonlocal ok
            ok = False
            k = KEY_SWAPPED_COMPLEX if "bswapc" in (cls, dclass(self.cdt)) else "C10:%s%s:%s" % (prefix, key, tag)
            if k == KEY_SWAPPED_COMPLEX and sum(1 for f in ctx.failures if f["key"] == k) >= 8:
                return   # one class, one key: a few instances are enough evidence
            ctx.fail(k, what, c, observed=obs, expected=exp, origin=origin)

        if self.error is not None:
            e = self.error
            fail("raises", "fwt/iwt/Wavelet raised %s on a request inside the property's domain" % type(e).__name__,
                 (repr(e) + (" caused by " + repr(e.__cause__) if e.__cause__ is not None else ""))[:400], "result")
            return False
        W, WH, x, y, yl, yhh, cc = self.W, self.WH, self.xe, self.y, self.yl, self.yhh, self.cce
        nx, nc = l2(x), l2(cc)
        tol = rtol_of(self.dt)
        tol_a = rtol_of(self.dt, self.cdt)
        # advertised shape
        if not (tuple(W.oshape) == tuple(y.shape) == tuple(self.osh) == tuple(yl.shape)) or [int(s) for s in W.ishape] != shape:
            fail("shape:Wavelet.oshape", "coefficient array does not have the advertised shape",
                 dict(oshape=list(W.oshape), get_wavelet_shape=list(self.osh), fwt=list(y.shape), linop=list(yl.shape)), "all equal")
            return False
        if self.xrl is None or tuple(WH.oshape) != tuple(shape):
            fail("shape:Wavelet.H", "Wavelet.H does not accept the coefficient shape / return the input shape",
                 dict(H_ishape=list(WH.ishape), H_oshape=list(WH.oshape)), dict(ishape=list(y.shape), oshape=shape))
            return False
        if nx == 0 or nc == 0:    # only from the bounded integer generators on tiny shapes; nothing to compare relative to
            return True

        def seen(v, k=None):
            k = cls if k is None else k
            if np.isfinite(v):
                WORST[k] = max(WORST.get(k, 0.0), float(v))
        # round trip
        for ent, got in (("iwt", self.xr), ("Wavelet.H", self.xrl)):
            err = l2(exact(got) - x) / nx if got.shape == x.shape else None
            if err is None or not err <= tol:
                fail("roundtrip:" + ent, "inverse(forward(x)) != x", dict(shape=list(got.shape), rel_err=err, result_dtype=str(got.dtype)),
                     "<= %g relative" % tol)
            else:
                seen(err)
        # isometry
        for ent, got in (("fwt", y), ("Wavelet", yl), ("Wavelet.H.H", yhh)):
            if not abs(l2(got) - nx) <= tol * nx:
                fail("isometry:" + ent, "forward transform does not preserve the l2 norm",
                     dict(norm_y=l2(got), norm_x=nx, result_dtype=str(got.dtype)), "equal to %g relative" % tol)
            else:
                seen(abs(l2(got) - nx) / nx)
        if yhh.shape != y.shape or not l2(exact(yhh) - exact(y)) <= tol * nx:
            fail("linop:Wavelet.H.H", "Wavelet.H.H differs from fwt", l2(exact(yhh) - exact(y)) if yhh.shape == y.shape else list(yhh.shape), "fwt(x)")
        if not l2(exact(yl) - exact(y)) <= tol * nx:
            fail("linop:Wavelet", "Wavelet(x) differs from fwt(x)", l2(exact(yl) - exact(y)), "fwt(x)")
        # adjoint: <fwt x, c> = <x, iwt c> for arbitrary coefficient arrays
        for ent, got in (("iwt", self.xc), ("Wavelet.H", self.xcl)):
            if got.shape != x.shape:
                fail("adjoint:" + ent, "inverse of an arbitrary coefficient array has the wrong shape", list(got.shape), shape)
                continue
            lhs, rhs = ip(cc, y), ip(got, x)
            if not abs(lhs - rhs) <= tol_a * nx * nc:
                fail("adjoint:" + ent, "<fwt x, c> != <x, iwt c>",
                     dict(lhs=complex(lhs), rhs=complex(rhs), result_dtype=str(got.dtype), coeff_dtype=self.cdt), "equal to %g relative" % tol_a)
            else:
                seen(abs(lhs - rhs) / (nx * nc), "single" if tol_a == RTOL_SINGLE else None)
        return ok


def check_oracle(ctx, c, origin):
    """c = dict(wavelet, shape, axes, level, seed, + optional cplx | dtype, cdtype, layout, clayout, scale, cscale, spell), or a
    history dict(kind='history', entries=[...], order=seed).  Returns True iff the property holds on this input."""
    if c.get("kind") == "history":
        return check_history(ctx, c, origin)
    try:
        run = _Run(c)
    except Exception as e:  # harness trouble building the input: never a verdict about sigpy
        raise RuntimeError("C10 oracle could not build the input of %r: %r" % (c, e))
    run.construct()
    run.forward()
    run.inverse()
    return run.verify(ctx, origin)


def check_history(ctx, h, origin):
    """several requests served by LIVE operators: all operators (and their .H, .H.H) are constructed first - requests with
    identical parameters share one operator object - then all forward transforms run in one shuffled order and all inverse
    transforms in another; every request must satisfy the statement exactly as if it had been served alone."""
    runs = [_Run(e) for e in h["entries"]]
    r = np.random.RandomState(h.get("order", 0))
    shared = {}
    for i in r.permutation(len(runs)):
        runs[i].construct(shared)
    for i in r.permutation(len(runs)):
        runs[i].forward()
    for i in r.permutation(len(runs)):
        runs[i].inverse()
    ok = True
    for i, run in enumerate(runs):
        sub = len(ctx.failures)
        if not run.verify(ctx, origin, case=h, prefix="history:"):
            ok = False
            for f in ctx.failures[sub:]:
                f["observed"] = "entry %d: %s" % (i, f["observed"])
            # the same request served alone by fresh objects: when it fails too it is reported as a plain (smaller) case
            check_oracle(ctx, run.c, origin + ":history-entry")
    return ok


def _packed_size(shape, axes, L, level):
    """number of elements of the packed coefficient array (1-D packed length per transformed axis, padded length otherwise)"""
    tr = norm_axes(axes, len(shape))
    out = 1
    for a, n in enumerate(shape):
        z = n + n % 2
        if a in tr:
            ns = [z]
            for _ in range(level):
                ns.append((ns[-1] + L - 1) // 2)
            out *= ns[-1] + sum(ns[1:])
        else:
            out *= z
    return out


def gen_oracle_cases(ctx, rng, names, budget):
    shapes = list(SHAPES_BASE) + [rand_shape(rng) for _ in range(int(6 * budget))]
    cases = []
    per = max(3, min(int(8 * budget), 12))   # thorough: all 75 wavelets x 12 shapes (≈ 3 min on this machine)
    import pywt
    for name in names:
        L = pywt.Wavelet(name).dec_len
        for shape in rng.sample(shapes, min(len(shapes), per)):
            for axes in subsets(len(shape), rng, limit=4 if budget < 8 else 6):
                for level in LEVELS:
                    # long filters in 3-D give coefficient arrays of ~(2L)^3 elements: sample those sparsely
                    if len(shape) == 3 and L > 24 and level != 1 and rng.random() < 0.85:
                        continue
                    # quick tier: a 3-level transform with a 100-tap filter in 3-D has ~3e7 coefficients (15 s per case);
                    # keep the case only when the packed coefficient array stays small (thorough keeps them all)
                    if budget < 8 and level is not None and _packed_size(shape, axes, L, level) > 300000:
                        continue
                    cases.append(representation(rng, dict(wavelet=name, shape=list(shape), axes=None if axes is None else list(axes),
                                                          level=level, seed=rng.randint(0, 10 ** 6))))
    return cases


# storage dtype classes with their share of the widened cases
DT_WEIGHTS = [(DT_DOUBLE, 20), (DT_SINGLE, 18), (DT_INT, 44), (DT_SWAPPED_REAL, 8), (DT_LONG, 6), (DT_SWAPPED_COMPLEX, 2)]


def draw_dtype(rng):
    tot = sum(w for _, w in DT_WEIGHTS)
    t = rng.random() * tot
    for group, w in DT_WEIGHTS:
        t -= w
        if t < 0:
            return rng.choice(group)
    return "float64"


def draw_scale(rng, dtype):
    """power of ten (floating kinds) / magnitude class (integer kinds) inside the dtype's exactly handled range"""
    d = np.dtype(dtype)
    if d.kind in "iu":
        return rng.choice([0, 0, 1, 2, 3])
    if rng.random() < 0.7 or d.name == "float16":
        return 0
    lim = 12 if d.itemsize <= (8 if d.kind == "c" else 4) else 100
    return rng.choice([-lim, -lim // 3, -3, 3, lim // 3, lim])


def representation(rng, c):
    """how the numbers are stored: 35% of the cases keep the classic float64 / complex128 C-contiguous array, the others
    draw storage dtype, memory layout, magnitude, the dtype / layout of the arbitrary coefficient array of the adjoint
    identity (30% of them from another class: a real signal against complex coefficients, integers against floats ...)
    and the spelling of shape / axes / level (numpy integers)"""
    if rng.random() < 0.35:
        c["cplx"] = rng.random() < 0.5
        return c
    c["dtype"] = draw_dtype(rng)
    c["layout"] = "C" if rng.random() < 0.4 else rng.choice(LAYOUTS)
    c["scale"] = draw_scale(rng, c["dtype"])
    if rng.random() < 0.3:
        c["cdtype"] = draw_dtype(rng)
        c["clayout"] = rng.choice(LAYOUTS)
        c["cscale"] = draw_scale(rng, c["cdtype"])
    if rng.random() < 0.15:
        c["spell"] = 1
    return c


# one instance of every storage class / layout on every run (decomposition actually performed: length >= filter length)
PINNED = [dict(wavelet=w, shape=sh, axes=ax, level=lvl, seed=sd, dtype=dt, layout=lo, scale=sc)
          for sd, (w, sh, ax, lvl, dt, lo, sc) in enumerate([
              ("haar", [8], None, 1, "int64", "C", 0), ("db4", [17], None, None, "int32", "strided", 1),
              ("db2", [6, 5], [0], 2, "uint8", "F", 1), ("coif1", [5, 7], None, 1, "int16", "T", 1),
              ("sym3", [4, 3, 8], [-2, -1], 2, "uint16", "window", 2), ("db3", [9, 10], [-1, 0], 2, "int8", "neg", 1),
              ("db2", [13], [-1], 3, "uint32", "unaligned", 3), ("haar", [2, 3, 5], [1, -1], None, "uint64", "ro", 3),
              ("db4", [17], None, 1, "float32", "part", 0), ("db2", [6, 5], [1], None, "complex64", "strided", 3),
              ("sym4", [10, 7], [0], 2, "float16", "F", 0), ("db2", [7, 8], [1], None, "float64", "part", -100),
              ("db3", [12, 11], [1, 0], 3, "complex128", "T", 100), ("haar", [5, 6], None, 2, ">f8", "window", 0),
              ("db2", [8, 3], None, 2, ">i4", "C", 2), ("db2", [16], None, 2, "longdouble", "neg", 0),
              ("sym2", [6, 6], None, 1, "clongdouble", "F", 0), ("db2", [9, 2], [0], 2, "float64", "bcast", 0),
              ("db2", [6, 5], [0], 2, ">c16", "C", 0)], start=4242)]


def gen_history_cases(ctx, rng, names, budget):
    """call histories over live operators: [a request, the same request with other storage (same operator object),
    the same shape with the axes respelled / reordered or another level (second live operator), a different request]"""
    import pywt
    short = [w for w in names if pywt.Wavelet(w).dec_len <= 12] or ["haar"]
    out = []
    for _ in range(min(int(30 * budget), 160)):
        name = rng.choice(short)
        shape = list(rng.choice(SHAPES_BASE) if rng.random() < 0.5 else rand_shape(rng))
        nd = len(shape)
        axes = rng.choice(subsets(nd))
        level = rng.choice(LEVELS)
        base = dict(wavelet=name, shape=shape, axes=None if axes is None else list(axes), level=level)
        entries = [representation(rng, dict(base, seed=rng.randint(0, 10 ** 6))) for _ in range(2)]
        other = dict(base)
        if rng.random() < 0.5 and nd > 1:
            a2 = norm_axes(axes, nd)
            rng.shuffle(a2)
            other["axes"] = [a - nd if rng.random() < 0.5 else a for a in a2]
        else:
            other["level"] = rng.choice([l for l in LEVELS if l != level])
        entries.append(representation(rng, dict(other, seed=rng.randint(0, 10 ** 6))))
        sh2 = list(rng.choice(SHAPES_BASE))
        ax2 = rng.choice(subsets(len(sh2)))
        entries.append(representation(rng, dict(wavelet=rng.choice(short), shape=sh2, axes=None if ax2 is None else list(ax2),
                                                level=rng.choice(LEVELS), seed=rng.randint(0, 10 ** 6))))
        out.append(dict(kind="history", entries=entries, order=rng.randint(0, 10 ** 6)))
    return out


def _case_from_disagreement(d, rng):
    cc = d["case"]
    out = []
    feed = cc.get("feed") or (cc.get("p") or {}).get("feed")
    if cc.get("kind") == "shape" and cc.get("dtype"):
        feed = dict(dtype=cc["dtype"], layout="C")

    def add(**k):
        for cplx in (False, True):
            out.append(dict(k, cplx=cplx, seed=rng.randint(0, 10 ** 6)))
        if feed is not None:   # ... and in the storage (dtype, layout) of the disagreeing call, for both roles
            for sc in (0, 1):
                out.append(dict(k, dtype=feed["dtype"], layout=feed["layout"], scale=sc, seed=rng.randint(0, 10 ** 6)))
            out.append(dict(k, cplx=False, cdtype=feed["dtype"], clayout=feed["layout"], cscale=0, seed=rng.randint(0, 10 ** 6)))

    if cc.get("kind") in ("shape", "packing", "reified", "separable", "ndlevels"):
        add(wavelet=cc["wavelet"], shape=cc["shape"], axes=cc.get("axes"), level=cc.get("level", 1))
    elif cc.get("kind") in ("fwt1", "iwt1"):
        p = cc["p"]
        n = p["n"] if "n" in p else len(p["x"])
        add(wavelet=cc["wavelet"], shape=[n], axes=None if p["axes"] is None else list(p["axes"]), level=p["level"])
    elif cc.get("kind") == "levels":
        add(wavelet=cc["wavelet"], shape=[cc["n"]], axes=None, level=cc["level"])
    elif cc.get("kind") == "maxlevel":
        for n in (cc["L"] - 1, 2 * (cc["L"] - 1), 4 * (cc["L"] - 1) + 1, 37):
            if n >= 1 and cc["L"] in (2, 4, 6, 8):
                out.append(dict(wavelet={2: "haar", 4: "db2", 6: "db3", 8: "db4"}[cc["L"]], shape=[n], axes=None, level=None,
                                cplx=False, seed=rng.randint(0, 10 ** 6)))
    elif cc.get("kind") == "padcrop":
        for name in ("haar", "db4"):
            out.append(dict(wavelet=name, shape=[cc["i"]], axes=None, level=1, cplx=False, seed=rng.randint(0, 10 ** 6)))
    return out


def _count_case(ctx, c):
    ctx.count("oracle:%s:%dd" % (c["wavelet"].rstrip("0123456789"), len(c["shape"])))
    ctx.count("oracle:dtype:%s" % dclass(case_dtype(c)))
    ctx.count("oracle:layout:%s" % c.get("layout", "C"))
    if case_dtype(c, "cdtype") != case_dtype(c):
        ctx.count("oracle:mixed-coefficient-dtype")
    if c.get("scale") and np.dtype(case_dtype(c)).kind in "fc":
        ctx.count("oracle:scaled")
    if c.get("spell"):
        ctx.count("oracle:numpy-int-arguments")


def search(ctx, budget):
    import time
    t0 = time.time()
    rng = ctx.rng
    ctx.rule += ("; oracle: wavelet x shape x axes subset x level, 35% as float64/complex128 C-contiguous arrays, the others with storage "
                 "dtype (float16/32/64, complex64/128, (u)int8..64, long double, non-native byte order), memory layout (C, Fortran, strided, "
                 "reversed, transposed, window of a larger buffer, read-only, unaligned, broadcast, .real/.imag part of a complex array), "
                 "magnitude (10^-100..10^100 for doubles, 10^-12..10^12 single, integers up to 2^31), an independently stored coefficient "
                 "array for the adjoint identity, numpy-integer spelling of shape/axes/level; a pinned instance of every class; histories of "
                 "4 requests over live operators (shared operator object for identical parameters, second operator on the same shape with "
                 "reordered axes / other level) with shuffled forward and inverse phases")
    seen = 0
    for d in ctx.disagreements[:300]:
        for c in _case_from_disagreement(d, rng):
            ctx.case(("oracle", json.dumps(c, sort_keys=True)))
            check_oracle(ctx, c, "disagreement")
            seen += 1
        if len(ctx.failures) > 120:   # enough concrete failing inputs from the disagreeing calls
            break
    for c in PINNED:
        ctx.case(("oracle", json.dumps(c, sort_keys=True)))
        _count_case(ctx, c)
        check_oracle(ctx, dict(c), "pinned")
    names = wavelets_for(ctx, rng) if budget < 8 else all_wavelets()
    for c in gen_oracle_cases(ctx, rng, names, budget):
        ctx.case(("oracle", json.dumps(c, sort_keys=True)))
        _count_case(ctx, c)
        check_oracle(ctx, c, "search")
        if len(ctx.failures) > 200:
            break
    t1 = time.time()
    for h in gen_history_cases(ctx, rng, names, budget):
        ctx.case(("oracle-history", json.dumps(h, sort_keys=True)))
        ctx.count("oracle:history")
        check_oracle(ctx, h, "history")
        if len(ctx.failures) > 200:
            break
    ctx.notes.append("oracle: largest observed residual relative to the norms, per storage class: %s (tolerance %g; single precision %g)"
                     % (", ".join("%s %.1e" % kv for kv in sorted(WORST.items())), RTOL_PROP, RTOL_SINGLE))
    common.log("  search: %.1fs (histories %.1fs)" % (time.time() - t0, time.time() - t1))


def replay(path):
    r = json.load(open(path))
    print(json.dumps(r, indent=1)[:3000])
    if r.get("kind") != "failing-input":
        return 0
    ctx = common.Ctx(PROPERTY, "quick", 0)
    ok = check_oracle(ctx, r["case"], "replay")
    for f in ctx.failures[:5]:
        print("  %s: %s observed=%s expected=%s" % (f["key"], f["what"], f["observed"], f["expected"]))
    print("replay:", "property holds on this input" if ok else "property FAILS on this input")
    return 0 if ok else 1
