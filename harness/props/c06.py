"""C06 — nufft approximates the non-uniform DFT to its stated accuracy; nufft_adjoint is its exact adjoint.

level: proof (partial): structure is proved about the translator-generated formulas — scalings, centre, periodicity;
`nufft_adjoint` = `nufft`^H for the concrete pipelines in 1, 2 and 3 transform dimensions with a leading (flattened) batch axis
of any length, every stage fact discharged from C05 / C09 / C07 and composed axis by axis (Props/C06Batch.lean); the weights
`_apodize` computes are proved real (`apodWeight_real`), and the (K, wt) parametrisation of the generated weights is proved to
cover separable real kernels such as Kaiser-Bessel in 2-D / 3-D (Props/C06Kernel.lean); the Toeplitz normal operator
(`toeplitz_psf`, `NUFFT._normal_linop`): A^H A of the exact NUDFT is Toeplitz and R^H F^H diag(p) F R reproduces any Toeplitz
operator exactly in 1, 2 and 3 dimensions by per-axis composition (sigpy's centred conventions, Props/C06ToeplitzNd.lean);
the exact NUDFT reference: period, shift / modulation covariance, and the ERROR IDENTITY of the generated pipelines
(`nufft1_eq_nudft_times_kernel`, `nufft1B_...`, `nufft2_...`, `nufft3B_eq_nudft_times_kernel`: every NUDFT term is multiplied
by apodisation x the product over the axes of the discrete-time Fourier sums of the kernel samples, kernel as a parameter;
`nufft1_row_error(_le)` / `row_error_phases`: the row error the oracle measures reduces to a kernel-only quantity;
`nufft1B_per_item` / `nufft3B_per_item`: a batched transform is the same linear map on every item), Props/C06Nudft*.lean.  The accuracy bound itself (a property of Kaiser-Bessel / Beatty's beta) and the accuracy of
the computed psf are analytic and only MEASURED by the search oracle.

Input classes (hardening round 3): every stream and the oracle draw the kernel width from the whole interval [3, 6] (integers,
halves / quarters, random sixteenths; handed over as Python int / float or numpy scalar) and oversamp from {1.25, 1.375, 1.5,
1.75, 2}; the oracle also runs the batched calls on Fortran-ordered / strided / reversed views, float32 and (on-grid) int64
coordinates, data of magnitude 1e+-30 / 1e+-100, real-dtype data (accuracy only), and interleaves a second live operator with
another (oversamp, width) on the same arrays (repeated calls reproduce their result, caller's arrays unchanged).
"""
import json
import math
import struct
from fractions import Fraction

import numpy as np

from harness import common
from harness.translate import gen as G

PROPERTY = "C06"
LEAN_MODULES = ["SigpyVerif.Props.C06", "SigpyVerif.Props.C06Nd", "SigpyVerif.Props.C06Toeplitz",
                "SigpyVerif.Props.C06Batch", "SigpyVerif.Props.C06ToeplitzNd", "SigpyVerif.Props.C06Nudft",
                "SigpyVerif.Props.C06Kernel", "SigpyVerif.Props.C06NudftBatch", "SigpyVerif.Props.C06Nudft2d",
                "SigpyVerif.Props.C06Nudft3d"]
THEOREMS = ["SigpyVerif.C06." + t for t in [
    "os_sites_agree", "oversampLen_ge", "scaleCoord_period", "nufft_periodic1", "nufft_periodic2", "nufft_periodic3",
    "nudft_periodic", "grid_centre_consistency", "crop_centre_consistency", "dc_lands_on_centre",
    "scale_consistency", "pipeline_checked", "pipeline_adjoint", "nufft_adjoint_is_adjoint",
    # the concrete 1-D pipeline: stage facts discharged from C05 / C09 / C07 (Lemmas/C06.lean + Props/C06.lean)
    "inner_toEuclideanLin", "resizeMat_transpose", "resizeMat_conjTranspose", "resizeMat_apply", "updLin_adjoint",
    "apod_selfadjoint", "resize_adjoint", "ufft_adjoint", "interp_adjoint", "oversampLen_pos",
    "nufft_adjoint_is_adjoint_1d", "nufft_adjoint_is_adjoint_1d_code",
    # two transform axes: the per-axis facts composed (Lemmas/C06Nd.lean + Props/C06Nd.lean)
    "zipWith_default_swap", "resizeMatNd_conjTranspose", "updLinG_adjoint", "apodG_selfadjoint", "resize2_adjoint",
    "ufft2_adjoint", "interp2_adjoint", "nufft_adjoint_is_adjoint_2d",
    # toeplitz_psf / NUFFT._normal_linop (Props/C06Toeplitz.lean)
    "toep_embed_len", "toep_coord_doubled", "toep_delta_on_centre", "toep_final_mul", "toeplitz_checked",
    "nudft_gram_toeplitz", "toep_psf_is_kernel", "circulant_diagonalised", "toeplitz_embedding_exact",
    "toeplitz_structure",
    # leading batch axes and three transform axes (Props/C06Batch.lean): adjointness composed axis by axis
    "adjScaled_one", "adjScaled_kron", "adjScaled_dft", "inner_of_adjScaled", "bx1_inj", "bx2_inj", "bx3_inj",
    "resize1B_adjoint", "ufft1B_adjoint", "interp1B_adjoint", "nufft_adjoint_is_adjoint_1d_batch",
    "resize2B_adjoint", "ufft2B_adjoint", "interp2B_adjoint", "nufft_adjoint_is_adjoint_2d_batch",
    "resize3B_adjoint", "ufft3B_adjoint", "interp3B_adjoint", "nufft_adjoint_is_adjoint_3d_batch",
    "nufft_adjoint_is_adjoint_3d", "nufft_adjoint_is_adjoint_3d_code",
    "interp1_batch_diagonal", "interp2_batch_diagonal", "interp3_batch_diagonal",
    # the weights `_apodize` computes are real (removes the "real weights" assumption for the code's formula)
    "csqrt_div_sinh_real", "apodWeight_real", "apodWeight_eq_re", "apodize3_is_real_diagonal",
    # N-d Toeplitz embedding by per-axis composition (Props/C06ToeplitzNd.lean)
    "circ_entry", "circDiag_axis", "circDiag_kron", "embed_entry", "lag_pad", "pad_axis_iff",
    "resizeMatNd_pad2", "resizeMatNd_crop2", "resizeMatNd_pad3", "resizeMatNd_crop3",
    "toeplitz_embedding_exact_2d", "toeplitz_embedding_exact_3d", "nudft_gram_toeplitz_2d", "nudft_gram_toeplitz_3d",
    "toeplitz_structure_2d", "toeplitz_structure_3d",
    # the exact NUDFT reference and the error identity of the generated 1-D pipeline (Props/C06Nudft.lean)
    "nudftTerm_shift", "nudftTerm_modulation", "nudftTerm_norm", "nudftOn_shift", "nudft_add", "nudft_smul",
    "nudft_periodic_coord", "nudft_modulation", "nudft_row_normSq", "wrapIdx_val", "interpLin_apply",
    "ufft_resize_apply", "root_wrap", "fftRoot_zpow", "kernelArgs_spec", "kernelSum_shift", "phase_split",
    "sum_list_comm", "list_sum_factor", "nufft1_eq_nudft_times_kernel", "nufft1_error_identity", "nufft1_error_le",
    "nufft1_row_error", "nufft1_row_error_le",
    # the (K, wt) parametrisation of the 2-D / 3-D weights covers separable REAL kernels such as Kaiser-Bessel (Props/C06Kernel.lean)
    "decQ_encode", "val235", "natAbs_num_natCast", "sep_encoding2", "sep_encoding3", "interp2_weights_separable",
    "interp3_weights_separable", "nufft_adjoint_is_adjoint_3d_batch_separable",
    # batched 1-D pipeline entry by entry: the same linear map on every batch item (Props/C06NudftBatch.lean)
    "interpLin1B_apply", "ufft_resize1B_apply", "nufft1B_eq_nudft_times_kernel", "nufft1B_per_item",
    # the error identity of the generated 2-D pipeline, separable weights (Props/C06Nudft2d.lean)
    "list_sum_flatMap", "list_sum_mul_sum", "list_sum2_factor", "interpLin2_apply", "resizeMatNd_padG2",
    "ufft_resize2_apply", "nufft2_eq_nudft_times_kernel", "nufft2_error_identity", "row_error_phases",
    # the batched 3-D pipeline entry by entry: error identity + the same map on every batch item (Props/C06Nudft3d.lean)
    "list_sum3_factor", "interpLin3B_apply", "resizeMatNd_padG3B", "ufft_resize3B_apply",
    "nufft3B_eq_nudft_times_kernel", "nufft3B_per_item",
]]

# Toeplitz normal operator (search oracle): A.N(x) against A.H(A(x)) for NUFFT(..., oversamp=2, width=w, toeplitz=True).
# Tolerance: the clean-tree maximum of the relative l2 deviation over 12000 cases of `gen_case` (1-3 D, all coordinate
# kinds, batched) was 2.6e-5 for w=7 and for w=8 (median 1.3e-6 / 2.6e-6; limited by the Kaiser-Bessel accuracy of that
# kernel and the complex64 psf); a psf built with a different kernel (e.g. the default oversamp=1.25 / width=4)
# deviates by 1.6e-3 (10 % quantile) .. 3e-3 (median).  3e-4 is > 11 x the clean maximum and > 5 x below that quantile.
# Fractional kernel widths 6.5 / 7.25 / 7.5 (the width is a float): clean-tree maxima over ~2900 cases of `gen_case` each
# 3.9e-5 / 2.5e-5 / 7.1e-6, so the same 3e-4 (>= 7.7 x the clean maximum) applies; a psf whose normalisation differs from the
# operator's (e.g. only one of the two transforms truncating a fractional width: (7.5/7)^ndim) deviates by >= 7e-2.
TOEPLITZ_TOL = {8: 3e-4, 7: 3e-4}
TOEPLITZ_WIDTHS = [7, 8, 8, 7.5, 7.25, 6.5]


def toeplitz_tol(tw):
    return TOEPLITZ_TOL.get(tw, 3e-4)


OVERSAMPS = [1.25, 1.5, 2]
WIDTHS = [3, 4, 5, 6]
# The property quantifies over oversamp in [1.25, 2] and width in [3, 6] (documented type of both: float), not over the
# integers / the three usual oversampling factors only: every stream also draws dyadic values in between (dyadic so that the
# Lean driver receives exactly the number the real code receives).
OVERSAMPS_X = [1.25, 1.375, 1.5, 1.75, 2]
FRAC_WIDTHS = [Fraction(7, 2), Fraction(9, 2), Fraction(11, 2), Fraction(13, 4), Fraction(15, 4), Fraction(17, 4), Fraction(19, 4),
               Fraction(21, 4), Fraction(23, 4), Fraction(49, 16), Fraction(95, 16)]


def pick_width(rng):
    """kernel width in [3, 6] as an exact (dyadic) Fraction: an integer, a half / quarter, or a random sixteenth"""
    u = rng.random()
    if u < 0.4:
        return Fraction(rng.choice(WIDTHS))
    if u < 0.75:
        return rng.choice(FRAC_WIDTHS)
    return Fraction(rng.randint(48, 96), 16)


def width_arg(w):
    """what is handed to sigpy for the width `w` (Fraction / number): a Python int when integral (the historical call), else a float"""
    w = Fraction(w)
    return int(w) if w.denominator == 1 else float(w)


def translate(ctx):
    G.regenerate(ctx, ["NufftFormulas", "Interp", "InterpKernels", "UtilFormulas", "Block", "LinopFormulas"])


def R(f):
    f = Fraction(f)
    return str(f.numerator) if f.denominator == 1 else "%d/%d" % (f.numerator, f.denominator)


def beta_of(width, oversamp):
    """Beatty et al. kernel parameter, evaluated independently of the code"""
    return math.pi * math.sqrt((width / oversamp * (oversamp - 0.5)) ** 2 - 0.8)


def bits_to_float(s):
    return struct.unpack("<d", struct.pack("<Q", int(s)))[0]


# ---- correspondence -----------------------------------------------------------------------------
def _formula_stream(ctx):
    from sigpy import fourier
    rng = ctx.rng
    quick = ctx.tier == "quick"
    oss = [1.25, 1.5, 2, 2.0, 1.3, 1.4, 1.75, 1.1, 1.6, 1.9, 1.0] + [rng.uniform(1.0, 2.0) for _ in range(6 if quick else 40)]
    Ns = list(range(1, 41 if quick else 130)) + [rng.randint(41, 4000) for _ in range(20 if quick else 200)]
    lines, meta = [], []
    ties = 0
    for os_ in oss:
        for N in Ns:
            # the code evaluates ceil(oversamp * N) on the float product: the model's rational oversamp is the
            # real number whose product with N is exactly that float (for dyadic oversamp this is oversamp itself)
            prod = Fraction(float(os_) * N)
            os_eff = prod / N
            if math.ceil(Fraction(float(os_)) * N) != math.ceil(prod):
                ties += 1
                ctx.count("formulas:float-product-crosses-integer")
            lines.append("C06 formulas os=%s n=%d" % (R(os_eff), N))
            meta.append((os_, N, os_eff))
    bad = 0
    replies = ctx.driver(lines)
    coord_lines, coord_meta = [], []
    for (os_, N, os_eff), ln, r in zip(meta, lines, replies):
        ctx.case(("formulas", ln), sample=dict(line=ln, reply=r) if ctx.evaluations % 211 == 0 else None)
        ctx.count("formulas:os=%s" % (os_ if os_ in (1.25, 1.5, 2, 2.0) else "other"))
        try:
            osN = fourier._get_oversamp_shape((3, N), 1, os_)
            osN2 = fourier._get_oversamp_shape([N, N], 2, os_)
            cs = [Fraction(k, 8) for k in (0, 4, -4 * N, 4 * N, 8 * N + 3, -16 * N - 1)]
            co = np.array([[float(c)] for c in cs])
            sc = fourier._scale_coord(co, (5, N), os_)[:, 0]
            impl = (list(osN), list(osN2))
        except Exception as e:  # noqa
            impl = "err %s" % type(e).__name__
        ok = False
        if r.startswith("ok ") and not isinstance(impl, str):
            m_os, m_apod_os, m_scale, m_shift, m_centre = r[3:].split()
            ok = impl == ([3, int(m_os)], [int(m_os), int(m_os)]) and int(m_apod_os) == int(m_os)
            if ok:
                want = [c * Fraction(m_scale) + Fraction(m_shift) for c in cs]
                ok = all(abs(float(w) - float(g)) <= 1e-12 * (1 + abs(float(w))) for w, g in zip(want, sc))
                if ok:  # _scale_coord must not modify its argument
                    ok = bool(np.array_equal(co[:, 0], [float(c) for c in cs]))
        if not ok:
            bad += 1
            ctx.disagree("formulas", dict(os=os_, N=N), impl if isinstance(impl, str) else (impl, [float(v) for v in sc]), r)
    ctx.notes.append("formulas: %d (oversamp, N) pairs where ceil of the float product differs from ceil of the exact product "
                     "(handled exactly: the model is evaluated at the effective rational oversamp = fl(os*N)/N)" % ties)
    return bad


def _apod_stream(ctx):
    """`_apodize` against the formula a/sinh(a), a = sqrt(beta^2 - (pi w (idx - centre)/osN)^2), with the MODEL's centre and osN"""
    from sigpy import fourier
    rng = ctx.rng
    lines, meta = [], []
    for _ in range(40 if ctx.tier == "quick" else 300):
        nd = rng.choice([1, 2, 3])
        shape = [rng.randint(1, 9) for _ in range(nd)]
        os_ = rng.choice(OVERSAMPS_X)
        w = width_arg(pick_width(rng))
        for N in shape:
            lines.append("C06 formulas os=%s n=%d" % (R(os_), N))
        meta.append((shape, os_, w))
    replies = ctx.driver(lines)
    k = 0
    bad = 0
    for shape, os_, w in meta:
        rs = replies[k:k + len(shape)]
        k += len(shape)
        ctx.case(("apod", tuple(shape), os_, w))
        ctx.count("apod:ndim%d" % len(shape))
        ctx.count("apod:width-%s" % ("integer" if isinstance(w, int) else "fractional"))
        beta = beta_of(w, os_)
        try:
            x = np.ones([2] + shape, dtype=np.complex128)
            got = fourier._apodize(x, len(shape), os_, w, beta)
            want = np.ones([2] + shape, dtype=np.complex128)
            for ax, (N, r) in enumerate(zip(shape, rs)):
                m_os, _, _, _, m_centre = r[3:].split()
                idx = np.arange(N, dtype=np.complex128)
                a = (beta ** 2 - (math.pi * w * (idx - int(m_centre)) / int(m_os)) ** 2) ** 0.5
                v = a / np.sinh(a)
                want = want * v.reshape([N] + [1] * (len(shape) - ax - 1))
            ok = got.shape == want.shape and bool(np.all(np.abs(got - want) <= 1e-12 * np.abs(want))) \
                and bool(np.all(np.abs(got.imag) <= 1e-12 * np.abs(got.real)))
        except Exception as e:  # noqa
            ok, got = False, "err %s" % type(e).__name__
        if not ok:
            bad += 1
            ctx.disagree("apodize", dict(apod_shape=shape, os=os_, width=w), str(got)[:300], "a/sinh(a) centred at N//2")
    return bad


class _Patch:
    def __init__(self, obj, name, new):
        self.obj, self.name, self.new = obj, name, new

    def __enter__(self):
        self.old = getattr(self.obj, self.name)
        setattr(self.obj, self.name, self.new)

    def __exit__(self, *a):
        setattr(self.obj, self.name, self.old)


def _reified_stream(ctx):
    """run the real nufft / nufft_adjoint with recording wrappers around interp.interpolate / interp.gridding and with
    `_apodize` switched off, and compare what the pipeline hands over with the model's constants"""
    import sigpy as sp
    from sigpy import fourier, interp
    rng = ctx.rng
    bad = 0
    cases = []
    for _ in range(30 if ctx.tier == "quick" else 250):
        nd = rng.choice([1, 2, 3])
        shape = [rng.randint(1, [0, 20, 8, 5][nd]) for _ in range(nd)]
        cases.append((shape, rng.choice(OVERSAMPS_X), width_arg(pick_width(rng)), rng.choice([[], [2]])))
    lines = []
    for shape, os_, w, batch in cases:
        lines.append("C06 consts os=%s shape=%s width=%s" % (R(os_), ",".join(map(str, shape)), R(w)))
        for N in shape:
            lines.append("C06 scalecoord os=%s n=%d c=%s" % (R(os_), N, ",".join(R(Fraction(k, 8)) for k in (0, 3, -5, 8 * N + 1))))
    replies = ctx.driver(lines)
    k = 0
    for shape, os_, w, batch in cases:
        nd = len(shape)
        r = replies[k]
        rc = replies[k + 1:k + 1 + nd]
        k += 1 + nd
        ctx.case(("reified", tuple(shape), os_, w, tuple(batch)), sample=dict(line=lines[k - 1 - nd], reply=r) if ctx.evaluations % 17 == 0 else None)
        ctx.count("reified:ndim%d" % nd)
        ctx.count("reified:os=%s" % os_)
        ctx.count("reified:width-%s" % ("integer" if isinstance(w, int) else "fractional"))
        why = None
        try:
            if not r.startswith("ok "):
                raise ValueError("model " + r)
            parts = r[3:].split()
            m_os = [int(v) for v in parts[0].split(",")]
            f_div, f_wdiv, a_wdiv, a_mul = [bits_to_float(v) for v in parts[1:5]]
            m_sc = np.array([[float(Fraction(v)) for v in q[3:].split(",")] for q in rc]).T  # (4 points, nd)
            coord = np.array([[k8 / 8.0 for _ in range(nd)] for k8 in (0, 3, -5)] + [[(8 * N + 1) / 8.0 for N in shape]])
            rec = {}
            real_interp, real_grid = interp.interpolate, interp.gridding

            def rec_interp(input, coord, kernel="spline", width=2, param=1):
                rec.update(ishape=list(input.shape), coord=coord.copy(), kernel=kernel, width=width, param=param, data=input.copy())
                return real_interp(input, coord, kernel=kernel, width=width, param=param)

            def rec_grid(input, coord, shape, kernel="spline", width=2, param=1):
                rec.update(gshape=list(shape), gcoord=coord.copy(), gkernel=kernel, gwidth=width, gparam=param)
                out = np.zeros(shape, dtype=input.dtype)
                centre = tuple(int(v) // 2 for v in shape[-nd:])
                out[(Ellipsis,) + centre] = 1
                return out

            # forward: delta at the image centre, apodisation off -> the array handed to interpolate must be the
            # constant 1/sqrt(prod N) on the whole oversampled grid (scale + zero-pad centre + FFT centre)
            x = np.zeros(batch + shape, dtype=np.complex128)
            x[(Ellipsis,) + tuple(N // 2 for N in shape)] = 1
            with _Patch(fourier.interp, "interpolate", rec_interp), _Patch(fourier, "_apodize", lambda o, *a: o):
                y = sp.nufft(x, coord, oversamp=os_, width=w)
            beta = beta_of(w, os_)
            if rec.get("ishape") != batch + m_os:
                why = "os_shape %s vs model %s" % (rec.get("ishape"), batch + m_os)
            elif rec["kernel"] != "kaiser_bessel" or rec["width"] != w or abs(rec["param"] - beta) > 1e-12 * beta:
                why = "interpolate called with kernel=%s width=%s param=%s (beta=%s)" % (rec["kernel"], rec["width"], rec["param"], beta)
            elif not np.all(np.abs(rec["coord"] - m_sc) <= 1e-12 * (1 + np.abs(m_sc))):
                why = "scaled coords %s vs model %s" % (rec["coord"].tolist(), m_sc.tolist())
            elif not np.all(np.abs(rec["data"] - 1.0 / f_div) <= 1e-12):
                why = "FFT of the padded centre delta is not the constant 1/nufftFwdDiv = %r: %s" % (1.0 / f_div, rec["data"].ravel()[:4])
            else:
                with _Patch(fourier.interp, "interpolate", lambda input, coord, **kw: np.ones(list(input.shape[:-nd]) + list(coord.shape[:-1]), dtype=input.dtype)):
                    y1 = sp.nufft(x, coord, oversamp=os_, width=w)
                if not np.all(np.abs(y1 - 1.0 / f_wdiv) <= 1e-12):
                    why = "forward division after interpolation is not width**ndim"
            if why is None:
                yin = np.ones(batch + [4], dtype=np.complex128)
                with _Patch(fourier.interp, "gridding", rec_grid), _Patch(fourier, "_apodize", lambda o, *a: o):
                    z = sp.nufft_adjoint(yin, coord, oshape=batch + shape, oversamp=os_, width=w)
                want = a_mul / (a_wdiv * float(np.prod(m_os)))
                if rec.get("gshape") != batch + m_os:
                    why = "adjoint os_shape %s vs model %s" % (rec.get("gshape"), batch + m_os)
                elif rec["gkernel"] != "kaiser_bessel" or rec["gwidth"] != w or abs(rec["gparam"] - beta) > 1e-12 * beta:
                    why = "gridding called with kernel=%s width=%s param=%s" % (rec["gkernel"], rec["gwidth"], rec["gparam"])
                elif not np.all(np.abs(rec["gcoord"] - m_sc) <= 1e-12 * (1 + np.abs(m_sc))):
                    why = "adjoint scaled coords differ from the model"
                elif list(z.shape) != batch + shape or not np.all(np.abs(z - want) <= 1e-12 * abs(want)):
                    why = "IFFT+crop+scale of the centre delta is not the constant nufftAdjMul/(width^ndim * prod osN) = %r: %s" % (want, z.ravel()[:4])
        except Exception as e:  # noqa
            why = "exception %r" % (e,)
        if why:
            bad += 1
            ctx.disagree("reified", dict(reified_shape=shape, os=os_, width=w, batch=batch), why, r)
    return bad


def _kb_kernel():
    from sigpy import interp
    f = interp._kaiser_bessel_kernel
    return getattr(f, "py_func", f)


def _identity_stream(ctx):
    """End-to-end tie of the pipeline model of the theorems `nufft1_eq_nudft_times_kernel` / `nufft_adjoint_is_adjoint_*`:
    the matrix of the REAL `sp.nufft` (and of `sp.nufft_adjoint`) against the theorem's right-hand side
        A[j, n] = prod_d N_d^-1/2 exp(-2 pi i k_jd nu_d / N_d) * a_d(nu_d) * S_d(kappa_jd, nu_d),   nu_d = n_d - N_d//2,
        S_d = (1/W) sum_i K(arg_i) exp(-2 pi i (i - kappa) nu_d / L_d)
    where L_d, kappa_jd, the wrapped grid indices and the kernel arguments arg_i come from the DRIVER (the generated
    `Gen.oversampLen` / `Gen.scaleCoord` / `Gen.interp1`, Model/C06.lean `kernelArgs`, = `kernelSum` by `kernelArgs_spec`),
    the kernel values K(arg) are sigpy's own `_kaiser_bessel_kernel` (its accuracy is C07's business) and a_d is the
    apodisation formula with the model's centre / length.  1-D is the theorem; 2-D / 3-D use the product form."""
    from sigpy import fourier
    rng = ctx.rng
    kb = _kb_kernel()
    bad = 0
    worst = 0.0
    cases = []
    for _ in range(16 if ctx.tier == "quick" else 120):
        nd = rng.choice([1, 1, 2, 3])
        shape = [rng.randint(1, [0, 12, 6, 4][nd]) for _ in range(nd)]
        npts = rng.choice([1, 2, 4])
        kind = rng.choice(["random", "on-grid", "half-integer", "out-of-range"])
        coord = []
        for _j in range(npts):
            row = []
            for N in shape:
                if kind == "random":
                    v = Fraction(rng.randint(-8 * N, 8 * N), 16)
                elif kind == "on-grid":
                    v = Fraction(rng.randint(-(N // 2), N - N // 2 - 1))
                elif kind == "half-integer":
                    v = Fraction(2 * rng.randint(-(N // 2), N - N // 2 - 1) + 1, 2)
                else:
                    v = Fraction(rng.randint(-8 * N, 8 * N), 16) + rng.choice([-3, -1, 1, 2, 17]) * N
                row.append(v)
            coord.append(row)
        cases.append((shape, rng.choice(OVERSAMPS_X), pick_width(rng), coord, kind))
    lines = []
    for shape, os_, w, coord, kind in cases:
        for row in coord:
            for N, v in zip(shape, row):
                lines.append("C06 kernelsum os=%s n=%d c=%s width=%s" % (R(os_), N, R(v), R(w)))
    replies = ctx.driver(lines)
    k = 0
    for shape, os_, wq, coord, kind in cases:
        # wq: the exact width (Fraction, what the driver was given); w: the number handed to sigpy (int or float, == wq)
        w = width_arg(wq)
        nd, npts = len(shape), len(coord)
        rs = replies[k:k + nd * npts]
        ln0 = lines[k]
        k += nd * npts
        ctx.case(("identity", tuple(shape), os_, w, kind, tuple(tuple(r) for r in coord)),
                 sample=dict(line=ln0, reply=rs[0]) if ctx.evaluations % 7 == 0 else None)
        ctx.count("identity:ndim%d" % nd)
        ctx.count("identity:%s" % kind)
        ctx.count("identity:width-%s" % ("integer" if isinstance(w, int) else "fractional"))
        beta = beta_of(w, os_)
        why = None
        tie = False
        try:
            model = np.ones((npts,) + tuple(shape), dtype=np.complex128)
            for j, row in enumerate(coord):
                for d, (N, v) in enumerate(zip(shape, row)):
                    r = rs[j * nd + d]
                    if not r.startswith("ok "):
                        raise ValueError("model " + r)
                    pL, pk, psrc, parg = r[3:].split()
                    L, kappa = int(pL), Fraction(pk)
                    srcs = [] if psrc == "-" else [int(t) for t in psrc.split(",")]
                    args = [] if parg == "-" else [Fraction(t) for t in parg.split(",")]
                    # the real code evaluates the window on ITS float scaled coordinate (`_scale_coord` of the tree under
                    # test): when that differs from the model's exact kappa by rounding only and the rounding moves a window
                    # edge across an integer, the input is outside what exact arithmetic decides (see `_edge_flip`);
                    # a scaled coordinate that differs by more than rounding is a disagreement
                    kf = float(fourier._scale_coord(np.array([[float(t) for t in row]]), shape, os_)[0, d])
                    if abs(kf - float(kappa)) > 1e-9 * (1 + abs(float(kappa))):
                        raise ValueError("_scale_coord gives %r, model kappa %s (axis %d, coordinate %s)" % (kf, kappa, d, v))
                    if (math.ceil(kf - w / 2), math.floor(kf + w / 2)) != (math.ceil(kappa - wq / 2), math.floor(kappa + wq / 2)):
                        tie = True
                    idx = [a * (wq / 2) + kappa for a in args]
                    if any(i.denominator != 1 for i in idx) or [int(i) % L for i in idx] != srcs:
                        raise ValueError("driver window indices / wrap inconsistent: %s vs %s" % (idx, srcs))
                    nu = np.arange(N) - N // 2
                    S = np.zeros(N, dtype=np.complex128)
                    for a in args:
                        S += float(kb(float(a), beta) or 0.0) * np.exp(-2j * np.pi * float(a * (wq / 2)) * nu / L)
                    S /= float(wq)
                    aa = (beta ** 2 - (math.pi * w * nu.astype(np.complex128) / L) ** 2) ** 0.5
                    apod = (aa / np.sinh(aa)).real
                    fac = N ** -0.5 * np.exp(-2j * np.pi * float(v) * nu / N) * apod * S
                    model[j] = model[j] * fac.reshape([N if e == d else 1 for e in range(nd)])
            if tie:
                ctx.count("identity:skipped-window-edge-tie")
                continue
            c = dict(shape=shape, pts=[npts], os=os_, width=w)
            co = np.array([[float(v) for v in row] for row in coord], dtype=np.float64).reshape(npts, nd)
            A, AH = impl_matrices(c, coord=co)
            Mm = model.reshape(npts, -1)
            nM = np.linalg.norm(Mm)
            if A.shape == Mm.shape and AH.shape == Mm.T.shape:
                worst = max(worst, float(np.linalg.norm(A - Mm) / nM), float(np.linalg.norm(AH - Mm.conj().T) / nM))
            if A.shape != Mm.shape or not np.linalg.norm(A - Mm) <= 1e-9 * nM:
                why = "nufft matrix differs from NUDFT x (apodisation x kernel sum): rel %.3g" % (np.linalg.norm(A - Mm) / nM)
            elif AH.shape != Mm.T.shape or not np.linalg.norm(AH - Mm.conj().T) <= 1e-9 * nM:
                why = "nufft_adjoint matrix differs from the conjugate transpose of the model matrix: rel %.3g" % (
                    np.linalg.norm(AH - Mm.conj().T) / nM)
        except Exception as e:  # noqa
            why = "exception %r" % (e,)
        if why:
            bad += 1
            ctx.disagree("identity", dict(reified_shape=shape, os=os_, width=w, batch=[],
                                          coord=[[str(v) for v in row] for row in coord]), why, rs[0][:200])
    ctx.notes.append("identity: worst relative deviation of the real nufft / nufft_adjoint matrices from the model matrix "
                     "(NUDFT x apodisation x kernel sum): %.3g (tolerance 1e-9)" % worst)
    return bad


def correspond(ctx):
    ctx.rule = ("formulas: (oversamp, N) pairs, oversamp in {1.25,1.5,2} + non-dyadic + random floats, N = 1..40(130) + random to 4000, "
                "against the real _get_oversamp_shape/_scale_coord; apodize: random shapes 1-3 D x oversamp x width against the "
                "formula with the model's centre and length; reified: real nufft/nufft_adjoint runs with recording wrappers "
                "(os_shape, scaled coords, kernel/width/beta handed over, scalings via centre deltas); identity: random shapes 1-3 D "
                "x oversamp x width x 1-4 points (random sixteenths, on-grid, half-integer, out-of-range): the matrices of the real "
                "nufft / nufft_adjoint against NUDFT x apodisation x kernel sum built from the driver's window data. "
                "apodize / reified / identity draw oversamp from {1.25,1.375,1.5,1.75,2} and the width from [3,6]: integers (40 %), "
                "halves / quarters, random sixteenths (the width is a float; dyadic so that model and code get the same number). "
                "distinct by all parameters")
    bad = _formula_stream(ctx)
    ctx.oblige("correspondence:C06.formulas", "correspondence", bad == 0, "%d disagreements" % bad)
    bad = _apod_stream(ctx)
    ctx.oblige("correspondence:C06.apodize", "correspondence", bad == 0, "%d disagreements" % bad)
    bad = _reified_stream(ctx)
    ctx.oblige("correspondence:C06.reified", "correspondence", bad == 0, "%d disagreements" % bad)
    bad = _identity_stream(ctx)
    ctx.oblige("correspondence:C06.identity", "correspondence", bad == 0, "%d disagreements" % bad)
    ctx.traces = ctx.evaluations
    ctx.notes.append("level: proof, PARTIAL — scalings, centre, periodicity are theorems about the generated formulas; adjointness is proved "
                     "for the concrete pipelines in 1 / 2 / 3 transform dimensions with a leading batch axis of any length, built from C05's DFT "
                     "matrices (1_B (x) U_L1 (x) .. (x) U_Ld, adjointness composed axis by axis), C09's N-d resize relation on the full shapes and "
                     "C07's generated update lists Gen.interp1/2/3, Gen.grid1/2/3 with batch_size = B (nufft_adjoint_is_adjoint_{1,2,3}d_batch, "
                     "_3d, _3d_code: no stage hypothesis left); apodWeight_real: the weights of the _apodize formula are real; "
                     "interp{2,3}_weights_separable: the (K, wt) parametrisation covers separable real kernels (Kaiser-Bessel) in 2-D / 3-D; "
                     "toeplitz_psf / NUFFT._normal_linop: call structure extracted by the translator, embedding formulas proved, A^H A Toeplitz and "
                     "the circulant embedding exact in 1, 2 and 3 dimensions by per-axis composition (toeplitz_embedding_exact(_2d/_3d), "
                     "circDiag_kron).  Exact NUDFT: nudft_periodic_coord, nudftOn_shift, nudft_modulation; error identity of the generated 1-D "
                     "pipeline with the kernel as a parameter (nufft1_eq_nudft_times_kernel, nufft1_error_identity, kernelSum_shift, "
                     "nufft1_row_error, nufft1_row_error_le): the measured relative row error IS sqrt(mean_n |a_n S(kappa, n - N//2) - 1|^2); the same identity "
                     "for the batched 1-D, the 2-D and the batched 3-D generated pipelines with the product of the per-axis kernel sums "
                     "(nufft1B_/nufft2_/nufft3B_eq_nudft_times_kernel, separable weights: hypothesis hsep, satisfiable for any real kernels by "
                     "sep_encoding2/3) and nufft1B_per_item / nufft3B_per_item (a batched transform acts as the same map on every item), "
                     "so the stated accuracy reduces to a bound on Kaiser-Bessel alone.  That bound (3 % / 0.3 %) is measured by the search oracle "
                     "(per-coordinate row error of the implementation matrix against the exact NUDFT), not proved; likewise the accuracy of the "
                     "COMPUTED psf (Kaiser-Bessel nufft of a unit sample, complex64): oracle only (A.N(x) vs A.H(A(x)) at oversamp=2, width 7/8, 3e-4)")
    ctx.assumptions += [
        "the accuracy bound (3 % / 0.3 %) is analytic and NOT proved: it is measured against the exact NUDFT by the search oracle; what is "
        "proved is its reduction to the kernel-only quantity |a_n prod_d S_d(kappa_d, nu_d) - 1| (generated 1-D, batched 1-D, 2-D and batched 3-D "
        "pipelines); the Poisson-summation (sum over aliases) form of S and the bound on S for Kaiser-Bessel are not proved",
        "nufft_adjoint_is_adjoint_* assume only: real apodisation weights (proved for the _apodize formula: apodWeight_real; that _apodize IS that "
        "formula is checked syntactically by the translator and numerically by the apodize stream) and interpolation weights that are a real "
        "function of the generated rational weight (covers Kaiser-Bessel: interp{2,3}_weights_separable); the FFT / resize / gridding stage "
        "facts are imported theorems of C05 / C09 / C07 (their own models are tied to numpy / the source by those properties' checks); "
        "leading batch axes are modelled as ONE flattened axis of length B = prod(batch) (what interpolate / gridding do: C07 "
        "ravel_batch_flatten; per-item action proved for the flattened axis in 1-D and 3-D: nufft1B_per_item, nufft3B_per_item); that resize / fft / "
        "_apodize act per item on an UNflattened batch shape is oracle-only (C06:batch)",
        "toeplitz_embedding_exact(_2d/_3d) / toeplitz_structure(_2d/_3d) are about the EXACT kernel t and one batch item; that the psf computed by "
        "toeplitz_psf (approximate nufft / nufft_adjoint of a unit sample, complex64) is close to t is oracle-only (C06:toeplitz.normal)",
        "float evaluation of ceil(oversamp*N): the model is evaluated at the effective rational oversamp fl(os*N)/N (identical for dyadic oversamp); "
        "identity stream: the kernel VALUES are sigpy's own _kaiser_bessel_kernel (accuracy: C07), inputs where float rounding of the scaled "
        "coordinate moves a window edge across an integer are skipped and counted",
    ]


# ---- search: exact NUDFT vs the real code -----------------------------------------------------------
# Accuracy thresholds.  The statement names two numbers: relative l2 error below 3 % at the defaults (oversamp 1.25, width 4)
# and below 0.3 % at oversamp = 2 (width 4), "set by the oversampling and kernel width".  They are applied
#   * at exactly those settings (keys C06:accuracy.default / C06:accuracy.os2, unchanged), and
#   * at every setting of the quantified domain that is at least as fine in BOTH parameters (oversamp >= 1.25 and width >= 4:
#     3 %; oversamp >= 2 and width >= 4: 0.3 %; key C06:accuracy.finer): a Kaiser-Bessel kernel with Beatty's beta that is no
#     narrower on a grid that is no coarser is at least as accurate.  Clean-tree maxima (gen_case, 120-400 cases per setting):
#     (1.25, 4) 1.9e-2 [DESIGN: 2.2e-2 worst found], (1.25, 4.0625) 1.5e-2, (1.25, 4.5) 8.8e-3, (1.25, 5.5) 1.7e-3, (1.375, 4) 9.0e-3,
#     (1.5, 4) 6.4e-3, (1.75, 4) 2.3e-3, (2, 4) 1.5e-3 [DESIGN: 2.4e-3], (2, 4.0625) 1.4e-3, (2, 4.5) 3.9e-4, (2, 5.5) 3.6e-5:
#     monotone in both parameters, also for fractional widths.
#   * For widths in [3, 4) the statement gives no number.  NARROW_BOUND is 2 x the clean-tree maximum at the narrowest kernel of
#     the domain, width 3 (2500 cases of gen_case per oversamp: 1.02e-1 at 1.25 [shape 2x2x2], 3.4e-2 at 1.5, 1.5e-2 at 2;
#     width 3.03125: 8.7e-2 / 3.4e-2 / 1.5e-2), applied to every width in [3, 4) at an oversamp at least that large
#     (key C06:accuracy.narrow): it only separates the kernel's own error from a wrong normalisation / kernel parameter.
NARROW_BOUND = [(2, 0.03), (1.5, 0.07), (1.25, 0.2)]


def accuracy_bound(os_, w):
    """(threshold, key suffix) for the per-coordinate relative l2 error at this setting, None outside the quantified domain"""
    if os_ == "default" or w == "default":
        return 0.03, "default"
    os_, w = float(os_), float(w)
    if not (1.25 <= os_ <= 2 and 3 <= w <= 6):
        return None
    if w >= 4:
        if os_ >= 2:
            return 0.003, ("os2" if w == 4 else "finer")
        return 0.03, ("default" if (os_, w) == (1.25, 4.0) else "finer")
    for o, b in NARROW_BOUND:
        if os_ >= o:
            return b, "narrow"
    return None


LAYOUTS = ["C", "C", "F", "strided", "reversed"]
WTYPES_FRAC = ["py", "py", "np.float64", "np.float32"]
WTYPES_INT = ["py", "py", "py", "float", "np.int64", "np.float64"]


def gen_case(rng, os_w=None, shape=None):
    nd = rng.choice([1, 1, 2, 2, 3])
    hi = [0, 24, 8, 5][nd]
    if shape is not None:
        shape = list(shape)
    else:
        shape = [rng.randint(1, hi) for _ in range(nd)]
        if rng.random() < 0.3:
            shape = [s | 1 for s in shape]  # odd
        elif rng.random() < 0.3:
            shape = [max(2, s & ~1) for s in shape]  # even
    pts = rng.choice([[1], [3], [6], [10], [2, 3], [12]])
    npts = int(np.prod(pts))
    kind = rng.choice(["random", "on-grid", "half-integer", "clustered", "out-of-range"])
    co = []
    centre = [rng.uniform(-0.5, 0.5) * N for N in shape]
    for j in range(npts):
        row = []
        for d, N in enumerate(shape):
            if kind == "random":
                v = rng.uniform(-0.5, 0.5) * N
            elif kind == "on-grid":
                v = float(rng.randint(-(N // 2), N - N // 2 - 1))
            elif kind == "half-integer":
                v = rng.randint(-(N // 2), N - N // 2 - 1) + 0.5
            elif kind == "clustered":
                v = centre[d] + rng.gauss(0, 0.03)
            else:
                v = rng.uniform(-0.5, 0.5) * N + rng.choice([-3, -1, 1, 2, 17]) * N
            row.append(v)
        co.append(row)

    def any_os_w():
        if rng.random() < 0.45:
            return rng.choice([(1.25, 4), (1.25, 4), (2, 4), (2, 4), ("default", "default")] +
                              [(o, w) for o in OVERSAMPS for w in WIDTHS])
        return rng.choice(OVERSAMPS_X), width_arg(pick_width(rng))

    if os_w is None:
        os_w = any_os_w()
    alt = any_os_w()
    if alt[0] == "default":
        alt = (1.25, 4)
    batch = rng.choice([[], [], [2], [1, 2]])
    # how the width is handed over: a Python int / float or a numpy scalar (the documented type is float)
    frac = os_w[1] != "default" and Fraction(os_w[1]).denominator != 1
    wtype = "py" if os_w[1] == "default" else rng.choice(WTYPES_FRAC if frac else WTYPES_INT)
    # memory layout of the data / coordinate arrays handed to the batched calls (values unchanged); float32 coordinates
    # (values rounded to float32 here, so that the reference uses exactly the numbers the code receives) only where |k| <= N/2 + 1
    # and integer-dtype coordinates (int64) where every coordinate is integer valued (on-grid sampling patterns)
    clayout = rng.choice(LAYOUTS + (["f32", "f32"] if kind != "out-of-range" else []) + (["i64", "i64"] if kind == "on-grid" else []))
    if clayout == "f32":
        co = [[float(np.float32(v)) for v in row] for row in co]
    c64 = rng.random() < 0.25
    return dict(shape=shape, pts=pts, kind=kind, coord=co, os=os_w[0], width=os_w[1], batch=batch,
                c64=c64, adtype=rng.choice(["complex64", "complex64", "float64", "float32"]) if c64 else "complex128",
                seed=rng.randint(0, 10 ** 9),
                shift=[rng.choice([-2, -1, 1, 3]) for _ in shape], toep_width=rng.choice(TOEPLITZ_WIDTHS),
                wtype=wtype, xlayout=rng.choice(LAYOUTS), clayout=clayout,
                mag=rng.choice([1.0, 1.0, 1.0, 1e-30, 1e30, 1e-100, 1e100]), alt=list(alt))


def nudft_matrix(shape, coord):
    """A[j, n] = prod(N)^(-1/2) exp(-2 pi i sum_d k_jd (n_d - N_d//2)/N_d), written from the statement"""
    nd = len(shape)
    grids = np.meshgrid(*[np.arange(N) - N // 2 for N in shape], indexing="ij")
    ph = np.zeros((coord.shape[0],) + tuple(shape))
    for d in range(nd):
        ph = ph + coord[:, d].reshape((-1,) + (1,) * nd) * grids[d][None] / shape[d]
    return np.exp(-2j * np.pi * ph).reshape(coord.shape[0], -1) / math.sqrt(float(np.prod(shape)))


_WTYPE = {"py": lambda w: w, "float": float, "np.float64": np.float64, "np.float32": np.float32, "np.int64": np.int64}


def kw_of(c):
    if c["os"] == "default":
        return {}
    return dict(oversamp=c["os"], width=_WTYPE[c.get("wtype", "py")](c["width"]))


def lay(a, kind):
    """the same values in another memory layout: Fortran order, a strided view of a larger buffer, a reversed (negative
    strides) view; 'f32' (coordinates only): float32 (the values are float32-representable by construction); 'i64'
    (on-grid coordinates only): int64 (the values are integers by construction)"""
    if kind == "F":
        return np.asfortranarray(a)
    if kind == "strided" and a.ndim:
        big = np.zeros([2 * n + 1 for n in a.shape], dtype=a.dtype)
        view = big[tuple(slice(1, None, 2) for _ in a.shape)]
        view[...] = a
        return view
    if kind == "reversed" and a.ndim:
        rev = tuple(slice(None, None, -1) for _ in a.shape)
        return np.ascontiguousarray(a[rev])[rev]
    if kind == "f32":
        return a.astype(np.float32)
    if kind == "i64":
        return a.astype(np.int64)
    return a


def impl_matrices(c, coord=None, dtype=np.complex128, adjoint=True):
    import sigpy as sp
    shape, pts = c["shape"], c["pts"]
    N, M = int(np.prod(shape)), int(np.prod(pts))
    coord = np.array(c["coord"], dtype=np.float64).reshape(pts + [len(shape)]) if coord is None else coord
    A = np.asarray(sp.nufft(np.eye(N, dtype=dtype).reshape([N] + shape), coord, **kw_of(c))).reshape(N, M).T
    AH = None
    if adjoint:
        AH = np.asarray(sp.nufft_adjoint(np.eye(M, dtype=dtype).reshape([M] + pts), coord, oshape=[M] + shape, **kw_of(c))).reshape(M, N).T
    return A, AH


def _edge_flip(c, coord, shifted):
    """True when float rounding of the scaled coordinates makes the interpolation windows of `coord` and of
    `coord + m*N` differ (modulo the period): only possible at window-edge ties."""
    os_ = 1.25 if c["os"] == "default" else c["os"]
    w = 4 if c["width"] == "default" else c["width"]
    for d, (N, m) in enumerate(zip(c["shape"], c["shift"])):
        osN = math.ceil(os_ * N)
        scale, shift = osN / N, osN // 2
        a = coord[..., d] * scale + shift
        b = shifted[..., d] * scale + shift
        if not (np.array_equal(np.ceil(a - w / 2) + m * osN, np.ceil(b - w / 2))
                and np.array_equal(np.floor(a + w / 2) + m * osN, np.floor(b + w / 2))):
            return True
    return False


def check_case(ctx, c, origin):
    import sigpy as sp
    from sigpy import linop
    shape, pts, batch = c["shape"], c["pts"], c["batch"]
    nd = len(shape)
    coord = np.array(c["coord"], dtype=np.float64).reshape(pts + [nd])
    flat = coord.reshape(-1, nd)
    tag = "os=%s,width=%s" % (c["os"], c["width"])
    ok = True

    def fail(key, what, observed, expected):
        nonlocal ok
        ok = False
        ctx.fail(key, what, c, observed=observed, expected=expected, origin=origin)

    # the data dtype of the accuracy-only branch: complex64, or REAL data (float64 / float32: a real image is a complex input
    # with zero imaginary part; sigpy transforms it in single precision, which is far below the thresholds)
    adtype = np.dtype(c.get("adtype", "complex64" if c["c64"] else "complex128"))
    try:
        A, AH = impl_matrices(c, dtype=adtype, adjoint=not c["c64"])
    except Exception as e:  # noqa
        fail("C06:raises", "nufft / nufft_adjoint raised %s on a valid request" % type(e).__name__, repr(e), "result")
        return False
    E = nudft_matrix(shape, flat)
    # 1. accuracy; per coordinate: ||row(nufft) - row(NUDFT)||_2 / ||row(NUDFT)||_2 (thresholds: see `accuracy_bound`)
    bound = accuracy_bound(c["os"], c["width"])
    if bound is not None:
        thr, suffix = bound
        rel = np.linalg.norm(A - E, axis=1) / np.linalg.norm(E, axis=1)
        if not np.all(rel < thr):
            j = int(np.argmax(rel))
            fail("C06:accuracy.%s" % suffix,
                 "relative l2 error of nufft against the exact NUDFT exceeds %g (%s)" % (thr, tag),
                 dict(point=j, coord=flat[j].tolist(), rel_err=float(rel[j])), "< %g" % thr)
    if c["c64"]:
        return ok
    nA = np.linalg.norm(A)
    # 2. exact adjoint with the same scaling (dot test in matrix form), every oversamp x width
    if AH.shape != A.T.shape or not np.linalg.norm(AH - A.conj().T) <= 1e-6 * nA:
        fail("C06:adjoint", "nufft_adjoint is not the adjoint of nufft (%s)" % tag,
             dict(rel=float(np.linalg.norm(AH - A.conj().T) / nA), ratio=float(np.linalg.norm(AH) / nA)), "<= 1e-6 relative")
    # 3. periodicity: coord + m*N gives the same transform
    sh = coord + np.array([m * N for m, N in zip(c["shift"], shape)], dtype=np.float64)
    try:
        A2, _ = impl_matrices(c, coord=sh, adjoint=False)
        if _edge_flip(c, coord, sh):
            # In exact arithmetic the two transforms are identical (theorem nufft_periodic*).  In floating point the
            # scaled coordinate k*osN/N + osN//2 is rounded, and when k*osN/N +- width/2 is an integer (on-grid /
            # half-integer coordinates) rounding decides whether the outermost kernel sample (relative weight
            # 1/I0(beta) < 1 %) is included.  The statement only demands the accuracy bound there (checked above on
            # out-of-range coordinates), so the 1e-6 comparison is not applied to such inputs.
            ctx.count("oracle:periodic-skipped-window-edge-tie")
        elif not np.linalg.norm(A2 - A) <= 1e-6 * nA:
            fail("C06:periodic", "nufft changes when coordinates move by whole periods (%s)" % tag,
                 dict(rel=float(np.linalg.norm(A2 - A) / nA), shift=c["shift"]), "<= 1e-6 relative")
    except Exception as e:  # noqa
        fail("C06:raises", "nufft raised %s on shifted coordinates" % type(e).__name__, repr(e), "result")
    # 4. batch axes and Linops: same linear map on every batch entry, documented shapes -- for the data / coordinates in the
    #    case's memory layout (C, Fortran, strided view, reversed view; float32 coordinates) and magnitude (the transform is
    #    linear: x * 1e+-30 / 1e+-100 must give the same relative result).  The reference is the implementation's own matrix A
    #    (C-contiguous float64 calls) whose accuracy / adjointness are decided above.
    rs = np.random.RandomState(c["seed"])
    mag = float(c.get("mag", 1.0))
    xl, cl = c.get("xlayout", "C"), c.get("clayout", "C")
    x = (rs.randn(*(batch + shape)) + 1j * rs.randn(*(batch + shape))) * mag
    y = (rs.randn(*(batch + pts)) + 1j * rs.randn(*(batch + pts))) * mag
    xv, yv, cv = lay(x, xl), lay(y, xl), lay(coord, cl)
    x0, y0, c0 = xv.copy(), yv.copy(), cv.copy()
    # float32 coordinates are scaled and interpolated in single precision (|kappa| <= ~50 here): observed deviation from the
    # float64-coordinate result <= 8.7e-6 relative (clean tree, 4000 cases, forward and adjoint); 1e-3 is > 100 x that
    tol = 1e-3 if cl == "f32" else 1e-6
    vtag = "%s; x %s, coord %s, magnitude %g" % (tag, xl, cl, mag)

    def close(a, b, t=None):
        nb = float(np.linalg.norm(b / mag))
        return bool(np.linalg.norm(a / mag - b / mag) <= (tol if t is None else t) * nb)

    try:
        got = np.asarray(sp.nufft(xv, cv, **kw_of(c)))
        want = (x.reshape(-1, A.shape[1]) @ A.T).reshape(batch + pts)
        if list(got.shape) != batch + pts or not close(got, want):
            fail("C06:batch", "nufft on a batched input differs from the per-item transform / shape (%s)" % vtag,
                 list(got.shape), batch + pts)
        gota = np.asarray(sp.nufft_adjoint(yv, cv, oshape=batch + shape, **kw_of(c)))
        wanta = (y.reshape(-1, A.shape[0]) @ A.conj()).reshape(batch + shape)
        if list(gota.shape) != batch + shape or not close(gota, wanta):
            fail("C06:batch.adjoint", "nufft_adjoint on a batched input differs from A^H per item / shape (%s)" % vtag,
                 list(gota.shape), batch + shape)
        F = linop.NUFFT(batch + shape, cv, **kw_of(c))
        gl, gh = np.asarray(F(xv)), np.asarray(F.H(yv))
        if not (close(gl, got, 1e-6) and close(gh, gota, 1e-6)):
            fail("C06:linop", "linop.NUFFT / .H differ from nufft / nufft_adjoint (%s)" % vtag, "differs", "equal")
        # 4b. histories: a second live operator with another (oversamp, width) on the same arrays, calls interleaved; every
        #     repeated call must reproduce its first result and no call may modify the caller's arrays
        alt = c.get("alt")
        if alt:
            G = linop.NUFFT(batch + shape, cv, oversamp=alt[0], width=alt[1])
            g1, k1 = np.asarray(G(xv)), np.asarray(G.H(yv))
            f2, h2 = np.asarray(F(xv)), np.asarray(F.H(yv))
            g2 = np.asarray(sp.nufft(xv, cv, oversamp=alt[0], width=alt[1]))
            k2 = np.asarray(sp.nufft_adjoint(yv, cv, oshape=batch + shape, oversamp=alt[0], width=alt[1]))
            f3 = np.asarray(sp.nufft(xv, cv, **kw_of(c)))
            if not (close(f2, gl, 1e-12) and close(h2, gh, 1e-12) and close(f3, got, 1e-12) and close(g2, g1, 1e-6) and close(k2, k1, 1e-6)):
                fail("C06:reuse", "a repeated nufft / nufft_adjoint call gives a different result after calls with oversamp=%s, "
                     "width=%s on the same arrays (%s)" % (alt[0], alt[1], vtag), "differs", "equal")
        if not (np.array_equal(xv, x0) and np.array_equal(yv, y0) and np.array_equal(cv, c0)):
            fail("C06:reuse.mutates", "nufft / nufft_adjoint / NUFFT modified the caller's data or coordinate array (%s)" % vtag,
                 dict(x=bool(np.array_equal(xv, x0)), y=bool(np.array_equal(yv, y0)), coord=bool(np.array_equal(cv, c0))), "unchanged")
    except Exception as e:  # noqa
        fail("C06:raises:integer-coord" if cl == "i64" else "C06:raises",
             "batched nufft / Linop raised %s (%s)" % (type(e).__name__, vtag), repr(e), "result")
    x, y = x / mag, y / mag
    # 5. Toeplitz normal operator: NUFFT(..., toeplitz=True).N must be A^H A of THAT operator (its own oversamp / width):
    #    compared at an accurate kernel (oversamp=2, width 7/8) so that a psf built with any other kernel is visible
    tw = c.get("toep_width")
    if tw is not None:
        try:
            T = linop.NUFFT(batch + shape, coord, oversamp=2, width=tw, toeplitz=True)
            tn = np.asarray(T.N(x))
            th = np.asarray(T.H(T(x)))
            den = np.linalg.norm(th)
            rel = float(np.linalg.norm(tn - th) / den) if den > 0 else float(np.linalg.norm(tn))
            if list(tn.shape) != batch + shape or not rel <= toeplitz_tol(tw):
                fail("C06:toeplitz.normal", "NUFFT(oversamp=2, width=%s, toeplitz=True).N(x) differs from A.H(A(x))" % tw,
                     dict(rel=rel, shape=list(tn.shape)), "<= %g relative (l2)" % toeplitz_tol(tw))
        except Exception as e:  # noqa
            fail("C06:raises", "Toeplitz normal operator raised %s" % type(e).__name__, repr(e), "result")
    return ok


def search(ctx, budget):
    rng = ctx.rng
    for d in ctx.disagreements[:50]:
        cc = d["case"]
        if "reified_shape" in cc:  # a pipeline constant disagreed: probe that configuration with the oracle
            for _ in range(4):
                c = gen_case(rng, os_w=(cc["os"], cc["width"]), shape=cc["reified_shape"])
                check_case(ctx, c, "disagreement")
    n = int(900 * budget)
    for _ in range(n):
        c = gen_case(rng)
        ctx.case(("oracle", json.dumps(c, sort_keys=True)))
        ctx.count("oracle:%s" % c["kind"])
        ctx.count("oracle:ndim%d" % len(c["shape"]))
        frac = c["width"] != "default" and Fraction(c["width"]).denominator != 1
        ctx.count("oracle:os=%s,w=%s" % (c["os"], "fractional" if frac else c["width"]))
        ctx.count("oracle:width-type=%s" % c["wtype"])
        ctx.count("oracle:layout x=%s" % c["xlayout"])
        ctx.count("oracle:layout coord=%s" % c["clayout"])
        if c["mag"] != 1.0:
            ctx.count("oracle:magnitude!=1")
        if c["batch"]:
            ctx.count("oracle:batched")
        check_case(ctx, c, "search")


def replay(path):
    r = json.load(open(path))
    print(json.dumps(r, indent=1)[:3000])
    if r.get("kind") != "failing-input":
        return 0
    ctx = common.Ctx(PROPERTY, "quick", 0)
    ok = check_case(ctx, r["case"], "replay")
    for f in ctx.failures[:3]:
        print("observed:", f["observed"], "expected:", f["expected"], "(%s)" % f["key"])
    print("replay:", "property holds on this input" if ok else "property FAILS on this input")
    return 0 if ok else 1
