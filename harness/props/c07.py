"""C07 — interpolate / gridding implement the documented kernel sums (sigpy/interp.py, linop.Interpolate/Gridding).

What is tied to the source how:
  translator-generated (regenerated from /repo on every run; theorems are stated about these definitions)
    Gen.Interp          the six numba loop nests `_interpolate1..3` / `_gridding1..3`
    Gen.InterpKernels   `_spline_kernel`, the kernel-name binding of `_get_interpolate` / `_get_gridding`
    Gen.InterpWrappers  the Python wrappers `interpolate` / `gridding`, statement by statement: `ndim`, `batch_shape`,
                        `batch_size`, `pts_shape`, `npts`, the reshapes of input / coord / output, the `np.isscalar`
                        broadcasting of `width` / `param`, the dispatch `TABLE[kernel][ndim - 1]` incl. the tuple returned by
                        `_get_interpolate` / `_get_gridding`, the argument order of the kernel call, gridding's `shape`
  proved (Props/C07.lean, Props/C07Wrap.lean)
    window / weights / wrap / axis pairing / `+=` of the loop nests (`interpD_mem`, ...), gridding = transpose;
    `interpolateW_spec`, `griddingW_spec`, `wrapper_spec`, `gridding_wrapper_spec`: the generated wrappers run the
    D-dimensional loop nest on the flattened batch / flattened points with width / param broadcast and return shape
    `batch ++ pts` / `shape`;  `applyUpd_eq_runUpd` (+ `_eq_sum`, `_eq_none_iff`, `applyC_eq_runUpd`): the executable
    array application the driver runs equals the function-level semantics `runUpd` the value theorems are about;
    `interpolate_value_spec` / `gridding_value_spec`: output[batch..., pts...] is the per-destination sum over the
    loop nest's updates
  validated by correspondence only
    float rounding, the Kaiser-Bessel kernel values, numba's compilation of the loop nests, numpy's reshape keeping
    row-major data (the Python list semantics the generated wrappers are written in is Model/C07Py.lean)
"""
import itertools
import json
import math
from fractions import Fraction

import numpy as np

from harness import common
from harness.translate import gen as G

PROPERTY = "C07"
LEAN_MODULES = ["SigpyVerif.Props.C07", "SigpyVerif.Props.C07Wrap"]
THEOREMS = ["SigpyVerif.C07." + t for t in [
    "window_iff_abs", "interp1_mem", "interp2_mem", "interp3_mem", "interp1_in_bounds",
    "grid1_eq_transpose_interp1", "grid2_eq_transpose_interp2", "grid3_eq_transpose_interp3", "grid1_mem",
    "kernels_accumulate", "kernel_dispatch", "runUpd_acc_eq_sum", "sum_mul_runUpd", "transpose_pairing",
    "interp1_shift_period", "interp2_shift_period", "interp3_shift_period",
    "spline_kernel_doc", "spline2_breakpoint",
    # Props/C07Wrap.lean: the generated wrappers and the array machinery
    "interpolateW_spec", "griddingW_spec", "dispatch_tables", "wrapper_spec", "gridding_wrapper_spec",
    "applyUpd_eq_runUpd", "applyUpd_eq_runG", "applyUpd_eq_none_iff", "applyUpd_eq_sum", "applyC_eq_runUpd",
    "gridNest_eq_transpose", "interpNest_in_bounds", "ravel_batch_flatten",
    "interpolate_value_spec", "gridding_value_spec",
    "interp1_filter_dst", "interp2_filter_dst", "interp3_filter_dst", "interpolate1_value_explicit",
    "filter_flatMap_unique",
    # Lemmas/C07Apply.lean, Lemmas/C07Wrap.lean
    "inBounds_iff_mem_allIdx", "ravel_toNat_inj", "ravel_append", "foldlM_applyStep", "foldlM_applyStep_none",
    "pyGet?_append_last", "pySliceTo_append_neg", "pySliceFrom_append_neg", "pySliceTo_append_last", "pyRepeat_singleton",
]]


def translate(ctx):
    G.regenerate(ctx, ["Interp", "InterpKernels", "InterpWrappers"])


# ---- rationals / protocol -----------------------------------------------------------------------
def fr(q):
    """case rationals are [num, den] pairs (JSON friendly)"""
    return Fraction(q[0], q[1])


def q_of(v):
    f = Fraction(v)
    return [f.numerator, f.denominator]


def R(f):
    f = Fraction(f)
    return str(f.numerator) if f.denominator == 1 else "%d/%d" % (f.numerator, f.denominator)


def L(x):
    x = list(x)
    return ",".join(str(int(v)) for v in x) if x else "-"


def RL(x):
    x = list(x)
    return ",".join(R(v) for v in x) if x else "-"


def BC(v):
    """width/param argument: ["s", q] scalar or ["l", [q, ...]] per axis"""
    return "s:" + R(fr(v[1])) if v[0] == "s" else "l:" + RL(fr(q) for q in v[1])


def CX(x):
    """flat list of [re, im] ints"""
    return ",".join(("%d" % a) if b == 0 else ("%d;%d" % (a, b)) for a, b in x) if x else "-"


def parse_crat(s):
    if ";" in s:
        a, b = s.split(";")
        return Fraction(a), Fraction(b)
    return Fraction(s), Fraction(0)


def parse_values(r):
    if not r.startswith("ok "):
        return r
    shape, data = r[3:].split(" | ")
    shape = [] if shape == "-" else [int(v) for v in shape.split(",")]
    vals = [] if data == "-" else [parse_crat(v) for v in data.split(",")]
    return (shape, vals)


def parse_entries(r, tagged=False):
    if not r.startswith("ok"):
        return r
    head, _, body = r.partition(" | ")
    out = []
    for tok in body.split():
        d, s, w = tok.split(":")
        d = tuple(int(v) for v in d.split("."))
        s = tuple(int(v) for v in s.split("."))
        w = [Fraction(v) for v in w.split(";")] if tagged else Fraction(w)
        out.append((d, s, w))
    return head, out


# ---- case generation ----------------------------------------------------------------------------
WIDTHS = [Fraction(1), Fraction(2), Fraction(3), Fraction(4), Fraction(5, 2)]
DYADIC_WIDTHS = [Fraction(1), Fraction(2), Fraction(4)]
BETAS = [0.0, 1.0, 2.34, 7.0, 9.14, 13.855]


def gen_coord(rng, n, exact):
    """one coordinate component for a grid axis of length n: the classes named by the property"""
    kind = rng.choice(["frac", "frac", "int", "half", "neg", "far", "edge"])
    if kind == "int":
        v = Fraction(rng.randint(-1, n))
    elif kind == "half":
        v = Fraction(2 * rng.randint(-2, n) + 1, 2)
    elif kind == "neg":
        v = -Fraction(rng.randint(1, 8 * n + 8), 8)
    elif kind == "far":
        v = Fraction(rng.choice([-1, 1]) * rng.randint(8 * 3 * n, 8 * 40 * n + 64), 8)
    elif kind == "edge":
        v = Fraction(rng.choice([0, 8 * n - 8, 8 * n - 4, 8 * n, -4]), 8)
    else:
        v = Fraction(rng.randint(-8, 8 * n + 8), 8)
    if not exact and kind == "frac":
        v = Fraction(rng.uniform(-1.0, n + 1.0))  # a generic double
    return kind, v


def gen_case(rng, kernel=None, exact=True, small=False, dyadic=None):
    nd = rng.choice([1, 1, 2, 2, 3])
    hi = 4 if (small or nd == 3) else 6
    grid = [rng.choice([1, 2, 3, 4, 5, 6][:hi]) for _ in range(nd)]
    if rng.random() < 0.25:
        grid[rng.randrange(nd)] = 1
    if nd >= 2 and rng.random() < 0.5 and len(set(grid)) == 1:
        grid[0] = grid[0] % hi + 1  # non-square grids expose axis pairing
    batch = rng.choice([[], [], [2], [1], [2, 2], [3]]) if not small else rng.choice([[], [], [2]])
    pts = rng.choice([[1], [2], [3], [4], [2, 2], [5], [1, 3]]) if not small else rng.choice([[1], [2], [3], [2, 2]])
    npts = int(np.prod(pts))
    kernel = kernel or rng.choice(["spline", "spline", "kaiser_bessel"])
    kinds, coord = [], []
    for j in range(npts):
        row = []
        for d in range(nd):
            k, v = gen_coord(rng, grid[d], exact)
            kinds.append(k)
            row.append(v)
        coord.append(row)
    if npts >= 2 and rng.random() < 0.4:  # duplicate coordinates
        a, b = rng.sample(range(npts), 2)
        coord[b] = list(coord[a])
        if rng.random() < 0.5:  # same cell through the wrap
            d = rng.randrange(nd)
            coord[b][d] = coord[a][d] + grid[d] * rng.choice([-2, -1, 1, 3])
        kinds.append("dup")
    if dyadic is None:
        dyadic = rng.random() < 0.6
    wpool = DYADIC_WIDTHS if (dyadic and kernel == "spline") else WIDTHS
    if not exact and rng.random() < 0.3:
        wpool = wpool + [Fraction(rng.uniform(0.6, 5.0))]
    if rng.random() < 0.5:
        width = ["s", q_of(rng.choice(wpool))]
    else:
        width = ["l", [q_of(rng.choice(wpool)) for _ in range(nd)]]
        if nd >= 2 and len(set(map(tuple, width[1]))) == 1:  # make per-axis widths really differ
            width[1][0] = q_of(rng.choice([w for w in wpool if q_of(w) != width[1][1]] or wpool))
    if kernel == "spline":
        if rng.random() < 0.5:
            param = ["s", q_of(rng.choice([0, 1, 2]))]
        else:
            param = ["l", [q_of(rng.choice([0, 1, 2])) for _ in range(nd)]]
            if nd >= 2 and len(set(map(tuple, param[1]))) == 1:
                param[1][0] = q_of((param[1][1][0] + 1) % 3)
    else:
        if rng.random() < 0.6:
            param = ["s", q_of(rng.choice(BETAS))]
        else:
            param = ["l", [q_of(rng.choice(BETAS)) for _ in range(nd)]]
    op = rng.choice(["interp", "grid"])
    cplx = rng.random() < 0.5
    return dict(op=op, nd=nd, batch=batch, grid=grid, pts=pts, kernel=kernel, cplx=cplx,
                coord=[q_of(v) for row in coord for v in row], width=width, param=param,
                int_args=rng.random() < 0.3, kinds=sorted(set(kinds)))


def all_dyadic(c):
    """every weight of the spline is a dyadic rational with few bits: exact comparison is meaningful"""
    if c["kernel"] != "spline":
        return False
    ws = [c["width"][1]] if c["width"][0] == "s" else c["width"][1]
    def p2(q):
        f = fr(q)
        return f.numerator == 1 or (f.denominator == 1 and f.numerator in (1, 2, 4))
    def dy(q):
        d = fr(q).denominator
        return d & (d - 1) == 0 and d <= 64
    return all(p2(w) for w in ws) and all(dy(q) for q in c["coord"])


def in_shape(c):
    return c["batch"] + (c["grid"] if c["op"] == "interp" else c["pts"])


def out_shape(c):
    return c["batch"] + (c["pts"] if c["op"] == "interp" else c["grid"])


def gen_data(rng, c):
    n = int(np.prod(in_shape(c)))
    return [[rng.randint(-9, 9), rng.randint(-9, 9) if c["cplx"] else 0] for _ in range(n)]


def np_data(c, x):
    a = np.array([complex(p, q) for p, q in x]) if c["cplx"] else np.array([float(p) for p, q in x])
    return a.reshape(in_shape(c))


def py_arg(c, v, as_param=False):
    """the Python value handed to sigpy for width / param"""
    def one(q):
        f = fr(q)
        if c["int_args"] and f.denominator == 1:
            return int(f)
        return float(f)
    if v[0] == "s":
        return one(v[1])
    vals = [one(q) for q in v[1]]
    return tuple(vals) if c["int_args"] else vals


def np_coord(c):
    return np.array([float(fr(q)) for q in c["coord"]], dtype=np.float64).reshape(c["pts"] + [c["nd"]])


def run_impl(c, x, via_linop=False, op=None):
    import sigpy as sp
    from sigpy import linop
    op = op or c["op"]
    coord = np_coord(c)
    kw = dict(kernel=c["kernel"], width=py_arg(c, c["width"]), param=py_arg(c, c["param"]))
    gshape = c["batch"] + c["grid"]
    x = x.copy()
    if op == "interp":
        if via_linop:
            return linop.Interpolate(gshape, coord, **kw)(x)
        return sp.interpolate(x, coord, **kw)
    if via_linop:
        return linop.Gridding(gshape, coord, **kw)(x)
    return sp.gridding(x, coord, gshape, **kw)


def model_line(c, x=None, what=None):
    what = what or c["op"]
    gsh = c["batch"] + c["grid"]
    csh = c["pts"] + [c["nd"]]
    base = "gsh=%s csh=%s coord=%s width=%s" % (L(gsh), L(csh), RL(fr(q) for q in c["coord"]), BC(c["width"]))
    if what in ("interp", "grid"):
        return "C07 %s %s param=%s x=%s" % (what, base, BC(c["param"]), CX(x))
    if what == "entries":
        return "C07 entries op=%s %s param=%s" % (c["op"], base, BC(c["param"]))
    if what == "tagged":
        return "C07 tagged op=%s %s" % (c["op"], base)
    raise ValueError(what)


def key_of(c, extra=""):
    return "C07:%s.%s%s" % (c["op"], "spline" if c["kernel"] == "spline" else "kb", extra)


def cnt(ctx, c):
    ctx.count("op:" + c["op"])
    ctx.count("kernel:" + c["kernel"])
    ctx.count("ndim:%d" % c["nd"])
    ctx.count("width:" + ("scalar" if c["width"][0] == "s" else "per-axis"))
    ctx.count("data:" + ("complex" if c["cplx"] else "real"))
    for k in c["kinds"]:
        ctx.count("coord:" + k)
    if 1 in c["grid"]:
        ctx.count("grid:length-1-axis")
    if c["batch"]:
        ctx.count("batch:%d-d" % len(c["batch"]))


def to_frac_array(a):
    a = np.asarray(a).ravel()
    if np.iscomplexobj(a):
        return [(Fraction(float(v.real)), Fraction(float(v.imag))) for v in a]
    return [(Fraction(float(v)), Fraction(0)) for v in a]


# ---- real kernels (used to weight the model's update structure for Kaiser–Bessel) ------------------
def real_kernel(kernel):
    from sigpy import interp
    f = interp._spline_kernel if kernel == "spline" else interp._kaiser_bessel_kernel
    return getattr(f, "py_func", f)


def tagged_weight(c, us):
    """product weight from the kernel arguments u_d (tag d = axis -d), multiplied in the code's order
    (outermost axis first), with sigpy's own kernel function."""
    K = real_kernel(c["kernel"])
    nd = c["nd"]
    ps = [c["param"][1]] * nd if c["param"][0] == "s" else c["param"][1]
    w = None
    for d in range(nd, 0, -1):  # axis -nd (outer loop) ... axis -1 (inner loop)
        u = float(us[d - 1])
        k = K(u, float(fr(ps[-d])))
        k = 0.0 if k is None else float(k)
        w = k if w is None else w * k
    return w


# ---- correspondence -----------------------------------------------------------------------------
def _values_stream(ctx, cases, stream):
    lines, meta = [], []
    for c in cases:
        x = gen_data(ctx.rng, c)
        lines.append(model_line(c, x))
        meta.append((c, x))
    replies = ctx.driver(lines)
    bad = 0
    for (c, x), ln, r in zip(meta, lines, replies):
        model = parse_values(r)
        exact = all_dyadic(c)
        for via in (False, True):
            cnt(ctx, c)
            ctx.count("compare:" + ("exact" if exact else "1e-10"))
            ctx.case((ln, via), sample=dict(line=ln[:300], reply=r[:160], via_linop=via) if ctx.evaluations % 61 == 0 else None)
            try:
                y = run_impl(c, np_data(c, x), via_linop=via)
                impl = (list(y.shape), to_frac_array(y))
            except Exception as e:  # noqa
                impl = "err %s" % type(e).__name__
            ok = False
            if isinstance(model, tuple) and isinstance(impl, tuple) and model[0] == impl[0] and len(model[1]) == len(impl[1]):
                if exact:
                    ok = model[1] == impl[1]
                else:
                    mx = max([1.0] + [abs(float(a)) + abs(float(b)) for a, b in model[1]])
                    ok = all(abs(float(a - p)) <= 1e-10 * mx and abs(float(b - q)) <= 1e-10 * mx
                             for (a, b), (p, q) in zip(model[1], impl[1]))
            if not ok:
                bad += 1
                ctx.disagree(stream, dict(case=c, x=x, via_linop=via),
                             impl if isinstance(impl, str) else (impl[0], [complex(float(a), float(b)) for a, b in impl[1]][:12]),
                             model if isinstance(model, str) else (model[0], ["%s+%sj" % (a, b) for a, b in model[1]][:12]))
    return bad


def impl_matrix(c, op=None):
    """matrix of the real function via basis inputs (rows: flattened output, cols: flattened input)"""
    op = op or c["op"]
    ish = c["batch"] + (c["grid"] if op == "interp" else c["pts"])
    n = int(np.prod(ish))
    cols = []
    for k in range(n):
        e = np.zeros(n)
        e[k] = 1.0
        cols.append(np.asarray(run_impl(c, e.reshape(ish), op=op)).ravel())
    return np.stack(cols, axis=1)


def model_matrix(c, ents, tagged):
    gsh = [int(np.prod(c["batch"]))] + c["grid"]
    psh = [int(np.prod(c["batch"])), int(np.prod(c["pts"]))]
    osh, ish = (psh, gsh) if c["op"] == "interp" else (gsh, psh)
    M = np.zeros((int(np.prod(osh)), int(np.prod(ish))))
    Mq = {}
    for d, s, w in ents:
        if len(d) != len(osh) or len(s) != len(ish) or any(not (0 <= a < b) for a, b in zip(d, osh)) \
                or any(not (0 <= a < b) for a, b in zip(s, ish)):
            return None, None
        r = int(np.ravel_multi_index(d, osh))
        k = int(np.ravel_multi_index(s, ish))
        if tagged:
            M[r, k] += tagged_weight(c, w)
        else:
            Mq[(r, k)] = Mq.get((r, k), 0) + w
    if not tagged:
        for (r, k), w in Mq.items():
            M[r, k] = float(w)
    return M, Mq


def _matrix_stream(ctx, cases, stream):
    lines = [model_line(c, what="entries" if c["kernel"] == "spline" else "tagged") for c in cases]
    replies = ctx.driver(lines)
    bad = bad_t = 0
    for c, ln, r in zip(cases, lines, replies):
        tagged = c["kernel"] != "spline"
        parsed = parse_entries(r, tagged)
        cnt(ctx, c)
        ctx.case(("matrix", ln), sample=dict(line=ln[:300], reply=r[:160]) if ctx.evaluations % 37 == 0 else None)
        try:
            A = impl_matrix(c)
        except Exception as e:  # noqa
            A = "err %s" % type(e).__name__
        ok = False
        Mdesc = parsed if isinstance(parsed, str) else None
        if not isinstance(parsed, str) and not isinstance(A, str):
            head, ents = parsed
            M, Mq = model_matrix(c, ents, tagged)
            if M is not None and M.shape == A.shape and (tagged or "acc=1" in head):
                if all_dyadic(c):
                    ok = np.array_equal(M, A)
                    ctx.count("matrix:exact")
                else:
                    ok = bool(np.all(np.abs(M - A) <= 1e-10 * max(1.0, np.abs(M).max())))
                    ctx.count("matrix:1e-10")
            Mdesc = None if M is None else M.round(12).tolist()
        if not ok:
            bad += 1
            ctx.disagree(stream, dict(case=c, x=None, via_linop=False, matrix=True),
                         A if isinstance(A, str) else A.round(12).tolist(), Mdesc)
        # transposition, bitwise (the model's two lists are literally each other's swap: same order, same weights)
        if not isinstance(A, str):
            try:
                other = "grid" if c["op"] == "interp" else "interp"
                B = impl_matrix(c, op=other)
                same = B.shape == A.T.shape and np.array_equal(B, A.T)
            except Exception:  # noqa
                same = False
            ctx.case(("transpose", ln))
            if not same:
                bad_t += 1
                ctx.disagree(stream + ".transpose", dict(case=c, x=None, via_linop=False, transpose=True),
                             "gridding matrix != interpolate matrix^T (bitwise)", "equal")
    return bad, bad_t


def _kernel_stream(ctx):
    K = real_kernel("spline")
    xs = [Fraction(k, 16) for k in range(-20, 21)] + [Fraction(1, 3), Fraction(-1, 3), Fraction(2, 3), Fraction(-2, 3),
                                                       Fraction(1, 3) + Fraction(1, 2 ** 30), Fraction(1, 3) - Fraction(1, 2 ** 30)]
    xs += [Fraction(ctx.rng.randint(-1200, 1200), 1000) for _ in range(40)]
    lines, meta = [], []
    for x in xs:
        for o in (0, 1, 2):
            lines.append("C07 kernel x=%s order=%d" % (R(x), o))
            meta.append((x, o))
    bad = 0
    for (x, o), ln, r in zip(meta, lines, ctx.driver(lines)):
        ctx.case(("kernel", ln))
        ctx.count("kernel-fn:order%d" % o)
        got = K(float(x), float(o))
        try:
            want = Fraction(r[3:]) if r.startswith("ok ") else None
        except ValueError:
            want = None
        d = x.denominator
        if want is None or got is None:
            ok = False
        elif d & (d - 1) == 0:
            ok = Fraction(float(got)) == want
        else:
            ok = abs(float(got) - float(want)) <= 1e-14
        if not ok:
            bad += 1
            ctx.disagree("kernel", dict(kernel_x=q_of(x), order=o), got, r)
    return bad


def correspond(ctx):
    ctx.rule = ("case = (op interp|grid, ndim 1-3, batch shape, grid shape incl. length-1 axes, points shape, kernel, "
                "coordinates drawn per component from {k/8, integer, half-integer, negative, far outside, grid edge, "
                "duplicate / wrapped duplicate}, width scalar|per-axis from {1,2,3,4,5/2}, param scalar|per-axis, "
                "real|Gaussian-integer data, entry point function|Linop); distinct by protocol line + entry point; "
                "all are non-trivial (non-empty windows for at least the widths >= 1, labelled integer data)")
    quick = ctx.tier == "quick"
    rng = ctx.rng
    nv = 200 if quick else 1200
    cases = [gen_case(rng, kernel="spline") for _ in range(nv)]
    bad = _values_stream(ctx, cases, "values")
    ctx.oblige("correspondence:C07.values", "correspondence", bad == 0,
               "%d disagreements (spline; model interpolate/gridding incl. wrappers vs sp.interpolate/sp.gridding and Linops)" % bad)
    nm = 80 if quick else 500
    mcases = [gen_case(rng, small=True) for _ in range(nm)]
    bad, bad_t = _matrix_stream(ctx, mcases, "matrix")
    ctx.oblige("correspondence:C07.matrix", "correspondence", bad == 0,
               "%d disagreements (implementation matrix via basis inputs vs generated update lists; "
               "Kaiser-Bessel: update structure from the model, weights from sigpy's kernel)" % bad)
    ctx.oblige("correspondence:C07.transpose-bitwise", "correspondence", bad_t == 0,
               "%d cases where the gridding matrix is not bitwise the transpose of the interpolate matrix" % bad_t)
    bad = _kernel_stream(ctx)
    ctx.oblige("correspondence:C07.spline-kernel", "correspondence", bad == 0,
               "%d disagreements Gen.splineKernel vs _spline_kernel" % bad)
    ctx.traces = ctx.evaluations
    ctx.trusted += [
        "harness/translate/gen_c07.py InterpWrappers: statement-by-statement translation of interpolate/gridding "
        "(anything outside its subset is a broken obligation); py2lean Kernel/formula for the loop nests",
        "Model/C07Py.lean: Python semantics of l[k], l[:k], l[k:], l * n, reshape legality, row-major a[i, j] "
        "in which the generated wrappers are written (exercised by the correspondence streams)",
    ]
    ctx.assumptions += [
        "Python wrappers interpolate/gridding are translator-generated (Gen.InterpWrappers) and proved to run the D-dimensional "
        "loop nest on the flattened problem (wrapper_spec, gridding_wrapper_spec, *_value_spec); modelled by hand: the Python "
        "list/slice/reshape semantics they are written in (Model/C07Py.lean), the numpy backend branch `xp == np` only, the "
        "domain guard 1 <= ndim <= 3, ndim <= rank (Model/C07.lean)",
        "numpy reshape of a C-contiguous array keeps the row-major flat data; xp.zeros gives a zero-initialised buffer",
        "float64 rounding of coordinates/weights is not modelled: exact streams use dyadic data where float arithmetic is exact",
        "Kaiser-Bessel kernel has no Rat model: its values are measured against scipy.special.i0 by the search oracle (2e-7 relative per factor)",
        "numba compiles the Python loop nests faithfully (range over float bounds truncates integral floats)",
    ]


# ---- the property's own oracle: the documented sums, evaluated directly ------------------------------
def ref_kernel(kernel, u, p):
    a = abs(u)
    if a > 1:
        return 0.0
    if kernel == "spline":
        if p == 0:
            return 1.0
        if p == 1:
            return 1.0 - a
        if p == 2:
            return 9.0 / 8.0 * (1.0 - a) ** 2 if a > 1.0 / 3.0 else 3.0 / 4.0 * (1.0 - 3.0 * u * u)
        raise ValueError("order")
    from scipy.special import i0
    return float(i0(p * math.sqrt(max(0.0, 1.0 - u * u))))


def reference(c, x):
    """y[j] = sum_{i : |i_d - c_jd| <= W_d/2 for all d} prod_d K_d((i_d - c_jd)/(W_d/2)) x[i mod n]; gridding = transpose,
    contributions add.  Window membership is decided in exact rational arithmetic."""
    nd, grid = c["nd"], c["grid"]
    W = [fr(c["width"][1])] * nd if c["width"][0] == "s" else [fr(q) for q in c["width"][1]]
    P = [float(fr(c["param"][1]))] * nd if c["param"][0] == "s" else [float(fr(q)) for q in c["param"][1]]
    npts = int(np.prod(c["pts"]))
    B = int(np.prod(c["batch"]))
    co = [fr(q) for q in c["coord"]]
    xin = np.asarray(x)
    if c["op"] == "interp":
        xin = xin.reshape([B] + grid)
        out = np.zeros([B, npts], dtype=xin.dtype)
    else:
        xin = xin.reshape([B, npts])
        out = np.zeros([B] + grid, dtype=xin.dtype)
    scale = np.zeros(out.shape)
    for j in range(npts):
        per_axis = []
        for d in range(nd):
            cj, w = co[j * nd + d], W[d]
            lo, hi = math.floor(cj - w / 2) - 1, math.ceil(cj + w / 2) + 1
            lst = []
            for i in range(lo, hi + 1):
                if abs(i - cj) <= w / 2:
                    u = float(i - cj) / float(w / 2)
                    lst.append((i % grid[d], ref_kernel(c["kernel"], u, P[d])))
            per_axis.append(lst)
        for combo in itertools.product(*per_axis):
            idx = tuple(i for i, _ in combo)
            wt = 1.0
            for _, k in combo:
                wt *= k
            if c["op"] == "interp":
                out[:, j] += wt * xin[(slice(None),) + idx]
                scale[:, j] += abs(wt) * np.abs(xin[(slice(None),) + idx])
            else:
                out[(slice(None),) + idx] += wt * xin[:, j]
                scale[(slice(None),) + idx] += abs(wt) * np.abs(xin[:, j])
    return out.reshape(out_shape(c)), scale.reshape(out_shape(c))


def tolerance(c, scale):
    if c["kernel"] == "spline":
        return 1e-12 * (1.0 + scale)
    return 2.5e-7 * c["nd"] * scale + 1e-12 * (1.0 + scale)


def check_oracle(ctx, c, x, via, origin):
    xa = np_data(c, x)
    try:
        got = np.asarray(run_impl(c, xa, via_linop=via))
    except Exception as e:  # a valid request must work
        ctx.fail(key_of(c, ".raises"), "%s raised %s on a valid request" % (c["op"], type(e).__name__),
                 dict(case=c, x=x, via_linop=via), observed=repr(e), expected="result", origin=origin)
        return False
    want, scale = reference(c, xa)
    if list(got.shape) != list(want.shape):
        ctx.fail(key_of(c, ".shape"), "%s output shape differs from batch_shape + pts/grid shape" % c["op"],
                 dict(case=c, x=x, via_linop=via), observed=list(got.shape), expected=list(want.shape), origin=origin)
        return False
    err = np.abs(got - want)
    tol = tolerance(c, scale)
    if not np.all(err <= tol):
        k = int(np.argmax(err - tol))
        ctx.fail(key_of(c), "%s (%s) differs from the documented kernel sum" % (c["op"], c["kernel"]),
                 dict(case=c, x=x, via_linop=via),
                 observed=dict(flat_index=k, got=str(got.ravel()[k]), all=[str(v) for v in got.ravel()[:24]]),
                 expected=dict(want=str(want.ravel()[k]), tol=float(tol.ravel()[k]), all=[str(v) for v in want.ravel()[:24]]),
                 origin=origin)
        return False
    return True


def check_transpose(ctx, c, origin):
    """gridding is the transpose of interpolate with exactly the same weights (matrix entries agree to rounding)"""
    try:
        A = impl_matrix(c, op="interp")
        Bm = impl_matrix(c, op="grid")
    except Exception as e:  # noqa
        ctx.fail(key_of(c, ".raises"), "basis evaluation raised %s" % type(e).__name__,
                 dict(case=c, x=None, via_linop=False, transpose=True), observed=repr(e), expected="matrices", origin=origin)
        return False
    tol = 1e-12 * max(1.0, np.abs(A).max())
    if Bm.shape != A.T.shape or not np.all(np.abs(Bm - A.T) <= tol):
        ctx.fail("C07:transpose.%s" % ("spline" if c["kernel"] == "spline" else "kb"),
                 "gridding is not the transpose of interpolate",
                 dict(case=c, x=None, via_linop=False, transpose=True),
                 observed=Bm.round(12).tolist(), expected=A.T.round(12).tolist(), origin=origin)
        return False
    return True


def check_kb_function(ctx, origin):
    """the Kaiser-Bessel kernel function itself: I0(beta sqrt(1-u^2)) on |u| <= 1, 0 outside"""
    from scipy.special import i0
    K = real_kernel("kaiser_bessel")
    ok = True
    for beta in BETAS + [ctx.rng.uniform(0, 25) for _ in range(6)]:
        for u in [-1.0, 1.0, 0.0, 0.5, -0.25] + [ctx.rng.uniform(-1, 1) for _ in range(10)] + [1.0000001, -1.5, 2.0]:
            got = K(u, beta)
            want = float(i0(beta * math.sqrt(1 - u * u))) if abs(u) <= 1 else 0.0
            ctx.case(("kb-fn", u, beta))
            if got is None or abs(float(got) - want) > 2.5e-7 * abs(want) + 1e-300:
                ctx.fail("C07:kaiser_bessel_kernel", "Kaiser-Bessel kernel value differs from I0(beta*sqrt(1-u^2)) by more than 2.5e-7 relative",
                         dict(kb_u=u, kb_beta=beta), observed=None if got is None else float(got), expected=want, origin=origin)
                ok = False
    return ok


def search(ctx, budget):
    rng = ctx.rng
    # 1. replay disagreeing cases first
    for d in ctx.disagreements[:200]:
        cc = d["case"]
        if "case" not in cc:
            continue
        c = cc["case"]
        if cc.get("transpose") or cc.get("matrix"):
            check_transpose(ctx, c, "disagreement")
            for bx in basis_inputs(c):
                if not check_oracle(ctx, c, bx, False, "disagreement"):
                    break
        else:
            check_oracle(ctx, c, cc["x"], cc["via_linop"], "disagreement")
    check_kb_function(ctx, "search")
    # 2. budgeted search: dyadic and generic-double coordinates, both kernels
    n = int(500 * budget)
    for k in range(n):
        c = gen_case(rng, exact=(k % 2 == 0))
        x = gen_data(rng, c)
        via = rng.random() < 0.4
        cnt(ctx, c)
        ctx.case(("oracle", model_line(c, x), via))
        check_oracle(ctx, c, x, via, "search")
    for k in range(int(40 * budget)):
        c = gen_case(rng, small=True, exact=(k % 2 == 0))
        ctx.case(("oracle-transpose", model_line(c, what="entries")))
        check_transpose(ctx, c, "search")


def basis_inputs(c):
    n = int(np.prod(in_shape(c)))
    for k in range(n):
        x = [[0, 0] for _ in range(n)]
        x[k] = [1, 0]
        yield x


def replay(path):
    r = json.load(open(path))
    print(json.dumps(r, indent=1)[:3000])
    if r.get("kind") != "failing-input":
        return 0
    cc = r["case"]
    ctx = common.Ctx(PROPERTY, "quick", 0)
    if "kb_u" in cc:
        from scipy.special import i0
        got = real_kernel("kaiser_bessel")(cc["kb_u"], cc["kb_beta"])
        want = float(i0(cc["kb_beta"] * math.sqrt(1 - cc["kb_u"] ** 2))) if abs(cc["kb_u"]) <= 1 else 0.0
        ok = got is not None and abs(float(got) - want) <= 2.5e-7 * abs(want) + 1e-300
        print("kernel:", got, "I0:", want)
    elif cc.get("transpose"):
        ok = check_transpose(ctx, cc["case"], "replay")
    else:
        c = cc["case"]
        ok = check_oracle(ctx, c, cc["x"], cc["via_linop"], "replay")
        if c["kernel"] == "spline":
            print("model:", ctx.driver([model_line(c, cc["x"])])[0][:400])
        for f in ctx.failures[:1]:
            print("observed:", f["observed"], "\nexpected:", f["expected"])
    print("replay:", "property holds on this input" if ok else "property FAILS on this input")
    return 0 if ok else 1
