"""C07 — interpolate / gridding implement the documented kernel sums (sigpy/interp.py, linop.Interpolate/Gridding).

What is tied to the source how:
  translator-generated (regenerated from /repo on every run; theorems are stated about these definitions)
    Gen.Interp          the six numba loop nests `_interpolate1..3` / `_gridding1..3`
    Gen.InterpKernels   `_spline_kernel`, the kernel-name binding of `_get_interpolate` / `_get_gridding`
    Gen.InterpWrappers  the Python wrappers `interpolate` / `gridding`, statement by statement: `ndim`, `batch_shape`,
                        `batch_size`, `pts_shape`, `npts`, the reshapes of input / coord / output, the `np.isscalar`
                        broadcasting of `width` / `param`, the dispatch `TABLE[kernel][ndim - 1]` incl. the tuple returned by
                        `_get_interpolate` / `_get_gridding`, the argument order of the kernel call, gridding's `shape`
  proved (Props/C07.lean, Props/C07Wrap.lean)
    window / weights / wrap / axis pairing / `+=` of the loop nests (`interpD_mem`, ...), gridding = transpose;
    `interpolateW_spec`, `griddingW_spec`, `wrapper_spec`, `gridding_wrapper_spec`: the generated wrappers run the
    D-dimensional loop nest on the flattened batch / flattened points with width / param broadcast and return shape
    `batch ++ pts` / `shape`;  `applyUpd_eq_runUpd` (+ `_eq_sum`, `_eq_none_iff`, `applyC_eq_runUpd`): the executable
    array application the driver runs equals the function-level semantics `runUpd` the value theorems are about;
    `interpolate_value_spec` / `gridding_value_spec`: output[batch..., pts...] is the per-destination sum over the
    loop nest's updates
  validated by correspondence only
    float rounding, the Kaiser-Bessel kernel values, numba's compilation of the loop nests, numpy's reshape keeping
    row-major data (the Python list semantics the generated wrappers are written in is Model/C07Py.lean)

Hand-over variants (add_variant).  The documented sum is a function of the *values* of data, coordinates, width and param;
every stream therefore also varies how those values are handed to sigpy, with the expected result unchanged:
  coordinate dtype float64 | float32 | int64 | int32 | int16 (only with coordinates, widths and params that are exactly
  representable in that dtype - sigpy casts width/param to coord.dtype, see the separately keyed class below);
  data dtype float64/complex128 | float32/complex64 (compared at 2e-5) | int64/int32 (order-0 spline only: all weights 0/1,
  so the sum is an integer at every accumulation step); data or coordinates C-ordered | Fortran-ordered | a strided view of a
  larger buffer | a negative-stride view; data scaled by 2^-900 .. 2^400 (exact, undone before comparing); width/param as
  Python or numpy scalars (float64, float32, int64), list | tuple | ndarray; gridding's shape as list | tuple; entry points
  function | Linop | adjoint of the dual Linop | one Linop object applied twice with a second live Linop and a function
  call with other parameters in between (both applications must agree bitwise).
Search-only input classes:
  samples on the edge of the support (gen_raster_case): widths with one/two decimals and coordinates on a decimal raster
  aimed at c +- W/2 = integer, and exact ties moved by one ulp.  A tap whose exact distance to the edge is non-zero but
  below 4 ulp cannot be decided by float arithmetic: the oracle accepts it either way (excluded, or included with K(+-1)),
  consistently over the whole output, but never a non-finite value or any other weight.  [The unchanged code itself
  includes such taps, e.g. W=1.4, c=0.3, i=1: fl(0.3+0.7) ... |fl(1-0.3)/0.7| = 1.0 although |1 - 0.3| > 0.7 exactly.]
  key C07:int-coord-dtype:fractional-width-or-param - integer-dtype coordinates with a fractional width / beta;
  key C07:coord-magnitude>=2^31 - coordinates 2^31 .. 2^40 grid units away (the generic "very far" class stays below 2^31).
"""
import itertools
import json
import math
from fractions import Fraction

import numpy as np

from harness import common
from harness.translate import gen as G

PROPERTY = "C07"
LEAN_MODULES = ["SigpyVerif.Props.C07", "SigpyVerif.Props.C07Wrap"]
THEOREMS = ["SigpyVerif.C07." + t for t in [
    "window_iff_abs", "interp1_mem", "interp2_mem", "interp3_mem", "interp1_in_bounds",
    "grid1_eq_transpose_interp1", "grid2_eq_transpose_interp2", "grid3_eq_transpose_interp3", "grid1_mem",
    "kernels_accumulate", "kernel_dispatch", "runUpd_acc_eq_sum", "sum_mul_runUpd", "transpose_pairing",
    "interp1_shift_period", "interp2_shift_period", "interp3_shift_period",
    "spline_kernel_doc", "spline2_breakpoint",
    # Props/C07Wrap.lean: the generated wrappers and the array machinery
    "interpolateW_spec", "griddingW_spec", "dispatch_tables", "wrapper_spec", "gridding_wrapper_spec",
    "applyUpd_eq_runUpd", "applyUpd_eq_runG", "applyUpd_eq_none_iff", "applyUpd_eq_sum", "applyC_eq_runUpd",
    "gridNest_eq_transpose", "interpNest_in_bounds", "ravel_batch_flatten",
    "interpolate_value_spec", "gridding_value_spec",
    "interp1_filter_dst", "interp2_filter_dst", "interp3_filter_dst", "interpolate1_value_explicit",
    "filter_flatMap_unique",
    # Lemmas/C07Apply.lean, Lemmas/C07Wrap.lean
    "inBounds_iff_mem_allIdx", "ravel_toNat_inj", "ravel_append", "foldlM_applyStep", "foldlM_applyStep_none",
    "pyGet?_append_last", "pySliceTo_append_neg", "pySliceFrom_append_neg", "pySliceTo_append_last", "pyRepeat_singleton",
]]


def translate(ctx):
    G.regenerate(ctx, ["Interp", "InterpKernels", "InterpWrappers"])


# ---- rationals / protocol -----------------------------------------------------------------------
def fr(q):
    """case rationals are [num, den] pairs (JSON friendly)"""
    return Fraction(q[0], q[1])


def q_of(v):
    f = Fraction(v)
    return [f.numerator, f.denominator]


def R(f):
    f = Fraction(f)
    return str(f.numerator) if f.denominator == 1 else "%d/%d" % (f.numerator, f.denominator)


def L(x):
    x = list(x)
    return ",".join(str(int(v)) for v in x) if x else "-"


def RL(x):
    x = list(x)
    return ",".join(R(v) for v in x) if x else "-"


def BC(v):
    """width/param argument: ["s", q] scalar or ["l", [q, ...]] per axis"""
    return "s:" + R(fr(v[1])) if v[0] == "s" else "l:" + RL(fr(q) for q in v[1])


def CX(x):
    """flat list of [re, im] ints"""
    return ",".join(("%d" % a) if b == 0 else ("%d;%d" % (a, b)) for a, b in x) if x else "-"


def parse_crat(s):
    if ";" in s:
        a, b = s.split(";")
        return Fraction(a), Fraction(b)
    return Fraction(s), Fraction(0)


def parse_values(r):
    if not r.startswith("ok "):
        return r
    shape, data = r[3:].split(" | ")
    shape = [] if shape == "-" else [int(v) for v in shape.split(",")]
    vals = [] if data == "-" else [parse_crat(v) for v in data.split(",")]
    return (shape, vals)


def parse_entries(r, tagged=False):
    if not r.startswith("ok"):
        return r
    head, _, body = r.partition(" | ")
    out = []
    for tok in body.split():
        d, s, w = tok.split(":")
        d = tuple(int(v) for v in d.split("."))
        s = tuple(int(v) for v in s.split("."))
        w = [Fraction(v) for v in w.split(";")] if tagged else Fraction(w)
        out.append((d, s, w))
    return head, out


# ---- case generation ----------------------------------------------------------------------------
WIDTHS = [Fraction(1), Fraction(2), Fraction(3), Fraction(4), Fraction(5, 2),
          Fraction(1, 2), Fraction(3, 2), Fraction(7, 2), Fraction(5), Fraction(6)]
DYADIC_WIDTHS = [Fraction(1), Fraction(2), Fraction(4), Fraction(1, 2)]
INT_WIDTHS = [Fraction(w) for w in (1, 2, 3, 4, 5, 6)]  # representable in an integer coordinate dtype
BETAS = [0.0, 1.0, 2.34, 7.0, 9.14, 13.855]
BETAS_F32 = [0.0, 1.0, 2.5, 7.0, 9.125, 13.875]  # exactly representable in float32
BETAS_INT = [0, 1, 2, 7, 9, 14]
VFAR_MAXK = 27  # "very far" coordinates stay below 2^31 (n <= 6); beyond that see search step 5
INT_RANGE = {"int16": 2 ** 15 - 64, "int32": 2 ** 31 - 64, "int64": 2 ** 62}
SINGLE = ("float32", "complex64")
INTDATA = ("int64", "int32")


def gen_coord(rng, n, exact, integer=False):
    """one coordinate component for a grid axis of length n: the classes named by the property.
    integer=True: integer-valued positions only (they can then be handed over in an integer dtype)."""
    if integer:
        kind = rng.choice(["int", "int", "neg", "far", "edge", "vfar"])
        if kind == "int":
            v = rng.randint(-1, n)
        elif kind == "neg":
            v = -rng.randint(1, n + 2)
        elif kind == "far":
            v = rng.choice([-1, 1]) * rng.randint(3 * n, 40 * n + 8)
        elif kind == "edge":
            v = rng.choice([0, n - 1, n, -1])
        else:
            v = rng.choice([-1, 1]) * (n * 2 ** rng.randint(10, VFAR_MAXK) + rng.randint(0, n))
        return kind, Fraction(v)
    kind = rng.choice(["frac", "frac", "frac", "int", "int", "half", "half", "neg", "neg", "far", "far", "edge", "edge", "vfar"])
    if kind == "int":
        v = Fraction(rng.randint(-1, n))
    elif kind == "half":
        v = Fraction(2 * rng.randint(-2, n) + 1, 2)
    elif kind == "neg":
        v = -Fraction(rng.randint(1, 8 * n + 8), 8)
    elif kind == "far":
        v = Fraction(rng.choice([-1, 1]) * rng.randint(8 * 3 * n, 8 * 40 * n + 64), 8)
    elif kind == "vfar":  # still exactly representable: n * 2^k + j/8
        v = Fraction(rng.choice([-1, 1]) * (8 * n * 2 ** rng.randint(10, VFAR_MAXK) + rng.randint(0, 8 * n)), 8)
    elif kind == "edge":
        v = Fraction(rng.choice([0, 8 * n - 8, 8 * n - 4, 8 * n, -4]), 8)
    else:
        v = Fraction(rng.randint(-8, 8 * n + 8), 8)
    if not exact and kind == "frac":
        v = Fraction(rng.uniform(-1.0, n + 1.0))  # a generic double
    return kind, v


def f32_exact(v):
    return Fraction(float(np.float32(float(v)))) == Fraction(v)


def gen_case(rng, kernel=None, exact=True, small=False, dyadic=None, cmode=None):
    """cmode: how the coordinate array is handed over - "f64" (float64), "f32" (float32, all values exactly representable),
    "int" (integer dtype, integer positions, integer widths / params so that every argument is representable in it)."""
    nd = rng.choice([1, 1, 2, 2, 3])
    if cmode is None:
        cmode = rng.choice(["f64"] * 13 + ["int"] * 4 + ["f32"] * 3)
    if cmode != "f64":
        exact = True
    hi = 4 if (small or nd == 3) else 6
    grid = [rng.choice([1, 2, 3, 4, 5, 6][:hi]) for _ in range(nd)]
    if rng.random() < 0.25:
        grid[rng.randrange(nd)] = 1
    if nd >= 2 and rng.random() < 0.5 and len(set(grid)) == 1:
        grid[0] = grid[0] % hi + 1  # non-square grids expose axis pairing
    batch = rng.choice([[], [], [2], [1], [2, 2], [3]]) if not small else rng.choice([[], [], [2]])
    pts = rng.choice([[1], [2], [3], [4], [2, 2], [5], [1, 3]]) if not small else rng.choice([[1], [2], [3], [2, 2]])
    npts = int(np.prod(pts))
    kernel = kernel or rng.choice(["spline", "spline", "kaiser_bessel"])
    kinds, coord = [], []
    for j in range(npts):
        row = []
        for d in range(nd):
            k, v = gen_coord(rng, grid[d], exact, integer=(cmode == "int"))
            if cmode == "f32" and not f32_exact(v):
                k, v = "int", Fraction(rng.randint(-1, grid[d]))
            kinds.append(k)
            row.append(v)
        coord.append(row)
    if npts >= 2 and rng.random() < 0.4:  # duplicate coordinates
        a, b = rng.sample(range(npts), 2)
        coord[b] = list(coord[a])
        if rng.random() < 0.5:  # same cell through the wrap
            d = rng.randrange(nd)
            coord[b][d] = coord[a][d] + grid[d] * rng.choice([-2, -1, 1, 3])
            if cmode == "f32" and not f32_exact(coord[b][d]):
                coord[b][d] = coord[a][d]
        kinds.append("dup")
    if dyadic is None:
        dyadic = rng.random() < 0.6
    wpool = DYADIC_WIDTHS if (dyadic and kernel == "spline") else WIDTHS
    if cmode == "int":
        wpool = [w for w in wpool if w.denominator == 1] if (dyadic and kernel == "spline") else INT_WIDTHS
    if not exact and rng.random() < 0.3:
        wpool = wpool + [Fraction(rng.uniform(0.6, 5.0))]
    if rng.random() < 0.5:
        width = ["s", q_of(rng.choice(wpool))]
    else:
        width = ["l", [q_of(rng.choice(wpool)) for _ in range(nd)]]
        if nd >= 2 and len(set(map(tuple, width[1]))) == 1:  # make per-axis widths really differ
            width[1][0] = q_of(rng.choice([w for w in wpool if q_of(w) != width[1][1]] or wpool))
    if kernel == "spline":
        if rng.random() < 0.5:
            param = ["s", q_of(rng.choice([0, 1, 2]))]
        else:
            param = ["l", [q_of(rng.choice([0, 1, 2])) for _ in range(nd)]]
            if nd >= 2 and len(set(map(tuple, param[1]))) == 1:
                param[1][0] = q_of((param[1][1][0] + 1) % 3)
    else:
        betas = {"f64": BETAS, "f32": BETAS_F32, "int": BETAS_INT}[cmode]
        if rng.random() < 0.6:
            param = ["s", q_of(rng.choice(betas))]
        else:
            param = ["l", [q_of(rng.choice(betas)) for _ in range(nd)]]
    op = rng.choice(["interp", "grid"])
    cplx = rng.random() < 0.5
    c = dict(op=op, nd=nd, batch=batch, grid=grid, pts=pts, kernel=kernel, cplx=cplx,
             coord=[q_of(v) for row in coord for v in row], width=width, param=param,
             int_args=rng.random() < 0.3, kinds=sorted(set(kinds)))
    add_variant(rng, c, cmode)
    return c


def add_variant(rng, c, cmode="f64"):
    """how the same mathematical request is handed to sigpy: coordinate dtype, data dtype, memory layout of both arrays,
    magnitude of the data, Python type of width / param, list|tuple for gridding's shape.  None of these is part of the
    documented sum, so the expected result does not depend on them."""
    nd = c["nd"]
    vals = [fr(q) for q in c["coord"]]
    c["cdtype"] = "float64"
    if cmode == "int" and all(v.denominator == 1 for v in vals):
        m = max([0] + [abs(int(v)) for v in vals])
        pool = ["int64"] + (["int32"] if nd <= 2 else []) + (["int16"] if nd == 1 else [])
        pool = [t for t in pool if m < INT_RANGE[t]]
        c["cdtype"] = rng.choice(pool)
    elif cmode == "f32" and all(f32_exact(v) for v in vals):
        c["cdtype"] = "float32"
    plain = c["cdtype"] == "float64"
    r = rng.random()
    if plain and nd <= 2 and r < 0.16:  # one non-default thing at a time keeps the number of numba signatures bounded
        c["xlayout"] = rng.choice(["F", "strided", "neg"])
    elif plain and nd <= 2 and r < 0.32:
        c["clayout"] = rng.choice(["F", "strided", "neg"])
    elif plain and nd <= 2 and r < 0.44:
        if c["kernel"] == "spline" and not c["cplx"] and rng.random() < 0.35:
            c["xdtype"] = rng.choice(INTDATA)
            c["param"] = ["s", q_of(0)]  # order 0: every weight is 0 or 1, the documented sum is an integer at every step
        else:
            c["xdtype"] = "complex64" if c["cplx"] else "float32"
    if c.get("xdtype") is None and rng.random() < 0.12:
        c["xscale"] = rng.choice([-900, -60, 60, 400])
    c["argform"] = rng.choice(["py", "py", "np", "np32", "arr"])
    c["shape_tuple"] = rng.random() < 0.5


def gen_raster_case(rng):
    """search only: widths given to one or two decimals and coordinates on a decimal raster, or one ulp beside an exact
    tie: c +- W/2 then falls within a rounding error of a grid index (the sample sits (just) on the edge of the support)."""
    nd = rng.choice([1, 1, 2, 3])
    grid = [rng.choice([1, 2, 3, 5, 7, 9][: (4 if nd == 3 else 6)]) for _ in range(nd)]
    kernel = rng.choice(["kaiser_bessel", "kaiser_bessel", "spline"])
    style = rng.choice(["decimal", "decimal", "ulp"])
    if style == "decimal":
        wden = rng.choice([10, 10, 10, 100, 5, 20])
        ws = [Fraction(rng.randint(max(1, wden // 4), 6 * wden), wden) for _ in range(nd)]
    else:
        ws = [rng.choice(WIDTHS) for _ in range(nd)]
    if rng.random() < 0.5:
        ws = [ws[0]] * nd
    pts = rng.choice([[1], [2], [3], [4], [2, 2]])
    npts = int(np.prod(pts))
    coord = []
    directed = set(rng.sample(range(npts * nd), min(npts * nd, rng.choice([1, 1, 2, 3]))))  # few, so that the oracle can enumerate
    for j in range(npts):
        for d in range(nd):
            n, w = grid[d], ws[d]
            i = rng.randint(-2 * n - 2, 3 * n + 2)
            sgn = rng.choice([-1, 1])
            if j * nd + d not in directed:
                if style == "decimal":
                    v = float(Fraction(rng.randint(-20 * n, 40 * n), rng.choice([20, 10, 100])))
                else:
                    v = float(gen_coord(rng, n, True)[1])
            elif style == "decimal":
                if rng.random() < 0.85:
                    v = float(i + sgn * w / 2)  # the decimal tie; as doubles usually a near-tie
                else:
                    v = float(Fraction(rng.randint(-20 * n, 40 * n), rng.choice([20, 10, 100])))
            else:
                v = float(i + sgn * w / 2)  # exactly representable: an exact tie ...
                if rng.random() < 0.8:
                    v = float(np.nextafter(v, rng.choice([-np.inf, np.inf])))  # ... moved by one ulp
            coord.append(q_of(Fraction(v)))
    wq = [q_of(Fraction(float(w))) for w in ws]
    width = ["s", wq[0]] if len(set(map(tuple, wq))) == 1 and rng.random() < 0.7 else ["l", wq]
    if kernel == "spline":
        param = ["s", q_of(rng.choice([0, 0, 1, 2]))] if rng.random() < 0.6 else ["l", [q_of(rng.choice([0, 1, 2])) for _ in range(nd)]]
    else:
        param = ["s", q_of(rng.choice(BETAS))] if rng.random() < 0.6 else ["l", [q_of(rng.choice(BETAS)) for _ in range(nd)]]
    c = dict(op=rng.choice(["interp", "grid"]), nd=nd, batch=rng.choice([[], [], [2]]), grid=grid, pts=pts, kernel=kernel,
             cplx=rng.random() < 0.5, coord=coord, width=width, param=param, int_args=False,
             kinds=["near-tie:" + style], cdtype="float64", argform="py", shape_tuple=False)
    c["readable"] = dict(coord=[float(fr(q)) for q in coord], width=[float(fr(q)) for q in wq])  # for the human reader of a replay
    return c


def all_dyadic(c):
    """every weight of the spline is a dyadic rational with few bits: exact comparison is meaningful"""
    if c["kernel"] != "spline" or c.get("xdtype") in SINGLE:
        return False
    ws = [c["width"][1]] if c["width"][0] == "s" else c["width"][1]
    def p2(q):
        f = fr(q)
        return f.numerator == 1 or (f.denominator == 1 and f.numerator in (1, 2, 4))
    def dy(q):
        d = fr(q).denominator
        return d & (d - 1) == 0 and d <= 64
    return all(p2(w) for w in ws) and all(dy(q) for q in c["coord"])


def cmp_tol(c):
    """relative tolerance of the non-exact comparisons: float64 accumulation, or a single-precision output buffer"""
    return 2e-5 if c.get("xdtype") in SINGLE else 1e-10


def in_shape(c):
    return c["batch"] + (c["grid"] if c["op"] == "interp" else c["pts"])


def out_shape(c):
    return c["batch"] + (c["pts"] if c["op"] == "interp" else c["grid"])


def gen_data(rng, c):
    n = int(np.prod(in_shape(c)))
    return [[rng.randint(-9, 9), rng.randint(-9, 9) if c["cplx"] else 0] for _ in range(n)]


def np_data(c, x):
    """the *logical* input (float64 / complex128, C order); run_impl dresses it in the case's dtype / layout / magnitude"""
    a = np.array([complex(p, q) for p, q in x]) if c["cplx"] else np.array([float(p) for p, q in x])
    return a.reshape(in_shape(c))


def with_layout(a, layout):
    """an array with the same shape and values as `a` in the requested memory layout"""
    a = np.ascontiguousarray(a)
    if layout in (None, "C") or a.ndim == 0:
        return a
    if layout == "F":
        return np.asfortranarray(a)
    if layout == "strided":  # every second element of a larger buffer, along every axis
        big = np.full([2 * n + 1 for n in a.shape], 77, dtype=a.dtype)
        view = big[tuple(slice(1, 2 * n + 1, 2) for n in a.shape)]
        view[...] = a
        return view
    if layout == "neg":  # negative strides along every axis
        rev = tuple(slice(None, None, -1) for _ in a.shape)
        return np.ascontiguousarray(a[rev])[rev]
    raise ValueError(layout)


def dress(c, x):
    """logical input -> the array handed to sigpy (dtype, power-of-two magnitude, memory layout)"""
    x = np.asarray(x)
    e = c.get("xscale") or 0
    if e:
        x = x * (2.0 ** e)  # exact
    xd = c.get("xdtype")
    if xd in INTDATA:
        x = np.rint(x.real).astype(xd)
    elif xd in SINGLE:
        x = x.astype("complex64" if np.iscomplexobj(x) else "float32")
    return with_layout(x, c.get("xlayout"))


def undress(c, y):
    e = c.get("xscale") or 0
    y = np.asarray(y)
    return y * (2.0 ** -e) if e else y


def py_arg(c, v, as_param=False):
    """the Python value handed to sigpy for width / param"""
    form = c.get("argform", "py")
    def one(q):
        f = fr(q)
        if c["int_args"] and f.denominator == 1:
            return np.int64(int(f)) if form == "np" else int(f)
        if form == "np":
            return np.float64(float(f))
        if form == "np32" and f32_exact(f):
            return np.float32(float(f))
        return float(f)
    if v[0] == "s":
        return one(v[1])
    vals = [one(q) for q in v[1]]
    if form == "arr":
        return np.array(vals)
    return tuple(vals) if c["int_args"] else vals


def np_coord(c):
    vals = [fr(q) for q in c["coord"]]
    dt = c.get("cdtype", "float64")
    if dt.startswith("int"):
        a = np.array([int(v) for v in vals], dtype=dt)
    else:
        a = np.array([float(v) for v in vals], dtype=np.float64).astype(dt)
    return with_layout(a.reshape(c["pts"] + [c["nd"]]), c.get("clayout"))


class StateError(Exception):
    pass


def alt_kw(c, kw):
    """another valid parameter set (for the second live operator / the parameter sweep)"""
    def bump(v, f):
        if np.isscalar(v):
            return f(v)
        return [f(t) for t in v]
    k2 = dict(kw)
    k2["width"] = bump(kw["width"], lambda t: type(t)(t + 1))
    if c["kernel"] == "spline":
        k2["param"] = bump(kw["param"], lambda t: type(t)((int(t) + 1) % 3))
    else:
        k2["param"] = bump(kw["param"], lambda t: type(t)(t + 1))
    return k2


def run_impl(c, x, via_linop=False, op=None):
    """x: logical input.  via_linop: False = sp.interpolate / sp.gridding, True = linop.Interpolate / linop.Gridding,
    "H" = the adjoint of the *other* Linop, "seq" = one Linop object applied, then a second live Linop with other
    parameters and a function call with other parameters, then the first object again (both applications must agree)."""
    import sigpy as sp
    from sigpy import linop
    op = op or c["op"]
    coord = np_coord(c)
    kw = dict(kernel=c["kernel"], width=py_arg(c, c["width"]), param=py_arg(c, c["param"]))
    gshape = c["batch"] + c["grid"]
    if c.get("shape_tuple"):
        gshape = tuple(gshape)
    x = dress(c, np.array(x, copy=True))
    I, Gr = linop.Interpolate, linop.Gridding
    if via_linop == "H":
        A = (Gr(gshape, coord, **kw) if op == "interp" else I(gshape, coord, **kw)).H
        return undress(c, A(x))
    if via_linop == "seq":
        k2 = alt_kw(c, kw)
        A = (I if op == "interp" else Gr)(gshape, coord, **kw)
        B = (I if op == "interp" else Gr)(gshape, coord, **k2)
        y0 = np.array(A(x), copy=True)
        B(x)
        if op == "interp":
            sp.interpolate(x, coord, **k2)
        else:
            sp.gridding(x, coord, gshape, **k2)
        y1 = A(x)
        if y0.shape != y1.shape or not np.array_equal(y0, y1, equal_nan=True):
            raise StateError("second application of the same Linop differs from the first: %r vs %r" % (y0.ravel()[:6], y1.ravel()[:6]))
        return undress(c, y1)
    if op == "interp":
        if via_linop:
            return undress(c, I(gshape, coord, **kw)(x))
        return undress(c, sp.interpolate(x, coord, **kw))
    if via_linop:
        return undress(c, Gr(gshape, coord, **kw)(x))
    return undress(c, sp.gridding(x, coord, gshape, **kw))


def vsig(c):
    """the hand-over variant of a case (part of what makes two explored cases distinct)"""
    return tuple(c.get(k) for k in ("cdtype", "xdtype", "xlayout", "clayout", "xscale", "argform", "shape_tuple", "int_args"))


def model_line(c, x=None, what=None):
    what = what or c["op"]
    gsh = c["batch"] + c["grid"]
    csh = c["pts"] + [c["nd"]]
    base = "gsh=%s csh=%s coord=%s width=%s" % (L(gsh), L(csh), RL(fr(q) for q in c["coord"]), BC(c["width"]))
    if what in ("interp", "grid"):
        return "C07 %s %s param=%s x=%s" % (what, base, BC(c["param"]), CX(x))
    if what == "entries":
        return "C07 entries op=%s %s param=%s" % (c["op"], base, BC(c["param"]))
    if what == "tagged":
        return "C07 tagged op=%s %s" % (c["op"], base)
    raise ValueError(what)


def key_of(c, extra=""):
    return "C07:%s.%s%s" % (c["op"], "spline" if c["kernel"] == "spline" else "kb", extra)


def cnt(ctx, c):
    ctx.count("op:" + c["op"])
    ctx.count("kernel:" + c["kernel"])
    ctx.count("ndim:%d" % c["nd"])
    ctx.count("width:" + ("scalar" if c["width"][0] == "s" else "per-axis"))
    ctx.count("data:" + ("complex" if c["cplx"] else "real"))
    for k in c["kinds"]:
        ctx.count("coord:" + k)
    if 1 in c["grid"]:
        ctx.count("grid:length-1-axis")
    if c["batch"]:
        ctx.count("batch:%d-d" % len(c["batch"]))
    ctx.count("coord-dtype:" + c.get("cdtype", "float64"))
    if c.get("xdtype"):
        ctx.count("data-dtype:" + c["xdtype"])
    if c.get("xlayout"):
        ctx.count("data-layout:" + c["xlayout"])
    if c.get("clayout"):
        ctx.count("coord-layout:" + c["clayout"])
    if c.get("xscale"):
        ctx.count("data-magnitude:2^%d" % c["xscale"])
    ctx.count("arg-form:" + c.get("argform", "py") + ("+int" if c["int_args"] else ""))


def to_frac_array(a):
    a = np.asarray(a).ravel()
    if np.iscomplexobj(a):
        return [(Fraction(float(v.real)), Fraction(float(v.imag))) for v in a]
    return [(Fraction(float(v)), Fraction(0)) for v in a]


# ---- real kernels (used to weight the model's update structure for Kaiser–Bessel) ------------------
def real_kernel(kernel):
    from sigpy import interp
    f = interp._spline_kernel if kernel == "spline" else interp._kaiser_bessel_kernel
    return getattr(f, "py_func", f)


def tagged_weight(c, us):
    """product weight from the kernel arguments u_d (tag d = axis -d), multiplied in the code's order
    (outermost axis first), with sigpy's own kernel function."""
    K = real_kernel(c["kernel"])
    nd = c["nd"]
    ps = [c["param"][1]] * nd if c["param"][0] == "s" else c["param"][1]
    w = None
    for d in range(nd, 0, -1):  # axis -nd (outer loop) ... axis -1 (inner loop)
        u = float(us[d - 1])
        k = K(u, float(fr(ps[-d])))
        k = 0.0 if k is None else float(k)
        w = k if w is None else w * k
    return w


# ---- correspondence -----------------------------------------------------------------------------
def _values_stream(ctx, cases, stream):
    lines, meta = [], []
    for c in cases:
        x = gen_data(ctx.rng, c)
        lines.append(model_line(c, x))
        meta.append((c, x))
    replies = ctx.driver(lines)
    bad = 0
    for (c, x), ln, r in zip(meta, lines, replies):
        model = parse_values(r)
        exact = all_dyadic(c)
        for via in (False, True, ctx.rng.choice(["H", "seq"])):
            cnt(ctx, c)
            ctx.count("entry:" + {False: "function", True: "Linop", "H": "adjoint-of-dual-Linop", "seq": "Linop-reused-interleaved"}[via])
            ctx.count("compare:" + ("exact" if exact else "%g" % cmp_tol(c)))
            ctx.case((ln, via, vsig(c)), sample=dict(line=ln[:300], reply=r[:160], via_linop=via, variant=vsig(c)) if ctx.evaluations % 61 == 0 else None)
            try:
                y = run_impl(c, np_data(c, x), via_linop=via)
                impl = (list(y.shape), to_frac_array(y))
            except Exception as e:  # noqa
                impl = "err %s" % type(e).__name__
            ok = False
            if isinstance(model, tuple) and isinstance(impl, tuple) and model[0] == impl[0] and len(model[1]) == len(impl[1]):
                if exact:
                    ok = model[1] == impl[1]
                else:
                    mx = max([1.0] + [abs(float(a)) + abs(float(b)) for a, b in model[1]])
                    rt = cmp_tol(c)
                    ok = all(abs(float(a - p)) <= rt * mx and abs(float(b - q)) <= rt * mx
                             for (a, b), (p, q) in zip(model[1], impl[1]))
            if not ok:
                bad += 1
                ctx.disagree(stream, dict(case=c, x=x, via_linop=via),
                             impl if isinstance(impl, str) else (impl[0], [complex(float(a), float(b)) for a, b in impl[1]][:12]),
                             model if isinstance(model, str) else (model[0], ["%s+%sj" % (a, b) for a, b in model[1]][:12]))
    return bad


def impl_matrix(c, op=None):
    """matrix of the real function via basis inputs (rows: flattened output, cols: flattened input)"""
    op = op or c["op"]
    ish = c["batch"] + (c["grid"] if op == "interp" else c["pts"])
    n = int(np.prod(ish))
    cols = []
    for k in range(n):
        e = np.zeros(n)
        e[k] = 1.0
        cols.append(np.asarray(run_impl(c, e.reshape(ish), op=op)).ravel())
    return np.stack(cols, axis=1)


def model_matrix(c, ents, tagged):
    gsh = [int(np.prod(c["batch"]))] + c["grid"]
    psh = [int(np.prod(c["batch"])), int(np.prod(c["pts"]))]
    osh, ish = (psh, gsh) if c["op"] == "interp" else (gsh, psh)
    M = np.zeros((int(np.prod(osh)), int(np.prod(ish))))
    Mq = {}
    for d, s, w in ents:
        if len(d) != len(osh) or len(s) != len(ish) or any(not (0 <= a < b) for a, b in zip(d, osh)) \
                or any(not (0 <= a < b) for a, b in zip(s, ish)):
            return None, None
        r = int(np.ravel_multi_index(d, osh))
        k = int(np.ravel_multi_index(s, ish))
        if tagged:
            M[r, k] += tagged_weight(c, w)
        else:
            Mq[(r, k)] = Mq.get((r, k), 0) + w
    if not tagged:
        for (r, k), w in Mq.items():
            M[r, k] = float(w)
    return M, Mq


def _matrix_stream(ctx, cases, stream):
    lines = [model_line(c, what="entries" if c["kernel"] == "spline" else "tagged") for c in cases]
    replies = ctx.driver(lines)
    bad = bad_t = 0
    for c, ln, r in zip(cases, lines, replies):
        tagged = c["kernel"] != "spline"
        parsed = parse_entries(r, tagged)
        cnt(ctx, c)
        ctx.case(("matrix", ln, vsig(c)), sample=dict(line=ln[:300], reply=r[:160]) if ctx.evaluations % 37 == 0 else None)
        try:
            A = impl_matrix(c)
        except Exception as e:  # noqa
            A = "err %s" % type(e).__name__
        ok = False
        Mdesc = parsed if isinstance(parsed, str) else None
        if not isinstance(parsed, str) and not isinstance(A, str):
            head, ents = parsed
            M, Mq = model_matrix(c, ents, tagged)
            if M is not None and M.shape == A.shape and (tagged or "acc=1" in head):
                if all_dyadic(c):
                    ok = np.array_equal(M, A)
                    ctx.count("matrix:exact")
                else:
                    ok = bool(np.all(np.abs(M - A) <= cmp_tol(c) * max(1.0, np.abs(M).max())))
                    ctx.count("matrix:%g" % cmp_tol(c))
            Mdesc = None if M is None else M.round(12).tolist()
        if not ok:
            bad += 1
            ctx.disagree(stream, dict(case=c, x=None, via_linop=False, matrix=True),
                         A if isinstance(A, str) else A.round(12).tolist(), Mdesc)
        # transposition, bitwise (the model's two lists are literally each other's swap: same order, same weights)
        if not isinstance(A, str):
            try:
                other = "grid" if c["op"] == "interp" else "interp"
                B = impl_matrix(c, op=other)
                same = B.shape == A.T.shape and np.array_equal(B, A.T)
            except Exception:  # noqa
                same = False
            ctx.case(("transpose", ln, vsig(c)))
            if not same:
                bad_t += 1
                ctx.disagree(stream + ".transpose", dict(case=c, x=None, via_linop=False, transpose=True),
                             "gridding matrix != interpolate matrix^T (bitwise)", "equal")
    return bad, bad_t


def _kernel_stream(ctx):
    K = real_kernel("spline")
    xs = [Fraction(k, 16) for k in range(-20, 21)] + [Fraction(1, 3), Fraction(-1, 3), Fraction(2, 3), Fraction(-2, 3),
                                                       Fraction(1, 3) + Fraction(1, 2 ** 30), Fraction(1, 3) - Fraction(1, 2 ** 30)]
    xs += [Fraction(ctx.rng.randint(-1200, 1200), 1000) for _ in range(40)]
    lines, meta = [], []
    for x in xs:
        for o in (0, 1, 2):
            lines.append("C07 kernel x=%s order=%d" % (R(x), o))
            meta.append((x, o))
    bad = 0
    for (x, o), ln, r in zip(meta, lines, ctx.driver(lines)):
        ctx.case(("kernel", ln))
        ctx.count("kernel-fn:order%d" % o)
        got = K(float(x), float(o))
        try:
            want = Fraction(r[3:]) if r.startswith("ok ") else None
        except ValueError:
            want = None
        d = x.denominator
        if want is None or got is None:
            ok = False
        elif d & (d - 1) == 0:
            ok = Fraction(float(got)) == want
        else:
            ok = abs(float(got) - float(want)) <= 1e-14
        if not ok:
            bad += 1
            ctx.disagree("kernel", dict(kernel_x=q_of(x), order=o), got, r)
    return bad


def correspond(ctx):
    ctx.rule = ("case = (op interp|grid, ndim 1-3, batch shape, grid shape incl. length-1 axes, points shape, kernel, "
                "coordinates drawn per component from {k/8, integer, half-integer, negative, far outside, grid edge, "
                "very far (n*2^k + j/8, k<=27), duplicate / wrapped duplicate}, width scalar|per-axis from {1/2,1,3/2,2,5/2,3,7/2,4,5,6}, param scalar|per-axis, "
                "real|Gaussian-integer data, entry point function|Linop|adjoint of the dual Linop|one Linop reused with a second live Linop "
                "and a parameter sweep interleaved) x hand-over variant (coordinate dtype float64|float32|int64|int32|int16 with every "
                "argument representable in it, data dtype float64/complex128|float32/complex64|int (order-0 spline), C|Fortran|"
                "strided|negative-stride layout of data or coordinates, data scaled by 2^-900..2^400, width/param as Python|numpy "
                "scalars, list|tuple|ndarray, shape as list|tuple); distinct by protocol line + entry point + variant; "
                "all are non-trivial (non-empty windows for at least the widths >= 1, labelled integer data)")
    quick = ctx.tier == "quick"
    rng = ctx.rng
    nv = 200 if quick else 1200
    cases = [gen_case(rng, kernel="spline") for _ in range(nv)]
    bad = _values_stream(ctx, cases, "values")
    ctx.oblige("correspondence:C07.values", "correspondence", bad == 0,
               "%d disagreements (spline; model interpolate/gridding incl. wrappers vs sp.interpolate/sp.gridding and Linops)" % bad)
    nm = 80 if quick else 500
    mcases = [gen_case(rng, small=True) for _ in range(nm)]
    bad, bad_t = _matrix_stream(ctx, mcases, "matrix")
    ctx.oblige("correspondence:C07.matrix", "correspondence", bad == 0,
               "%d disagreements (implementation matrix via basis inputs vs generated update lists; "
               "Kaiser-Bessel: update structure from the model, weights from sigpy's kernel)" % bad)
    ctx.oblige("correspondence:C07.transpose-bitwise", "correspondence", bad_t == 0,
               "%d cases where the gridding matrix is not bitwise the transpose of the interpolate matrix" % bad_t)
    bad = _kernel_stream(ctx)
    ctx.oblige("correspondence:C07.spline-kernel", "correspondence", bad == 0,
               "%d disagreements Gen.splineKernel vs _spline_kernel" % bad)
    ctx.traces = ctx.evaluations
    ctx.trusted += [
        "harness/translate/gen_c07.py InterpWrappers: statement-by-statement translation of interpolate/gridding "
        "(anything outside its subset is a broken obligation); py2lean Kernel/formula for the loop nests",
        "Model/C07Py.lean: Python semantics of l[k], l[:k], l[k:], l * n, reshape legality, row-major a[i, j] "
        "in which the generated wrappers are written (exercised by the correspondence streams)",
    ]
    ctx.assumptions += [
        "Python wrappers interpolate/gridding are translator-generated (Gen.InterpWrappers) and proved to run the D-dimensional "
        "loop nest on the flattened problem (wrapper_spec, gridding_wrapper_spec, *_value_spec); modelled by hand: the Python "
        "list/slice/reshape semantics they are written in (Model/C07Py.lean), the numpy backend branch `xp == np` only, the "
        "domain guard 1 <= ndim <= 3, ndim <= rank (Model/C07.lean)",
        "numpy reshape of a C-contiguous array keeps the row-major flat data; xp.zeros gives a zero-initialised buffer",
        "float64 rounding of coordinates/weights is not modelled: exact streams use dyadic data where float arithmetic is exact; "
        "in the search a tap whose exact distance to the window edge is non-zero and below 4 ulp of the operands is accepted "
        "either way (excluded, or included with the edge value K(+-1)); non-finite outputs are never accepted",
        "Kaiser-Bessel kernel has no Rat model: its values are measured against scipy.special.i0 by the search oracle (2e-7 relative per factor)",
        "numba compiles the Python loop nests faithfully (range over float bounds truncates integral floats)",
    ]


# ---- the property's own oracle: the documented sums, evaluated directly ------------------------------
def ref_kernel(kernel, u, p):
    a = abs(u)
    if a > 1:
        return 0.0
    if kernel == "spline":
        if p == 0:
            return 1.0
        if p == 1:
            return 1.0 - a
        if p == 2:
            return 9.0 / 8.0 * (1.0 - a) ** 2 if a > 1.0 / 3.0 else 3.0 / 4.0 * (1.0 - 3.0 * u * u)
        raise ValueError("order")
    from scipy.special import i0
    return float(i0(p * math.sqrt(max(0.0, 1.0 - u * u))))


AMB_ULPS = 4.0


def reference(c, x, flips=frozenset(), amb=None):
    """y[j] = sum_{i : |i_d - c_jd| <= W_d/2 for all d} prod_d K_d((i_d - c_jd)/(W_d/2)) x[i mod n]; gridding = transpose,
    contributions add.  Window membership is decided in exact rational arithmetic on the given doubles.

    A tap whose exact distance to the window edge ||i - c| - W/2| is non-zero but below AMB_ULPS ulp of the operands
    cannot be decided by float arithmetic (c + W/2 rounds onto / off the index): it is recorded in `amb` as (j, d, i)
    and, when listed in `flips`, taken the other way round (if included, with the edge value K(+-1))."""
    nd, grid = c["nd"], c["grid"]
    W = [fr(c["width"][1])] * nd if c["width"][0] == "s" else [fr(q) for q in c["width"][1]]
    P = [float(fr(c["param"][1]))] * nd if c["param"][0] == "s" else [float(fr(q)) for q in c["param"][1]]
    npts = int(np.prod(c["pts"]))
    B = int(np.prod(c["batch"]))
    co = [fr(q) for q in c["coord"]]
    eps = Fraction(1, 2 ** 23) if c.get("cdtype") == "float32" else Fraction(1, 2 ** 52)
    xin = np.asarray(x)
    if c["op"] == "interp":
        xin = xin.reshape([B] + grid)
        out = np.zeros([B, npts], dtype=xin.dtype)
    else:
        xin = xin.reshape([B, npts])
        out = np.zeros([B] + grid, dtype=xin.dtype)
    scale = np.zeros(out.shape)
    for j in range(npts):
        per_axis = []
        for d in range(nd):
            cj, w = co[j * nd + d], W[d]
            lo, hi = math.floor(cj - w / 2) - 1, math.ceil(cj + w / 2) + 1
            lst = []
            for i in range(lo, hi + 1):
                delta = abs(i - cj) - w / 2
                inside = delta <= 0
                if delta != 0 and abs(delta) <= AMB_ULPS * eps * max(abs(cj), abs(i), w / 2):
                    if amb is not None:
                        amb.append((j, d, i))
                    if (j, d, i) in flips:
                        inside = not inside
                if inside:
                    u = float(i - cj) / float(w / 2)
                    u = max(-1.0, min(1.0, u))
                    lst.append((i % grid[d], ref_kernel(c["kernel"], u, P[d])))
            per_axis.append(lst)
        for combo in itertools.product(*per_axis):
            idx = tuple(i for i, _ in combo)
            wt = 1.0
            for _, k in combo:
                wt *= k
            if c["op"] == "interp":
                out[:, j] += wt * xin[(slice(None),) + idx]
                scale[:, j] += abs(wt) * np.abs(xin[(slice(None),) + idx])
            else:
                out[(slice(None),) + idx] += wt * xin[:, j]
                scale[(slice(None),) + idx] += abs(wt) * np.abs(xin[:, j])
    return out.reshape(out_shape(c)), scale.reshape(out_shape(c))


def tolerance(c, scale):
    if c.get("xdtype") in SINGLE:  # single-precision output buffer: every accumulation rounds at 6e-8
        return 2e-5 * (1.0 + scale)
    if c["kernel"] == "spline":
        return 1e-12 * (1.0 + scale)
    return 2.5e-7 * c["nd"] * scale + 1e-12 * (1.0 + scale)


def matches(c, got, xa, flips=frozenset(), amb=None):
    want, scale = reference(c, xa, flips, amb)
    if list(got.shape) != list(want.shape):
        return False, want, scale
    with np.errstate(all="ignore"):
        ok = bool(np.all(np.abs(got - want) <= tolerance(c, scale)))
    return ok, want, scale


def check_oracle(ctx, c, x, via, origin, key=None):
    """key: report under this finding key instead of the per-op/kernel one (used for separately tracked input classes)"""
    def kk(suffix=""):
        return key or key_of(c, suffix)
    xa = np_data(c, x)
    try:
        got = np.asarray(run_impl(c, xa, via_linop=via))
    except Exception as e:  # a valid request must work
        ctx.fail(kk(".raises"), "%s raised %s on a valid request" % (c["op"], type(e).__name__),
                 dict(case=c, x=x, via_linop=via), observed=repr(e), expected="result", origin=origin)
        return False
    amb = []
    ok, want, scale = matches(c, got, xa, amb=amb)
    if list(got.shape) != list(want.shape):
        ctx.fail(kk(".shape"), "%s output shape differs from batch_shape + pts/grid shape" % c["op"],
                 dict(case=c, x=x, via_linop=via), observed=list(got.shape), expected=list(want.shape), origin=origin)
        return False
    if not np.all(np.isfinite(got)):  # finite data, finite weights: never acceptable, whichever way an edge tap is decided
        k = int(np.argmin(np.isfinite(got).ravel()))
        ctx.fail(kk(".nonfinite"), "%s (%s) returned a non-finite value for finite input" % (c["op"], c["kernel"]),
                 dict(case=c, x=x, via_linop=via),
                 observed=dict(flat_index=k, got=str(got.ravel()[k]), all=[str(v) for v in got.ravel()[:24]]),
                 expected=dict(want=str(want.ravel()[k]), all=[str(v) for v in want.ravel()[:24]]), origin=origin)
        return False
    if not ok and amb:
        amb = sorted(set(amb))
        ctx.count("oracle:edge-tap-within-rounding")
        if len(amb) <= 8:
            for r in range(1, len(amb) + 1):
                for sub in itertools.combinations(amb, r):
                    if matches(c, got, xa, frozenset(sub))[0]:
                        ctx.count("oracle:edge-tap-decided-by-rounding")
                        return True
        else:
            ctx.count("oracle:too-many-edge-taps-skipped")
            return True
    if not ok:
        err = np.abs(got - want)
        tol = tolerance(c, scale)
        k = int(np.argmax(err - tol))
        ctx.fail(kk(), "%s (%s) differs from the documented kernel sum" % (c["op"], c["kernel"]),
                 dict(case=c, x=x, via_linop=via),
                 observed=dict(flat_index=k, got=str(got.ravel()[k]), all=[str(v) for v in got.ravel()[:24]]),
                 expected=dict(want=str(want.ravel()[k]), tol=float(tol.ravel()[k]), all=[str(v) for v in want.ravel()[:24]]),
                 origin=origin)
        return False
    return True


def check_transpose(ctx, c, origin):
    """gridding is the transpose of interpolate with exactly the same weights (matrix entries agree to rounding)"""
    try:
        A = impl_matrix(c, op="interp")
        Bm = impl_matrix(c, op="grid")
    except Exception as e:  # noqa
        ctx.fail(key_of(c, ".raises"), "basis evaluation raised %s" % type(e).__name__,
                 dict(case=c, x=None, via_linop=False, transpose=True), observed=repr(e), expected="matrices", origin=origin)
        return False
    tol = 1e-12 * max(1.0, np.abs(A).max())
    if Bm.shape != A.T.shape or not np.all(np.abs(Bm - A.T) <= tol):
        ctx.fail("C07:transpose.%s" % ("spline" if c["kernel"] == "spline" else "kb"),
                 "gridding is not the transpose of interpolate",
                 dict(case=c, x=None, via_linop=False, transpose=True),
                 observed=Bm.round(12).tolist(), expected=A.T.round(12).tolist(), origin=origin)
        return False
    return True


def check_kb_function(ctx, origin):
    """the Kaiser-Bessel kernel function itself: I0(beta sqrt(1-u^2)) on |u| <= 1, 0 outside"""
    from scipy.special import i0
    K = real_kernel("kaiser_bessel")
    ok = True
    for beta in BETAS + [ctx.rng.uniform(0, 25) for _ in range(6)]:
        for u in [-1.0, 1.0, 0.0, 0.5, -0.25] + [ctx.rng.uniform(-1, 1) for _ in range(10)] + [1.0000001, -1.5, 2.0]:
            try:
                got = K(u, beta)
                got = None if got is None else float(got)
            except Exception:  # noqa  (e.g. the pure-Python kernel going complex outside the support)
                got = None
            want = float(i0(beta * math.sqrt(1 - u * u))) if abs(u) <= 1 else 0.0
            ctx.case(("kb-fn", u, beta))
            if got is None or not abs(got - want) <= 2.5e-7 * abs(want) + 1e-300:
                ctx.fail("C07:kaiser_bessel_kernel", "Kaiser-Bessel kernel value differs from I0(beta*sqrt(1-u^2)) by more than 2.5e-7 relative",
                         dict(kb_u=u, kb_beta=beta), observed=None if got is None else float(got), expected=want, origin=origin)
                ok = False
    return ok


def search(ctx, budget):
    rng = ctx.rng
    # 1. replay disagreeing cases first
    for d in ctx.disagreements[:200]:
        cc = d["case"]
        if "case" not in cc:
            continue
        c = cc["case"]
        if cc.get("transpose") or cc.get("matrix"):
            check_transpose(ctx, c, "disagreement")
            for bx in basis_inputs(c):
                if not check_oracle(ctx, c, bx, False, "disagreement"):
                    break
        else:
            check_oracle(ctx, c, cc["x"], cc["via_linop"], "disagreement")
    check_kb_function(ctx, "search")
    # 2. budgeted search: dyadic and generic-double coordinates, both kernels, every hand-over variant
    n = int(500 * budget)
    for k in range(n):
        c = gen_case(rng, exact=(k % 2 == 0))
        x = gen_data(rng, c)
        via = rng.choice([False, False, False, True, True, "H", "seq"])
        cnt(ctx, c)
        ctx.case(("oracle", model_line(c, x), via, vsig(c)))
        check_oracle(ctx, c, x, via, "search")
    # 3. samples (just) on the edge of the support: decimal widths / raster coordinates, one ulp beside an exact tie
    for k in range(int(400 * budget)):
        c = gen_raster_case(rng)
        x = gen_data(rng, c)
        via = rng.choice([False, False, True])
        cnt(ctx, c)
        ctx.case(("oracle-edge", model_line(c, x), via))
        check_oracle(ctx, c, x, via, "search")
    for k in range(int(40 * budget)):
        c = gen_case(rng, small=True, exact=(k % 2 == 0)) if k % 4 else gen_raster_case(rng)
        ctx.case(("oracle-transpose", model_line(c, what="entries"), vsig(c)))
        check_transpose(ctx, c, "search")
    # 4. integer-dtype coordinates with a fractional width / Kaiser-Bessel beta (tracked under its own key)
    for k in range(int(12 * budget)):
        c = gen_case(rng, cmode="int", small=True)
        if c["cdtype"] == "float64":
            continue
        if c["kernel"] == "spline" or k % 2:
            c["width"] = ["s", q_of(rng.choice([Fraction(5, 2), Fraction(7, 2), Fraction(3, 2)]))]
        else:
            c["param"] = ["s", q_of(rng.choice([2.34, 9.14, 13.855]))]
        c["int_args"] = False
        x = gen_data(rng, c)
        cnt(ctx, c)
        ctx.count("coord:int-dtype+fractional-width/param")
        ctx.case(("oracle-int-frac", model_line(c, x)))
        check_oracle(ctx, c, x, False, "search", key="C07:int-coord-dtype:fractional-width-or-param")
    # 5. coordinates 2^31 and more grid units away (tracked under its own key)
    for k in range(int(8 * budget)):
        c = beyond_int32_case(rng)
        x = gen_data(rng, c)
        cnt(ctx, c)
        ctx.case(("oracle-beyond-int32", model_line(c, x)))
        check_oracle(ctx, c, x, False, "search", key="C07:coord-magnitude>=2^31")


def beyond_int32_case(rng):
    """a plain 1-D / 2-D request whose coordinates lie 2^31 .. 2^40 grid units outside the grid (exactly representable)"""
    c = gen_case(rng, small=True, cmode="f64")
    while c["nd"] == 3:
        c = gen_case(rng, small=True, cmode="f64")
    nd, npts = c["nd"], int(np.prod(c["pts"]))
    co = []
    for j in range(npts):
        for d in range(nd):
            n = c["grid"][d]
            co.append(q_of(Fraction(rng.choice([-1, 1]) * (8 * n * 2 ** rng.randint(31, 40) + rng.randint(0, 8 * n)), 8)))
    c["coord"] = co
    c["kinds"] = ["beyond-2^31"]
    for k in ("xlayout", "clayout", "xdtype", "xscale"):
        c.pop(k, None)
    return c


def basis_inputs(c):
    n = int(np.prod(in_shape(c)))
    for k in range(n):
        x = [[0, 0] for _ in range(n)]
        x[k] = [1, 0]
        yield x


def replay(path):
    r = json.load(open(path))
    print(json.dumps(r, indent=1)[:3000])
    if r.get("kind") != "failing-input":
        return 0
    cc = r["case"]
    ctx = common.Ctx(PROPERTY, "quick", 0)
    if "kb_u" in cc:
        from scipy.special import i0
        try:
            got = real_kernel("kaiser_bessel")(cc["kb_u"], cc["kb_beta"])
            got = None if got is None else float(got)
        except Exception as e:  # noqa
            print("kernel raised", repr(e))
            got = None
        want = float(i0(cc["kb_beta"] * math.sqrt(1 - cc["kb_u"] ** 2))) if abs(cc["kb_u"]) <= 1 else 0.0
        ok = got is not None and abs(got - want) <= 2.5e-7 * abs(want) + 1e-300
        print("kernel:", got, "I0:", want)
    elif cc.get("transpose"):
        ok = check_transpose(ctx, cc["case"], "replay")
    else:
        c = cc["case"]
        ok = check_oracle(ctx, c, cc["x"], cc["via_linop"], "replay")
        if c["kernel"] == "spline":
            print("model:", ctx.driver([model_line(c, cc["x"])])[0][:400])
        for f in ctx.failures[:1]:
            print("observed:", f["observed"], "\nexpected:", f["expected"])
    print("replay:", "property holds on this input" if ok else "property FAILS on this input")
    return 0 if ok else 1
