"""C02 — operators are linear over C, deterministic, and never mutate inputs.

Lean side: effect/alias IR + `noMutation_sound` (Props/C02.lean); per-function obligations in the generated
Gen/EffectsOk.lean (translator harness/translate/gen_c02.py); `denote_linear`, `conj_sandwich_linear`,
`history_determinism`.

Runtime stream (on the REAL code; validates the IR's numpy table and is the property's own oracle):
every Linop class / expression tree, every Prox class, every public array function of sigpy and
sigpy.mri.util, LinearLeastSquares set-ups:
  * byte snapshots of all ndarray arguments and of every array captured by the object (recursive walk)
    before/after each call;
  * `np.shares_memory(result, arg)` against the alias claim of the Lean analysis (driver: `C02 summary f`);
  * repeated application (same input, other input in between, after `.H`/`.N` were built and applied):
    outputs compared bitwise; an earlier output must not be overwritten by a later application;
  * linearity A(a x + y) = a A(x) + A(y) with complex (Gaussian-integer) a, x, y: EXACT where the
    arithmetic is exact, 2e-4 (complex64 paths) / 1e-10 (complex128) relative otherwise.
"""
import json
import random
import warnings

import numpy as np

from harness import common
from harness.translate import gen as G
from harness.translate import gen_c02

PROPERTY = "C02"
LEAN_MODULES = ["SigpyVerif.Props.C02", "SigpyVerif.Props.C02Tree", "SigpyVerif.Props.C02Leaves", "SigpyVerif.Gen.EffectsOk"]
STATIC_THEOREMS = ["SigpyVerif.C02." + t for t in [
    "analyze_sound", "noMutation_sound", "noMutation_sound_entry", "ret_sound", "ret_fresh_disjoint",
    "denote_linear", "conj_sandwich_linear", "conj_half_antilinear", "conj_half_not_linear",
    "history_determinism", "history_equal_inputs_equal_outputs", "caching_operator_not_deterministic",
    "writesOnly_sound", "writesOnly_nil",
    # Props/C02Leaves.lean: no leaf hypothesis; imported leaf classes; histories of operator algebra
    "act_of_denote", "act_linear", "tree_denotation_function", "tree_linear_no_leaf_hypothesis", "denote_ext",
    "ext_tree_linear", "conv_leaf_linear", "wave_leaf_linear", "matmul_leaf_linear", "conv1At_linear_data",
    "conv1At_linear_filter", "fft_leaf_linear", "build2_prefix", "stepAlg_prefix", "stepAlg_keeps",
    "algebra_history_deterministic", "algebra_history_equal_objects", "algebra_history_outputs_linear",
    # Props/C02Tree.lean: whole operator trees of the C01 expression language
    "applyF_linear", "lin_comp", "lin_add", "lin_conj", "denote_comp_act", "denote_add_act", "denote_conj_act",
    "denote_hstack_act", "denote_vstack_act", "denote_diag_act", "tree_linear", "tree_additive_homogeneous",
    "tree_conj_linear_complex", "tree_deterministic", "treeApp_wellBehaved", "tree_history_deterministic",
]]
# functions/methods that MUST have a kernel-checked `noMutation prog = true` obligation.  A function that
# disappears from the translator's output or stops checking is a broken obligation, never a silent drop.
EXPECTED_OK = [
    "util.vec", "util.split", "util.rss", "util.resize", "util.flip", "util.circshift", "util.downsample",
    "util.upsample", "util.dirac", "util.randn", "util.triang", "util.hanning", "util.leja", "util.prod",
    "fourier.fft", "fourier.ifft", "fourier.nufft", "fourier.nufft_adjoint", "fourier.estimate_shape",
    "fourier.toeplitz_psf", "fourier._fftc", "fourier._ifftc", "fourier._scale_coord",
    "interp.interpolate", "interp.gridding",
    "conv.convolve", "conv.convolve_data_adjoint", "conv.convolve_filter_adjoint", "conv._convolve",
    "conv._convolve_data_adjoint", "conv._convolve_filter_adjoint",
    "block.array_to_blocks", "block.blocks_to_array", "wavelet.fwt", "wavelet.iwt",
    "thresh.soft_thresh", "thresh.hard_thresh", "thresh.l1_proj", "thresh.l2_proj", "thresh.linf_proj",
    "thresh.psd_proj",
    "mri.util.get_cov", "mri.util.whiten", "mri.util.tseg_off_res_b_ct", "mri.util.apply_tseg",
    "linop.Linop.apply", "prox.Prox.__call__",
] + ["linop.%s._apply" % c for c in [
    "Identity", "ToDevice", "AllReduceAdjoint", "Conj", "Add", "Compose", "Hstack", "Vstack", "Diag", "Reshape",
    "Transpose", "FFT", "IFFT", "MatMul", "RightMatMul", "Multiply", "Interpolate", "Gridding", "Resize", "Flip",
    "Downsample", "Upsample", "Circshift", "Wavelet", "InverseWavelet", "Sum", "Tile", "ArrayToBlocks",
    "BlocksToArray", "NUFFT", "NUFFTAdjoint", "ConvolveData", "ConvolveDataAdjoint", "ConvolveFilter",
    "ConvolveFilterAdjoint", "Slice", "Embed"]] + ["prox.%s._prox" % c for c in [
    "Conj", "NoOp", "Stack", "UnitaryTransform", "L2Reg", "L2Proj", "LInfProj", "PsdProj", "L1Reg", "L1Proj",
    "BoxConstraint"]]


def _thm(key, suffix="_ok"):
    return "SigpyVerif.Gen.Effects.prog_" + key.replace(".", "_") + suffix


# apps (sigpy/app.py, sigpy/mri/app.py): obligation `writesOnly prog [self, in/out solution / own work arrays] = true`
EXPECTED_OK += ["app.LinearLeastSquares." + m for m in [
    "_get_ConjugateGradient", "_get_GradientMethod", "_get_GradientMethod.gradf", "_get_PrimalDualHybridGradient",
    "_get_ADMM", "_get_ADMM.minL_x", "_get_ADMM.minL_v", "objective"]] + ["mri.app." + m for m in [
    "_estimate_weights", "SenseRecon.__init__", "L1WaveletRecon.__init__", "L1WaveletRecon.__init__.g",
    "TotalVariationRecon.__init__", "TotalVariationRecon.__init__.g", "JsenseRecon._get_data", "JsenseRecon._get_vars",
    "JsenseRecon._get_alg", "JsenseRecon._get_alg.min_mps_ker", "JsenseRecon._get_alg.min_img_ker", "JsenseRecon._output",
    "EspiritCalib.__init__", "EspiritCalib.__init__.forward", "EspiritCalib.__init__.normalize", "EspiritCalib._output"]]
THEOREMS = list(STATIC_THEOREMS) + [_thm(k) for k in EXPECTED_OK]
gen_c02.MUST_BE_CLEAN = set(EXPECTED_OK)     # these keep their own `_ok` obligation whatever their name
_META = {}


def translate(ctx):
    # Block/UtilFormulas/LinopFormulas/Interp: imported (through Model/C01) by Props/C02Tree
    # LinopAdjoint / Conv* / Fourier / C10Formulas: imported (through Props/C01Ext, C01Fft, C01Wave) by Props/C02Leaves
    G.regenerate(ctx, ["Effects", "EffectsOk", "Block", "UtilFormulas", "LinopFormulas", "Interp", "LinopAdjoint",
                       "ConvFormulas", "ConvWiring", "ConvLinops", "ConvParams", "Fourier", "C10Formulas"])
    g = gen_c02._LAST.get("gen")
    if g is None:
        return
    _META["gen"] = g
    have = set(gen_c02.ok_keys(g))
    # obligations for functions that are new in the source are checked too
    for k in sorted(have - set(EXPECTED_OK)):
        t = _thm(k)
        if t not in THEOREMS:
            THEOREMS.append(t)
    for k in g.order:
        if g.funcs[k][2] is None:
            t = "SigpyVerif.Gen.Effects.summ_" + k.replace(".", "_") + "_eq"
            if t not in THEOREMS:
                THEOREMS.append(t)
    missing = [k for k in EXPECTED_OK if k not in have]
    ctx.oblige("translate:effects:coverage", "translate", not missing,
               "in-scope functions without an IR program / obligation: %s" % missing)
    ctx.notes.append("needsRuntime (analysis cannot prove clean; runtime stream only): %s" % json.dumps(gen_c02.NEEDS_RUNTIME))
    ctx.notes.append("in place by documented contract: %s" % json.dumps(gen_c02.INPLACE_BY_CONTRACT))
    pi = gen_c02.private_inplace(g)
    if pi:
        ctx.notes.append("new private helpers that write a parameter (no `_ok` obligation of their own; every call site uses "
                         "their summary, tied to their analysis by summ_<f>_eq): %s" % json.dumps(pi))
    ctx.notes.append("apps without an IR program (runtime stream only): %s" % json.dumps(gen_c02.APP_NEEDS_RUNTIME))
    ctx.notes.append("app obligations (writesOnly prog [allowed] = true, sound by writesOnly_sound): allowed origins per class %s; "
                     "trusted contract of the algorithm constructors %s" % (json.dumps(gen_c02.APP_ALLOWED), json.dumps(gen_c02.ALG_WRITES)))
    ctx.notes.append("tree linearity is a theorem with no leaf hypothesis (Props/C02Tree: tree_linear by structural induction over "
                     "C01.Expr; Props/C02Leaves: act_linear / tree_linear_no_leaf_hypothesis for every tree, well-formed or not): "
                     "19 exact leaf classes (Identity, Reshape, Transpose, Resize, Flip, Circshift, Downsample, Upsample, Sum, Tile, "
                     "Slice, Embed, Multiply, MatMul, RightMatMul, ArrayToBlocks, BlocksToArray, Interpolate, Gridding), the ext "
                     "leaves FFT / IFFT (C05 table: fft_leaf_linear), ConvolveData / ConvolveDataAdjoint / ConvolveFilter / "
                     "ConvolveFilterAdjoint (C08 model, 1-D single channel: conv_leaf_linear, conv1At_linear_data/_filter), Wavelet / "
                     "InverseWavelet (C10 model, 1-D real: wave_leaf_linear) + combinators Compose/Add/Conj/Hstack/Vstack/Diag, whose "
                     "denotation is tied to the real operators' matrices by the C01 correspondence and, along histories of operator "
                     "algebra on live objects, by this check's tree-denotation stream; linearity of NUFFT, Kaiser-Bessel "
                     "interpolation, N-d / complex wavelets and multi-channel / N-d convolutions remains runtime-validated")


# ================================================================================================
# helpers
# ================================================================================================
def gint(rng, shape, dtype=np.complex128, lo=-4, hi=4):
    shape = tuple(int(s) for s in shape)
    n = int(np.prod(shape)) if shape else 1
    re = np.array([rng.randint(lo, hi) for _ in range(n)], dtype=np.float64).reshape(shape)
    if np.issubdtype(np.dtype(dtype), np.complexfloating):
        im = np.array([rng.randint(lo, hi) for _ in range(n)], dtype=np.float64).reshape(shape)
        return (re + 1j * im).astype(dtype)
    return re.astype(dtype)


def rshape(rng, nd=None, lo=1, hi=5):
    nd = nd or rng.choice([1, 1, 2, 2, 3])
    return [rng.randint(lo, hi) for _ in range(nd)]


def snap(a):
    return (a.shape, a.dtype.str, a.tobytes())


def walk_arrays(obj, path="", seen=None, depth=0):
    """every ndarray reachable from an operator / prox object (attributes, lists, child operators, caches)"""
    import sigpy as sp
    seen = seen if seen is not None else set()
    out = []
    if id(obj) in seen or depth > 8:
        return out
    seen.add(id(obj))
    if isinstance(obj, np.ndarray):
        return [(path, obj)]
    if isinstance(obj, (list, tuple)):
        for i, v in enumerate(obj):
            out += walk_arrays(v, "%s[%d]" % (path, i), seen, depth + 1)
        return out
    if isinstance(obj, dict):
        for k, v in obj.items():
            out += walk_arrays(v, "%s[%r]" % (path, k), seen, depth + 1)
        return out
    if isinstance(obj, (sp.linop.Linop, sp.prox.Prox)):
        for k, v in vars(obj).items():
            out += walk_arrays(v, (path + "." if path else "") + k, seen, depth + 1)
    return out


class Snapshot:
    def __init__(self, named):
        self.items = [(n, a, snap(a)) for n, a in named]

    def changed(self):
        return [n for n, a, s in self.items if snap(a) != s]


def same_bits(a, b):
    """bitwise equal results (0-d results may come back as numpy scalars)"""
    if isinstance(a, Exception) or isinstance(b, Exception):
        return False
    return snap(np.asarray(a)) == snap(np.asarray(b))


def short(a, n=12):
    if isinstance(a, np.ndarray):
        return "%s%s %s" % (a.dtype, list(a.shape), np.array2string(a.ravel()[:n], precision=6, separator=","))
    return repr(a)[:200]


# ================================================================================================
# operator builders: name -> fn(rng, k) -> (A, exact)     k = size scale (2..5)
# ================================================================================================
def _coord(rng, pts, grid, half=True):
    nd = len(grid)
    c = np.zeros(list(pts) + [nd])
    for idx in np.ndindex(*pts):
        for d in range(nd):
            lo, hi = -(grid[d] // 2), grid[d] // 2
            v = rng.randint(2 * lo - 1, 2 * hi + 1) / 2.0 if half else rng.uniform(lo, hi)
            c[idx + (d,)] = v
    return c


def b_Identity(rng, k):
    import sigpy as sp
    return sp.linop.Identity(rshape(rng, hi=k)), True


def b_ToDevice(rng, k):
    import sigpy as sp
    return sp.linop.ToDevice(rshape(rng, hi=k), sp.cpu_device, sp.cpu_device), True


def b_Reshape(rng, k):
    import sigpy as sp
    ish = rshape(rng, hi=k)
    osh = rng.choice([[int(np.prod(ish))], ish[::-1], [1] + ish, ish])
    return sp.linop.Reshape(osh, ish), True


def b_Transpose(rng, k):
    import sigpy as sp
    ish = rshape(rng, hi=k)
    axes = None if rng.random() < 0.3 else rng.sample(range(len(ish)), len(ish))
    return sp.linop.Transpose(ish, axes=axes), True


def _axes(rng, nd):
    if rng.random() < 0.3:
        return None
    m = rng.randint(1, nd)
    ax = rng.sample(range(nd), m)
    return [a - nd if rng.random() < 0.4 else a for a in ax]


def b_FFT(rng, k):
    import sigpy as sp
    sh = rshape(rng, hi=k + 1)
    return sp.linop.FFT(sh, axes=_axes(rng, len(sh)), center=rng.random() < 0.6), False


def b_IFFT(rng, k):
    import sigpy as sp
    sh = rshape(rng, hi=k + 1)
    return sp.linop.IFFT(sh, axes=_axes(rng, len(sh)), center=rng.random() < 0.6), False


def b_MatMul(rng, k):
    import sigpy as sp
    n, m, c = rng.randint(1, k), rng.randint(1, k), rng.randint(1, k)
    batch = rng.choice([[], [2], [1], [3]])
    mb = rng.choice([[], batch, [1] * len(batch)])
    mat = gint(rng, mb + [m, n], rng.choice([np.complex128, np.float64]), -3, 3)
    return sp.linop.MatMul(batch + [n, c], mat, adjoint=False), True


def b_RightMatMul(rng, k):
    import sigpy as sp
    n, m, c = rng.randint(1, k), rng.randint(1, k), rng.randint(1, k)
    batch = rng.choice([[], [2], [1]])
    mat = gint(rng, rng.choice([[], batch]) + [n, m], np.complex128, -3, 3)
    return sp.linop.RightMatMul(batch + [c, n], mat), True


def b_Multiply(rng, k):
    import sigpy as sp
    ish = rshape(rng, hi=k)
    kind = rng.choice(["one", "scalar", "cscalar", "array", "bcast", "bcast-up"])
    conj = rng.random() < 0.4
    if kind == "one":
        mult = 1
    elif kind == "scalar":
        mult = rng.choice([2, -3, 2.0])
    elif kind == "cscalar":
        mult = complex(rng.randint(-2, 2), rng.choice([-2, 1, 3]))
    elif kind == "array":
        mult = gint(rng, ish, rng.choice([np.complex128, np.float64, np.complex64]), -3, 3)
    elif kind == "bcast":
        mult = gint(rng, [s if rng.random() < 0.5 else 1 for s in ish], np.complex128, -3, 3)
    else:
        mult = gint(rng, [2] + ish, np.complex128, -3, 3)
    return sp.linop.Multiply(ish, mult, conj=conj), True


def _interp_params(rng, k):
    nd = rng.choice([1, 1, 2, 3]) if k > 2 else rng.choice([1, 2])
    grid = [rng.randint(2, k + 2) for _ in range(nd)]
    batch = rng.choice([[], [], [2]])
    pts = [rng.randint(1, k + 1)] if rng.random() < 0.7 else [2, rng.randint(1, k)]
    kernel = rng.choice(["spline", "spline", "kaiser_bessel"])
    exact = kernel == "spline"
    if kernel == "spline":
        param = rng.choice([0, 1, 1])
        width = rng.choice([1, 2, 2, 3])
        exact = exact and width in (1, 2) or param == 0
        exact = (param == 0) or (param == 1 and width in (1, 2))
    else:
        param = rng.choice([1.0, 5.34])
        width = rng.choice([2, 3, 4])
    coord = _coord(rng, pts, grid, half=True)
    return batch, grid, pts, coord, kernel, width, param, exact


def b_Interpolate(rng, k):
    import sigpy as sp
    batch, grid, pts, coord, kernel, width, param, exact = _interp_params(rng, k)
    return sp.linop.Interpolate(batch + grid, coord, kernel=kernel, width=width, param=param), exact


def b_Gridding(rng, k):
    import sigpy as sp
    batch, grid, pts, coord, kernel, width, param, exact = _interp_params(rng, k)
    return sp.linop.Gridding(batch + grid, coord, kernel=kernel, width=width, param=param), exact


def b_Resize(rng, k):
    import sigpy as sp
    ish = rshape(rng, hi=k + 1)
    osh = [max(1, s + rng.randint(-2, 2)) for s in ish]
    if rng.random() < 0.15:
        osh = list(ish)
    if rng.random() < 0.4:   # explicit in-range shifts: the copied window may be smaller than the output
        ishift = [rng.randint(0, max(0, i - 1)) for i in ish]
        oshift = [rng.randint(0, max(0, o - 1)) for o in osh] if rng.random() < 0.7 else None
        return sp.linop.Resize(osh, ish, ishift=ishift, oshift=oshift), True
    return sp.linop.Resize(osh, ish), True


def b_Flip(rng, k):
    import sigpy as sp
    sh = rshape(rng, hi=k)
    return sp.linop.Flip(sh, axes=_axes(rng, len(sh))), True


def b_Downsample(rng, k):
    import sigpy as sp
    sh = rshape(rng, hi=k + 2)
    f = [rng.randint(1, 3) for _ in sh]
    s = None if rng.random() < 0.4 else [rng.randint(0, min(n - 1, ff)) for n, ff in zip(sh, f)]
    return sp.linop.Downsample(sh, f, shift=s), True


def b_Upsample(rng, k):
    import sigpy as sp
    sh = rshape(rng, hi=k + 2)
    f = [rng.randint(1, 3) for _ in sh]
    s = None if rng.random() < 0.4 else [rng.randint(0, min(n - 1, ff)) for n, ff in zip(sh, f)]
    return sp.linop.Upsample(sh, f, shift=s), True


def b_Circshift(rng, k):
    import sigpy as sp
    sh = rshape(rng, hi=k)
    if rng.random() < 0.4:
        return sp.linop.Circshift(sh, [rng.randint(-4, 4) for _ in sh]), True
    m = rng.randint(1, len(sh))
    axes = [rng.choice(range(-len(sh), len(sh))) for _ in range(m)]
    return sp.linop.Circshift(sh, [rng.randint(-4, 4) for _ in range(m)], axes=axes), True


def _wave(rng, k):
    sh = [rng.randint(2, k + 4) for _ in range(rng.choice([1, 2]))]
    return sh, _axes(rng, len(sh)), rng.choice(["haar", "db2", "db4"]), rng.choice([None, 1, 1])


def b_Wavelet(rng, k):
    import sigpy as sp
    sh, axes, wn, lv = _wave(rng, k)
    return sp.linop.Wavelet(sh, axes=axes, wave_name=wn, level=lv), False


def b_InverseWavelet(rng, k):
    import sigpy as sp
    sh, axes, wn, lv = _wave(rng, k)
    return sp.linop.InverseWavelet(sh, axes=axes, wave_name=wn, level=lv), False


def b_Sum(rng, k):
    import sigpy as sp
    sh = rshape(rng, hi=k)
    axes = _axes(rng, len(sh)) or list(range(len(sh)))
    if len(set(a % len(sh) for a in axes)) == len(sh) and len(sh) > 1:
        axes = axes[:-1]
    return sp.linop.Sum(sh, axes), True


def b_Tile(rng, k):
    import sigpy as sp
    sh = rshape(rng, nd=rng.choice([2, 3]), hi=k)
    axes = (_axes(rng, len(sh)) or [0])[:len(sh) - 1]
    return sp.linop.Tile(sh, axes), True


def _blocks(rng, k):
    d = rng.choice([1, 1, 2, 3]) if k > 2 else rng.choice([1, 2])
    lead = rng.choice([[], [], [2]])
    n = [rng.randint(1, k + 2) for _ in range(d)]
    blk = [rng.randint(1, nn) for nn in n]
    st = [rng.randint(1, 3) for _ in range(d)]
    return lead + n, blk, st


def b_ArrayToBlocks(rng, k):
    import sigpy as sp
    sh, blk, st = _blocks(rng, k)
    return sp.linop.ArrayToBlocks(sh, blk, st), True


def b_BlocksToArray(rng, k):
    import sigpy as sp
    sh, blk, st = _blocks(rng, k)
    return sp.linop.BlocksToArray(sh, blk, st), True


def _nufft(rng, k):
    nd = rng.choice([1, 2]) if k < 4 else rng.choice([1, 2, 2, 3])
    grid = [rng.randint(2, k + 2) for _ in range(nd)]
    batch = rng.choice([[], [], [2]])
    pts = [rng.randint(1, k + 2)]
    coord = _coord(rng, pts, grid, half=False)
    return batch + grid, coord, rng.choice([1.25, 1.5, 2]), rng.choice([3, 4])


def b_NUFFT(rng, k):
    import sigpy as sp
    sh, coord, osf, w = _nufft(rng, k)
    return sp.linop.NUFFT(sh, coord, oversamp=osf, width=w, toeplitz=rng.random() < 0.3), False


def b_NUFFTAdjoint(rng, k):
    import sigpy as sp
    sh, coord, osf, w = _nufft(rng, k)
    return sp.linop.NUFFTAdjoint(sh, coord, oversamp=osf, width=w), False


def _conv(rng, k):
    d = rng.choice([1, 1, 2])
    mode = rng.choice(["full", "valid"])
    mc = rng.random() < 0.4
    n = [rng.randint(1, 3) for _ in range(d)]
    m = [nn + rng.randint(0, k) for nn in n]
    strides = None if rng.random() < 0.5 else [rng.randint(1, 2) for _ in range(d)]
    batch = rng.choice([[], [], [2]])
    if mc:
        ci, co = rng.randint(1, 2), rng.randint(1, 2)
        return batch + [ci] + m, [co, ci] + n, mode, strides, True
    return batch + m, n, mode, strides, False


def b_ConvolveData(rng, k):
    import sigpy as sp
    dsh, fsh, mode, st, mc = _conv(rng, k)
    filt = gint(rng, fsh, np.complex128, -3, 3)
    return sp.linop.ConvolveData(dsh, filt, mode=mode, strides=st, multi_channel=mc), True


def b_ConvolveDataAdjoint(rng, k):
    import sigpy as sp
    dsh, fsh, mode, st, mc = _conv(rng, k)
    filt = gint(rng, fsh, np.complex128, -3, 3)
    return sp.linop.ConvolveDataAdjoint(dsh, filt, mode=mode, strides=st, multi_channel=mc), True


def b_ConvolveFilter(rng, k):
    import sigpy as sp
    dsh, fsh, mode, st, mc = _conv(rng, k)
    data = gint(rng, dsh, np.complex128, -3, 3)
    return sp.linop.ConvolveFilter(fsh, data, mode=mode, strides=st, multi_channel=mc), True


def b_ConvolveFilterAdjoint(rng, k):
    import sigpy as sp
    dsh, fsh, mode, st, mc = _conv(rng, k)
    data = gint(rng, dsh, np.complex128, -3, 3)
    return sp.linop.ConvolveFilterAdjoint(fsh, data, mode=mode, strides=st, multi_channel=mc), True


def _slices(rng, sh):
    idx = []
    for n in sh:
        a = rng.randint(0, n - 1)
        b = rng.randint(a + 1, n)
        st = rng.choice([1, 1, 2])
        idx.append(slice(a, b, st) if rng.random() < 0.8 else slice(None))
    return tuple(idx) if len(idx) > 1 or rng.random() < 0.5 else idx[0]


def b_Slice(rng, k):
    import sigpy as sp
    sh = rshape(rng, hi=k + 1)
    return sp.linop.Slice(sh, _slices(rng, sh)), True


def b_Embed(rng, k):
    import sigpy as sp
    sh = rshape(rng, hi=k + 1)
    return sp.linop.Embed(sh, _slices(rng, sh)), True


def b_FiniteDifference(rng, k):
    import sigpy as sp
    sh = rshape(rng, hi=k)
    return sp.linop.FiniteDifference(sh, axes=_axes(rng, len(sh))), True


def _same_shape_ops(rng, sh, n):
    import sigpy as sp
    ops, exact = [], True
    for _ in range(n):
        kind = rng.choice(["id", "flip", "shift", "mult", "fft", "scaled"])
        if kind == "id":
            ops.append(sp.linop.Identity(sh))
        elif kind == "flip":
            ops.append(sp.linop.Flip(sh, axes=_axes(rng, len(sh))))
        elif kind == "shift":
            ops.append(sp.linop.Circshift(sh, [rng.randint(-2, 2) for _ in sh]))
        elif kind == "mult":
            ops.append(sp.linop.Multiply(sh, gint(rng, sh, rng.choice([np.complex128, np.float64]), -3, 3)))
        elif kind == "fft":
            ops.append(sp.linop.FFT(sh))
            exact = False
        else:
            ops.append(complex(rng.randint(-2, 2), rng.choice([-1, 1, 2])) * sp.linop.Identity(sh))
    return ops, exact


def b_Add(rng, k):
    import sigpy as sp
    sh = rshape(rng, hi=k)
    ops, exact = _same_shape_ops(rng, sh, rng.randint(2, 3))
    return sp.linop.Add(ops), exact


def b_Compose(rng, k):
    import sigpy as sp
    sh = rshape(rng, hi=k)
    ops, exact = _same_shape_ops(rng, sh, rng.randint(2, 3))
    if rng.random() < 0.5:
        ops.append(sp.linop.Reshape(sh, [int(np.prod(sh))]))
    return sp.linop.Compose(ops), exact


def _stack_axis(rng, nd):
    return rng.choice([None, 0, nd - 1, -1, -nd])


def b_Hstack(rng, k):
    import sigpy as sp
    sh = rshape(rng, hi=k)
    ops, exact = _same_shape_ops(rng, sh, rng.randint(2, 3))
    return sp.linop.Hstack(ops, axis=_stack_axis(rng, len(sh))), exact


def b_Vstack(rng, k):
    import sigpy as sp
    sh = rshape(rng, hi=k)
    ops, exact = _same_shape_ops(rng, sh, rng.randint(2, 3))
    return sp.linop.Vstack(ops, axis=_stack_axis(rng, len(sh))), exact


def b_Diag(rng, k):
    import sigpy as sp
    sh = rshape(rng, hi=k)
    ops, exact = _same_shape_ops(rng, sh, rng.randint(2, 3))
    ax = _stack_axis(rng, len(sh))
    return sp.linop.Diag(ops, oaxis=ax, iaxis=rng.choice([ax, None])), exact


LEAVES = ["Identity", "Reshape", "Transpose", "FFT", "IFFT", "MatMul", "RightMatMul", "Multiply", "Interpolate",
          "Gridding", "Resize", "Flip", "Downsample", "Upsample", "Circshift", "Wavelet", "InverseWavelet", "Sum",
          "Tile", "ArrayToBlocks", "BlocksToArray", "NUFFT", "NUFFTAdjoint", "ConvolveData", "ConvolveDataAdjoint",
          "ConvolveFilter", "ConvolveFilterAdjoint", "Slice", "Embed", "FiniteDifference", "ToDevice"]


def b_Conj(rng, k):
    import sigpy as sp
    A, ex = BUILDERS[rng.choice(LEAVES)](rng, k)
    return sp.linop.Conj(A), ex


def b_Adjoint(rng, k):
    A, ex = BUILDERS[rng.choice(LEAVES)](rng, k)
    return A.H, ex


def b_Normal(rng, k):
    A, ex = BUILDERS[rng.choice(LEAVES)](rng, k)
    return A.N, ex


def b_Scaled(rng, k):
    A, ex = BUILDERS[rng.choice(LEAVES)](rng, k)
    c = complex(rng.randint(-2, 2), rng.choice([-2, -1, 1, 3]))
    return (c * A if rng.random() < 0.5 else A * c), ex


def b_Tree(rng, k):
    """A.H * (c * A) + B-like trees on one leaf, wrapped in Conj / Vstack"""
    import sigpy as sp
    A, ex = BUILDERS[rng.choice(LEAVES)](rng, k)
    c = complex(rng.randint(-2, 2), rng.choice([-1, 1, 2]))
    T = A.H * (c * A) - sp.linop.Identity(A.ishape)
    if rng.random() < 0.5:
        T = sp.linop.Conj(T)
    if rng.random() < 0.5:
        T = sp.linop.Vstack([T, A.N], axis=None)
    return T, ex


def b_Sense(rng, k):
    import sigpy.mri as mr
    nd = rng.choice([1, 2])
    img = [rng.randint(2, k + 1) for _ in range(nd)]
    nc = rng.randint(1, 3)
    mps = gint(rng, [nc] + img, np.complex128, -2, 2)
    coord = None if rng.random() < 0.5 else _coord(rng, [rng.randint(1, k + 1)], img, half=False)
    ksh = img if coord is None else list(coord.shape[:-1])
    weights = None if rng.random() < 0.5 else gint(rng, ksh, np.float64, 0, 2)
    cbs = None if rng.random() < 0.5 else rng.randint(1, nc)
    return mr.linop.Sense(mps, coord=coord, weights=weights, coil_batch_size=cbs), False


BUILDERS = {n[2:]: f for n, f in list(globals().items()) if n.startswith("b_")}
ALL_OPS = sorted(BUILDERS)


def build_op(spec):
    rng = random.Random(spec["seed"])
    with warnings.catch_warnings():
        warnings.simplefilter("ignore")
        A, exact = BUILDERS[spec["op"]](rng, spec["k"])
    return A, exact, rng


# ================================================================================================
# the oracle for one operator case
# ================================================================================================


def claim_for(cls_name, claims):
    c = claims.get("linop.%s._apply" % cls_name)
    return c


def check_linop(spec, claims=None):
    """-> (violations, ir_disagreements, info)   violations: list of dict(key, what, observed, expected)"""
    import sigpy as sp
    viol, dis = [], []
    with warnings.catch_warnings():
        warnings.simplefilter("ignore")
        try:
            A, exact, rng = build_op(spec)
        except Exception as e:  # invalid parameters are not this property's business
            return viol, dis, dict(skipped="build: %r" % (e,))
        name = spec["op"]
        cls = type(A).__name__
        dtype = np.dtype(spec.get("dtype", "complex128"))
        x = gint(rng, A.ishape, dtype)
        x2 = gint(rng, A.ishape, dtype)
        if spec.get("noncontig") and x.ndim >= 1 and x.shape[-1] > 0:
            big = gint(rng, list(A.ishape[:-1]) + [2 * A.ishape[-1]], dtype)
            x = big[..., ::2]
        captured = Snapshot(walk_arrays(A, cls))
        xin = Snapshot([("input", x)] + ([("input.base", x.base)] if x.base is not None else []))

        def V(kind, what, observed=None, expected=None):
            viol.append(dict(key="C02:%s:%s" % (name, kind), what="%s (%s) %s" % (name, A, what),
                             observed=observed, expected=expected))

        def apply(B, v, label):
            try:
                return B(v)
            except Exception as e:
                return e

        y1 = apply(A, x, "A(x)")
        if isinstance(y1, Exception):
            return viol, dis, dict(skipped="apply: %r" % (y1,))
        if xin.changed():
            V("mutates-input", "wrote into its input array", short(x), "input bytes unchanged")
        ch = captured.changed()
        if ch:
            V("mutates-captured", "wrote into captured array(s) %s" % ch, ch, "captured arrays unchanged")
        # alias claim of the IR
        if claims is not None:
            c = claim_for(cls, claims)
            if c is not None and isinstance(y1, np.ndarray):
                if np.shares_memory(y1, x) and "P0" not in c["ret"]:
                    dis.append(dict(fn="linop.%s._apply" % cls, what="result shares memory with the input", ir=c))
                if xin.changed() and "P0" not in c["mut"]:
                    dis.append(dict(fn="linop.%s._apply" % cls, what="input written", ir=c))
        y1s = snap(y1)
        shares = np.shares_memory(y1, x)
        # other input in between; the first result must survive (no reused output buffer)
        y_other = apply(A, x2, "A(x2)")
        if not shares and snap(y1) != y1s:
            V("reuses-output-buffer", "a later application overwrote an earlier result", short(y1), "unchanged")
        y2 = apply(A, x.copy(), "A(x) again")
        if not same_bits(y1, y2) and snap(y1) == y1s:
            V("nondeterministic", "second application to an equal input differs", short(y2), short(y1))
        # build and use .H / .N, then apply again
        try:
            AH = A.H
            AN = A.N
            w = gint(rng, A.oshape, dtype)
            ws = Snapshot([("H-input", w)])
            z = AH(w)
            if ws.changed():
                V("mutates-input", ".H wrote into its input array", short(w), "input bytes unchanged")
            ch = captured.changed()   # checked after every step: two in-place conjugations would cancel
            if ch and not any(v["key"].endswith("mutates-captured") for v in viol):
                V("mutates-captured", "applying .H wrote into captured array(s) %s" % ch, ch, "unchanged")
            xs2 = Snapshot([("N-input", x2)])
            AN(x2)
            if xs2.changed():
                V("mutates-input", ".N wrote into its input array", short(x2), "input bytes unchanged")
            ch = captured.changed()
            if ch and not any(v["key"].endswith("mutates-captured") for v in viol):
                V("mutates-captured", "applying .N wrote into captured array(s) %s" % ch, ch, "unchanged")
            A.H.H
            A.N.H
        except Exception as e:
            z = None
        y3 = apply(A, x.copy(), "A(x) after .H/.N")
        if not same_bits(y1, y3) and snap(y1) == y1s:
            V("nondeterministic", "application after .H/.N were taken differs from the first", short(y3), short(y1))
        if xin.changed() and not any(v["key"].endswith("mutates-input") for v in viol):
            V("mutates-input", "wrote into its input array (later application)", short(x), "unchanged")
        ch = captured.changed()
        if ch and not any(v["key"].endswith("mutates-captured") for v in viol):
            V("mutates-captured", "wrote into captured array(s) %s after .H/.N use" % ch, ch, "unchanged")
        # A(0) = 0 (linearity), with recycled memory in the allocator: an output that is allocated but not
        # completely written shows here and in the repeated-application comparison above
        for jdt in (np.complex128, np.float64, np.complex64):
            junk = np.full(A.oshape, 12345.678, dtype=jdt)
            del junk
        z0 = apply(A, np.zeros(A.ishape, dtype=dtype), "A(0)")
        if isinstance(z0, np.ndarray) and z0.size and not np.all(z0 == 0):
            V("nonlinear", "A(0) != 0 (output contains values that do not come from the input)", short(z0), "zeros")
        # linearity with a complex scalar
        a = complex(rng.randint(-3, 3), rng.choice([-2, -1, 1, 2, 3]))
        xa, ya = gint(rng, A.ishape, dtype), gint(rng, A.ishape, dtype)
        if spec.get("real_xy"):
            xa, ya = xa.real.astype(dtype), ya.real.astype(dtype)
        real_dtype = spec.get("real_dtype_xy", rng.random() < 0.3)
        if real_dtype:
            # x and y held in REAL-dtype arrays, a complex: shortcuts taken for real input (skipped
            # conjugations, dropped imaginary parts of complex operators) only show here
            rdt = np.float32 if dtype == np.dtype(np.complex64) else np.float64
            xa, ya = np.ascontiguousarray(xa.real.astype(rdt)), np.ascontiguousarray(ya.real.astype(rdt))
        comb = (a * xa + ya).astype(dtype)
        l = apply(A, comb, "A(a x + y)")
        r1, r2 = apply(A, xa, "A(x)"), apply(A, ya, "A(y)")
        if real_dtype and not isinstance(l, Exception) and any(isinstance(v, Exception) for v in (r1, r2)):
            # a LEAF class may restrict the dtypes it accepts (conv.py needs data and filter of one kind); not judged
            # here.  What IS judged (check_hist): a combinator must accept a real / integer array whenever the
            # combination of its parts' outputs is defined for it
            spec["_rejects_real"] = True
        if not any(isinstance(v, Exception) for v in (l, r1, r2)):
            rhs = a * r1.astype(np.complex128) + r2.astype(np.complex128)
            lhs = l.astype(np.complex128)
            if exact:
                ok = lhs.shape == rhs.shape and np.array_equal(lhs, rhs)
                tol = 0.0
            else:
                scale = max(1.0, float(np.max(np.abs(a) * np.abs(r1)) if r1.size else 0) + float(np.max(np.abs(r2)) if r2.size else 0))
                # single precision anywhere on the path (complex64 input or output): 2e-4, else 1e-10, relative to
                # the size of the terms.  Calibrated on the unchanged tree over ~5000 operator cases: observed
                # rounding <= 1.4e-7 relative on complex64 paths and <= 1.1e-15 on complex128 paths, so the
                # tolerances are >= 1.4e3 x resp. 1e5 x above rounding (1e-5 for complex64 would leave only 70 x);
                # the regressions this stream targets (dropped imaginary part, anti-linearity) are O(1) relative.
                # real-dtype input: fft/nufft cast real input to complex64 by design (C05), possibly deep inside a
                # tree whose final dtype is complex128 again, so the single-precision tolerance applies
                single = real_dtype or dtype == np.dtype(np.complex64) or any(
                    v.dtype in (np.dtype(np.complex64), np.dtype(np.float32)) for v in (l, r1, r2))
                tol = (2e-4 if single else 1e-10) * scale * max(1, int(np.sqrt(lhs.size)))
                ok = lhs.shape == rhs.shape and (lhs.size == 0 or float(np.max(np.abs(lhs - rhs))) <= tol)
            if not exact and lhs.shape == rhs.shape and lhs.size:
                spec["_lin_ratio"] = float(np.max(np.abs(lhs - rhs))) / tol   # calibration aid (not part of the verdict)
            if not ok:
                err = float(np.max(np.abs(lhs - rhs))) if lhs.shape == rhs.shape and lhs.size else None
                V("nonlinear", "A(a x + y) != a A(x) + A(y) for a=%r (max err %r, tol %r)" % (a, err, tol),
                  short(lhs), short(rhs))
    return viol, dis, dict(cls=cls, exact=exact, shares=bool(shares), oshape=list(A.oshape), ishape=list(A.ishape))


# ================================================================================================
# prox cases
# ================================================================================================
def build_prox(spec):
    import sigpy as sp
    rng = random.Random(spec["seed"])
    k = spec["k"]
    name = spec["prox"]
    sh = rshape(rng, hi=k)
    dt = np.dtype(spec.get("dtype", "complex128"))
    P = sp.prox
    if name == "NoOp":
        p = P.NoOp(sh)
    elif name == "L1Reg":
        p = P.L1Reg(sh, rng.choice([0.5, 1, 2]))
    elif name == "L2Reg":
        y = None if rng.random() < 0.3 else gint(rng, sh, dt)
        ph = None if rng.random() < 0.6 else P.L1Reg(sh, 0.5)
        p = P.L2Reg(sh, rng.choice([0.5, 1, 2]), y=y, proxh=ph)
    elif name == "L2Proj":
        p = P.L2Proj(sh, rng.choice([0.5, 2, 100]), y=rng.choice([0, 0]) if rng.random() < 0.5 else gint(rng, sh, dt))
    elif name == "LInfProj":
        p = P.LInfProj(sh, rng.choice([0.5, 2, 100]), bias=None if rng.random() < 0.5 else gint(rng, sh, dt))
    elif name == "PsdProj":
        n = rng.randint(1, k)
        sh = [n, n]
        p = P.PsdProj(sh)
    elif name == "L1Proj":
        p = P.L1Proj(sh, rng.choice([0.5, 3, 1000]))
    elif name == "BoxConstraint":
        dt = np.dtype("float64")
        lo = -1 if rng.random() < 0.5 else gint(rng, sh, np.float64, -3, 0)
        hi = 1 if rng.random() < 0.5 else gint(rng, sh, np.float64, 0, 3)
        p = P.BoxConstraint(sh, lo, hi)
    elif name == "Conj":
        p = P.Conj(rng.choice([P.L1Reg(sh, 1), P.L2Reg(sh, 1, y=gint(rng, sh, dt)), P.NoOp(sh), P.L1Proj(sh, 2)]))
    elif name == "UnitaryTransform":
        A = rng.choice([sp.linop.FFT(sh), sp.linop.Identity(sh), sp.linop.Flip(sh), sp.linop.Reshape(sh[::-1], sh) if False else sp.linop.Circshift(sh, [1] * len(sh))])
        p = P.UnitaryTransform(rng.choice([P.L1Reg(sh, 1), P.NoOp(sh), P.L2Reg(sh, 1, y=gint(rng, sh, dt))]), A)
    elif name == "Stack":
        sh2 = rshape(rng, hi=k)
        ps = [rng.choice([P.L1Reg(sh, 1), P.NoOp(sh)]), rng.choice([P.L2Reg(sh2, 1, y=gint(rng, sh2, dt)), P.NoOp(sh2), P.L1Proj(sh2, 2)])]
        p = P.Stack(ps)
        sh = p.shape
    else:
        raise KeyError(name)
    x = gint(rng, sh, dt)
    if name == "Stack" and rng.random() < 0.4:
        alpha = gint(rng, sh, np.float64, 1, 3)
    else:
        alpha = rng.choice([0.5, 1.0, 2.0])
    return p, alpha, x, rng


PROXES = ["NoOp", "L1Reg", "L2Reg", "L2Proj", "LInfProj", "PsdProj", "L1Proj", "BoxConstraint", "Conj",
          "UnitaryTransform", "Stack"]


def check_prox(spec, claims=None):
    viol, dis = [], []
    with warnings.catch_warnings():
        warnings.simplefilter("ignore")
        try:
            p, alpha, x, rng = build_prox(spec)
        except Exception as e:
            return viol, dis, dict(skipped="build: %r" % (e,))
        name = spec["prox"]
        named = [("input", x)] + ([("alpha", alpha)] if isinstance(alpha, np.ndarray) else [])
        args = Snapshot(named)
        captured = Snapshot(walk_arrays(p, name))

        def V(kind, what, observed=None, expected=None):
            viol.append(dict(key="C02:prox.%s:%s" % (name, kind), what="prox.%s %s" % (name, what),
                             observed=observed, expected=expected))
        try:
            y1 = p(alpha, x)
        except Exception as e:
            return viol, dis, dict(skipped="call: %r" % (e,))
        if args.changed():
            V("mutates-input", "wrote into %s" % args.changed(), short(x), "argument bytes unchanged")
        if captured.changed():
            V("mutates-captured", "wrote into captured %s" % captured.changed(), captured.changed(), "unchanged")
        if claims is not None:
            c = claims.get("prox.%s._prox" % name)
            if c is not None and isinstance(y1, np.ndarray):
                if np.shares_memory(y1, x) and "P1" not in c["ret"]:
                    dis.append(dict(fn="prox.%s._prox" % name, what="result shares memory with the input", ir=c))
                if args.changed() and not ({"P0", "P1"} & set(c["mut"])):
                    dis.append(dict(fn="prox.%s._prox" % name, what="argument written", ir=c))
        y1s = snap(y1)
        sh = np.shares_memory(y1, x)
        p(alpha, gint(rng, x.shape, x.dtype))
        if not sh and snap(y1) != y1s:
            V("reuses-output-buffer", "a later call overwrote an earlier result", short(y1), "unchanged")
        y2 = p(alpha, x.copy())
        if not same_bits(y1, y2) and snap(y1) == y1s:
            V("nondeterministic", "second call with equal arguments differs", short(y2), short(y1))
        if args.changed() and not viol:
            V("mutates-input", "wrote into %s (later call)" % args.changed(), short(x), "unchanged")
        if captured.changed() and not any(v["key"].endswith("captured") for v in viol):
            V("mutates-captured", "wrote into captured %s (later call)" % captured.changed(), None, "unchanged")
    return viol, dis, dict(cls=name)


# ================================================================================================
# public array functions
# ================================================================================================
def _variants(rng, a):
    """the same values as a contiguous array, a strided view or a transposed copy's view"""
    kind = rng.choice(["plain", "plain", "strided", "fortran"])
    if kind == "strided" and a.ndim >= 1:
        big = np.zeros(list(a.shape[:-1]) + [2 * a.shape[-1]], dtype=a.dtype)
        big[..., ::2] = a
        return big[..., ::2]
    if kind == "fortran" and a.ndim >= 2:
        return np.asfortranarray(a)
    return a


def fn_case(spec):
    """-> (callable, args(list), kwargs, array_positions {pos or kw: param index}, key, exempt positions)"""
    import sigpy as sp
    import sigpy.mri as mr
    rng = random.Random(spec["seed"])
    k = spec["k"]
    f = spec["fn"]
    dt = np.dtype(spec.get("dtype", "complex128"))
    R = lambda sh, d=None: _variants(rng, gint(rng, sh, d or dt))
    if f == "util.vec":
        return sp.vec, [[R(rshape(rng, hi=k)) for _ in range(rng.randint(1, 3))]], {}, set()
    if f == "util.split":
        shs = [rshape(rng, hi=k) for _ in range(rng.randint(1, 3))]
        return sp.split, [gint(rng, [sum(int(np.prod(s)) for s in shs)], dt), shs], {}, set()
    if f == "util.rss":
        sh = rshape(rng, hi=k)
        return sp.rss, [R(sh)], dict(axes=(rng.randrange(len(sh)),)), set()
    if f == "util.resize":
        sh = rshape(rng, hi=k + 1)
        osh = list(sh) if rng.random() < 0.3 else [max(1, s + rng.randint(-2, 2)) for s in sh]
        return sp.resize, [R(sh), osh], {}, set()
    if f == "util.flip":
        sh = rshape(rng, hi=k)
        return sp.flip, [R(sh)], dict(axes=_axes(rng, len(sh))), set()
    if f == "util.circshift":
        sh = rshape(rng, hi=k)
        return sp.circshift, [R(sh), [rng.randint(-3, 3) for _ in sh]], {}, set()
    if f == "util.downsample":
        sh = rshape(rng, hi=k + 2)
        return sp.downsample, [R(sh), [rng.randint(1, 3) for _ in sh]], {}, set()
    if f == "util.upsample":
        sh = rshape(rng, hi=k + 2)
        fac = [rng.randint(1, 3) for _ in sh]
        small = [len(range(0, n, ff)) for n, ff in zip(sh, fac)]
        return sp.upsample, [R(small), sh, fac], {}, set()
    if f == "util.leja":
        return sp.leja, [gint(rng, [rng.randint(2, k + 3)], np.complex128)], {}, set()
    if f == "util.axpy":
        sh = rshape(rng, hi=k)
        a = rng.choice([2.0, gint(rng, sh, dt)])
        return sp.axpy, [gint(rng, sh, dt), a, R(sh)], {}, {0}
    if f == "util.xpay":
        sh = rshape(rng, hi=k)
        a = rng.choice([2.0, gint(rng, sh, dt)])
        return sp.xpay, [gint(rng, sh, dt), a, R(sh)], {}, {0}
    if f == "util.monte_carlo_sure":
        sh = rshape(rng, hi=k)
        return sp.monte_carlo_sure, [lambda v: 0.5 * v, R(sh, np.float64), 1.0], {}, set()
    if f == "backend.copyto":
        sh = rshape(rng, hi=k)
        return sp.copyto, [gint(rng, sh, dt), R(sh)], {}, {0}
    if f == "backend.to_device":
        return sp.to_device, [R(rshape(rng, hi=k))], {}, set()
    if f in ("fourier.fft", "fourier.ifft"):
        sh = rshape(rng, hi=k + 1)
        kw = dict(axes=_axes(rng, len(sh)), center=rng.random() < 0.6, norm=rng.choice(["ortho", None]))
        if rng.random() < 0.3:
            kw["axes"] = None
            kw["oshape"] = [max(1, s + rng.randint(-1, 2)) for s in sh]
        d = rng.choice([dt, np.dtype(np.float64), np.dtype(np.float32), np.dtype(np.complex64)])
        return (sp.fft if f.endswith(".fft") else sp.ifft), [R(sh, d)], kw, set()
    if f in ("fourier.nufft", "fourier.nufft_adjoint", "fourier.toeplitz_psf", "fourier.estimate_shape"):
        sh, coord, osf, w = _nufft(rng, k)
        if f == "fourier.nufft":
            return sp.nufft, [R(sh), _variants(rng, coord)], dict(oversamp=osf, width=w), set()
        if f == "fourier.nufft_adjoint":
            nd = coord.shape[-1]
            ish = sh[:-nd] + list(coord.shape[:-1])
            return sp.nufft_adjoint, [R(ish), _variants(rng, coord)], dict(oshape=sh if rng.random() < 0.8 else None, oversamp=osf, width=w), set()
        if f == "fourier.toeplitz_psf":
            return sp.toeplitz_psf, [_variants(rng, coord), sh], dict(oversamp=osf, width=w), set()
        return sp.estimate_shape, [_variants(rng, coord)], {}, set()
    if f in ("interp.interpolate", "interp.gridding"):
        batch, grid, pts, coord, kernel, width, param, _ = _interp_params(rng, k)
        if rng.random() < 0.3:
            width, param = [width] * len(grid), [param] * len(grid)
        d = rng.choice([dt, np.dtype(np.float64)])
        if f == "interp.interpolate":
            return sp.interpolate, [R(batch + grid, d), _variants(rng, coord)], dict(kernel=kernel, width=width, param=param), set()
        return sp.gridding, [R(batch + pts, d), _variants(rng, coord), batch + grid], dict(kernel=kernel, width=width, param=param), set()
    if f.startswith("conv."):
        dsh, fsh, mode, st, mc = _conv(rng, k)
        kw = dict(mode=mode, strides=st, multi_channel=mc)
        data, filt = R(dsh), R(fsh)
        if f == "conv.convolve":
            return sp.convolve, [data, filt], kw, set()
        out = sp.convolve(gint(rng, dsh, dt), gint(rng, fsh, dt), **kw)
        o = R(out.shape)
        if f == "conv.convolve_data_adjoint":
            return sp.convolve_data_adjoint, [o, filt, dsh], kw, set()
        return sp.convolve_filter_adjoint, [o, data, fsh], kw, set()
    if f in ("block.array_to_blocks", "block.blocks_to_array"):
        sh, blk, st = _blocks(rng, k)
        if f == "block.array_to_blocks":
            return sp.array_to_blocks, [R(sh), blk, st], {}, set()
        d = len(blk)
        nb = [(i - b + s) // s for i, b, s in zip(sh[-d:], blk, st)]
        return sp.blocks_to_array, [R(sh[:-d] + nb + blk), sh, blk, st], {}, set()
    if f in ("wavelet.fwt", "wavelet.iwt"):
        sh, axes, wn, lv = _wave(rng, k)
        if f == "wavelet.fwt":
            return sp.fwt, [R(sh)], dict(wave_name=wn, axes=axes, level=lv), set()
        osh, slices = sp.wavelet.get_wavelet_shape(sh, wave_name=wn, axes=axes, level=lv)
        return sp.iwt, [R(osh), sh, slices], dict(wave_name=wn, axes=axes, level=lv), set()
    if f in ("thresh.soft_thresh", "thresh.hard_thresh"):
        sh = rshape(rng, hi=k)
        lam = rng.choice([0.5, 2.0]) if rng.random() < 0.6 else gint(rng, sh, np.float64, 0, 3)
        return (sp.soft_thresh if "soft" in f else sp.hard_thresh), [lam, R(sh, rng.choice([dt, np.dtype(np.float64)]))], {}, set()
    if f == "thresh.l1_proj":
        return sp.l1_proj, [rng.choice([0.5, 3, 1000.0]), R(rshape(rng, hi=k))], {}, set()
    if f == "thresh.l2_proj":
        sh = rshape(rng, hi=k)
        return sp.l2_proj, [rng.choice([0.5, 3, 1000.0]), R(sh)], dict(axes=_axes(rng, len(sh))), set()
    if f == "thresh.linf_proj":
        sh = rshape(rng, hi=k)
        return sp.linf_proj, [rng.choice([0.5, 3.0]), R(sh)], dict(bias=None if rng.random() < 0.5 else R(sh)), set()
    if f == "thresh.psd_proj":
        n = rng.randint(1, k)
        return sp.psd_proj, [R([n, n])], {}, set()
    if f == "mri.util.get_cov":
        return mr.get_cov, [R([rng.randint(1, 3)] + rshape(rng, hi=k + 1))], {}, set()
    if f == "mri.util.whiten":
        nc = rng.randint(1, 3)
        m = gint(rng, [nc, nc], np.complex128, -2, 2)
        cov = m @ m.conj().T + 3 * np.eye(nc)
        return mr.whiten, [R([nc] + rshape(rng, hi=k)), _variants(rng, cov)], {}, set()
    if f == "mri.util.tseg_off_res_b_ct":
        n = rng.randint(2, k + 1)
        return mr.util.tseg_off_res_b_ct, [R([n, n], np.float64), rng.randint(2, 5), rng.randint(2, 3), 4e-3, 0.04 * rng.randint(1, 3)], {}, set()
    if f == "mri.util.apply_tseg":
        n = rng.randint(2, k + 1)
        b0 = gint(rng, [n, n], np.float64)
        lseg = rng.randint(2, 3)
        npts = 10
        b, ct = mr.util.tseg_off_res_b_ct(b0, 4, lseg, 4e-3, 0.04)
        coord = _coord(rng, [npts], [n, n], half=False) / 20
        return mr.util.apply_tseg, [R([n, n]), coord, _variants(rng, b), _variants(rng, ct)], dict(fwd=rng.random() < 0.5), set()
    raise KeyError(f)


FUNCS = ["util.vec", "util.split", "util.rss", "util.resize", "util.flip", "util.circshift", "util.downsample",
         "util.upsample", "util.leja", "util.axpy", "util.xpay", "util.monte_carlo_sure", "backend.copyto",
         "backend.to_device", "fourier.fft", "fourier.ifft", "fourier.nufft", "fourier.nufft_adjoint",
         "fourier.toeplitz_psf", "fourier.estimate_shape", "interp.interpolate", "interp.gridding", "conv.convolve",
         "conv.convolve_data_adjoint", "conv.convolve_filter_adjoint", "block.array_to_blocks",
         "block.blocks_to_array", "wavelet.fwt", "wavelet.iwt", "thresh.soft_thresh", "thresh.hard_thresh",
         "thresh.l1_proj", "thresh.l2_proj", "thresh.linf_proj", "thresh.psd_proj", "mri.util.get_cov",
         "mri.util.whiten", "mri.util.tseg_off_res_b_ct", "mri.util.apply_tseg"]
NONDETERMINISTIC_FUNCS = {"util.monte_carlo_sure"}   # draws a random probe by design


def _arrays_in(v, path):
    if isinstance(v, np.ndarray):
        return [(path, v)]
    if isinstance(v, (list, tuple)):
        out = []
        for i, e in enumerate(v):
            out += _arrays_in(e, "%s[%d]" % (path, i))
        return out
    return []


def check_fn(spec, claims=None):
    viol, dis = [], []
    f = spec["fn"]
    short_name = f.split(".")[-1]
    with warnings.catch_warnings():
        warnings.simplefilter("ignore")
        try:
            fn, args, kw, exempt = fn_case(spec)
        except Exception as e:
            return viol, dis, dict(skipped="build: %r" % (e,))
        g = _META.get("gen")
        pnames = g.done[f]["params"] if g is not None and f in g.done else None
        named = []
        for i, a in enumerate(args):
            if i in exempt:
                continue
            for pth, arr in _arrays_in(a, "arg%d" % i):
                named.append((pth, arr, i))
                if arr.base is not None and isinstance(arr.base, np.ndarray):
                    named.append((pth + ".base", arr.base, i))
        for kname, a in kw.items():
            for pth, arr in _arrays_in(a, kname):
                named.append((pth, arr, pnames.index(kname) if pnames and kname in pnames else None))
        s = Snapshot([(n, a) for n, a, _ in named])
        try:
            y1 = fn(*args, **kw)
        except Exception as e:
            return viol, dis, dict(skipped="call: %r" % (e,))
        ch = s.changed()
        if ch:
            viol.append(dict(key="C02:%s:mutates-input" % short_name, what="%s wrote into its argument(s) %s" % (f, ch),
                             observed=ch, expected="argument bytes unchanged"))
        c = claims.get(f) if claims is not None else None
        outs = _arrays_in(y1, "result")
        if c is not None:
            for n, arr, pi in named:
                if pi is None or n.endswith(".base"):
                    continue
                for _, o in outs:
                    if np.shares_memory(o, arr) and ("P%d" % pi) not in c["ret"]:
                        dis.append(dict(fn=f, what="result shares memory with parameter %d (%s)" % (pi, n), ir=c))
                if n in ch and ("P%d" % pi) not in c["mut"]:
                    dis.append(dict(fn=f, what="parameter %d (%s) written" % (pi, n), ir=c))
        if f not in NONDETERMINISTIC_FUNCS and not exempt and not ch:
            try:
                y2 = fn(*args, **kw)
                o2 = _arrays_in(y2, "result")
                if len(o2) != len(outs) or any(snap(a[1]) != snap(b[1]) for a, b in zip(outs, o2)):
                    viol.append(dict(key="C02:%s:nondeterministic" % short_name, what="%s: second call with equal arguments differs" % f,
                                     observed=[short(a[1]) for a in o2], expected=[short(a[1]) for a in outs]))
            except Exception:
                pass
    return viol, dis, dict(fn=f)


# ================================================================================================
# LinearLeastSquares set-ups (defect #2 of DESIGN §5: `AHy += ...` on A.H(y))
# ================================================================================================
def check_lls(spec, claims=None):
    import sigpy as sp
    viol = []
    rng = random.Random(spec["seed"])
    k = spec["k"]
    with warnings.catch_warnings():
        warnings.simplefilter("ignore")
        sh = rshape(rng, hi=k)
        kind = spec.get("A") or rng.choice(["Identity", "Reshape", "Multiply1", "Multiply", "Flip"])
        A = dict(Identity=lambda: sp.linop.Identity(sh), Reshape=lambda: sp.linop.Reshape(sh, sh),
                 Multiply1=lambda: sp.linop.Multiply(sh, 1),
                 Multiply=lambda: sp.linop.Multiply(sh, gint(rng, sh, np.complex128, 1, 3)),
                 Flip=lambda: sp.linop.Flip(sh))[kind]()
        y = gint(rng, sh, np.complex128)
        z = None if rng.random() < 0.5 else gint(rng, sh, np.complex128)
        lamda = rng.choice([0, 0.5, 1.0]) if z is None else rng.choice([0.5, 1.0])
        solver = spec.get("solver") or rng.choice(["ConjugateGradient", "GradientMethod", "PrimalDualHybridGradient", "ADMM"])
        kw = dict(lamda=lamda, z=z, solver=solver, max_iter=rng.randint(1, 4), show_pbar=False)
        if solver == "ADMM":
            kw["rho"] = 1.0
        if solver in ("GradientMethod", "PrimalDualHybridGradient") and rng.random() < 0.5:
            kw["proxg"] = sp.prox.L1Reg(sh, 0.1)
        if solver == "PrimalDualHybridGradient":
            kw["max_power_iter"] = 3
        s = Snapshot([("y", y)] + ([("z", z)] if z is not None else []) + walk_arrays(A, "A"))
        try:
            app = sp.app.LinearLeastSquares(A, y, **kw)
            s0 = s.changed()
            app.run()
        except Exception as e:
            return viol, [], dict(skipped="%r" % (e,))
        ch = s0 or s.changed()
        if ch:
            what = "LinearLeastSquares(A=%s, solver=%s, lamda=%s, z %s) wrote into %s" % (kind, solver, lamda, "given" if z is not None else "None", ch)
            kinds = ["mutates-y" if c == "y" else "mutates-z" if c == "z" else "mutates-captured" for c in ch]
            for kd in sorted(set(kinds)):
                viol.append(dict(key="C02:LinearLeastSquares:%s" % kd, what=what, observed=ch, expected="data arrays unchanged"))
    return viol, [], dict(cls="LLS")


# ================================================================================================
# histories of operator ALGEBRA on live objects; tree shapes come from the C01 tree generator
# (the expression language of Props/C02Tree.lean), so the Lean denotation of (tree, input) is available
# ================================================================================================
HIST_DTYPES = ["complex128", "float64", "float32", "int64", "complex64"]
# leaf classes whose _apply is plain numpy indexing / arithmetic with numpy's dtype promotion: these are the trees
# on which integer-typed arrays are used as inputs (the numba kernels of interp / block are typed by the input array)
HIST_INT_SAFE = {"id", "reshape", "transpose", "resize", "flip", "circshift", "down", "up", "sum", "tile", "slice",
                 "embed", "mul", "matmul", "rmatmul"}


def _hist_extra(rng, sh):
    """square operator on `sh` outside the exact model: complex-valued transform, or a multiplier whose values are
    not representable in single precision, in float32 / float64 / complex64 / complex128 storage, or a float /
    complex scalar.  -> (label, zero-argument constructor of an equal object)"""
    import sigpy as sp
    kind = rng.choice(["fft", "ifft", "third:complex128", "third:float64", "third:complex64", "third:float32",
                       "scalar:0.5", "scalar:c", "scalar:third"])
    if kind == "fft":
        ax = _axes(rng, len(sh))
        return "FFT", (lambda: sp.linop.FFT(sh, axes=ax))
    if kind == "ifft":
        ax = _axes(rng, len(sh))
        return "IFFT", (lambda: sp.linop.IFFT(sh, axes=ax))
    if kind.startswith("third"):
        dt = np.dtype(kind.split(":")[1])
        arr = (gint(rng, sh, np.complex128 if dt.kind == "c" else np.float64, 1, 4) / 3.0).astype(dt)
        return "Multiply<%s/3>" % dt, (lambda: sp.linop.Multiply(sh, arr))
    c = dict([("scalar:0.5", 0.5), ("scalar:third", 1.0 / 3)]).get(kind, complex(rng.randint(-2, 2), rng.choice([-1, 1, 2])))
    return "Multiply<%r>" % (c,), (lambda: sp.linop.Multiply(sh, c))


class _HEnt:
    def __init__(self, idx, op, rec, spec, label, xs, exact, parts_exp=None):
        self.idx, self.op, self.rec, self.spec, self.label, self.xs, self.exact = idx, op, rec, spec, label, xs, exact
        self.first = [None] * len(xs)
        self.exp = parts_exp or [None] * len(xs)
        self.cls = type(op).__name__
        self.captured = Snapshot(walk_arrays(op, "e%d" % idx))


def _hist_make(rec, get):
    """the operator a recipe denotes, from live operands (`get(i)` = the live object) or rebuilt from scratch"""
    import sigpy as sp
    from harness.props import c01 as C1
    t = rec[0]
    if t == "c01":
        return C1.build(rec[1])
    if t == "extra":
        return rec[2]()
    if t == "add":
        return get(rec[1]) + get(rec[2])
    if t == "sub":
        return get(rec[1]) - get(rec[2])
    if t == "addn":
        return sp.linop.Add([get(i) for i in rec[1]])
    if t == "mul":
        return get(rec[1]) * get(rec[2])
    if t == "compn":
        return sp.linop.Compose([get(i) for i in rec[1]])
    if t == "scal":
        return rec[1] * get(rec[2])
    if t == "rscal":
        return get(rec[2]) * rec[1]
    if t == "neg":
        return -get(rec[1])
    if t == "conj":
        return sp.linop.Conj(get(rec[1]))
    if t == "hstack":
        return sp.linop.Hstack([get(i) for i in rec[2]], axis=rec[1])
    if t == "vstack":
        return sp.linop.Vstack([get(i) for i in rec[2]], axis=rec[1])
    if t == "diag":
        return sp.linop.Diag([get(i) for i in rec[2]], oaxis=rec[1], iaxis=rec[1])
    raise KeyError(t)


def _hist_spec(rec, ents):
    """C01 expression (model language) of a recipe, or None when a part is outside the model"""
    t = rec[0]
    if t == "c01":
        from harness.props import c01 as C1
        return rec[1] if C1.in_model(rec[1]) else None
    if t == "extra":
        return None
    sub = lambda i: ents[i].spec
    g = lambda z: [z.real, z.imag] if isinstance(z, complex) else [z, 0]
    if t in ("add", "sub", "mul"):
        a, b = sub(rec[1]), sub(rec[2])
        return None if a is None or b is None else [dict(add="add", sub="sub", mul="comp")[t], a, b]
    if t in ("addn", "compn"):
        ss = [sub(i) for i in rec[1]]
        if any(s is None for s in ss):
            return None
        out = ss[0]
        for s in ss[1:]:
            out = ["add" if t == "addn" else "comp", out, s]
        return out
    if t in ("scal", "rscal"):
        a = sub(rec[2])
        c = rec[1]
        if a is None or any(float(v) != int(v) for v in g(c)):
            return None
        return ["scale" if t == "scal" else "rscale", [int(v) for v in g(c)], a]
    if t in ("neg", "conj"):
        a = sub(rec[1])
        return None if a is None else [t, a]
    if t in ("hstack", "vstack"):
        ss = [sub(i) for i in rec[2]]
        return None if any(s is None for s in ss) else [t, rec[1], ss]
    if t == "diag":
        ss = [sub(i) for i in rec[2]]
        return None if any(s is None for s in ss) else ["diag", rec[1], rec[1], ss]
    return None


def _hist_label(rec, ents):
    t = rec[0]
    if t == "c01":
        from harness.props import c01 as C1
        return "tree(%s|%s)" % (",".join(C1.node_tags(rec[1])) or "leaf", ",".join(lf[1] for lf in C1.leaves(rec[1])))
    if t == "extra":
        return rec[1]
    e = lambda i: "e%d" % i
    if t in ("add", "sub", "mul"):
        return "%s %s %s" % (e(rec[1]), dict(add="+", sub="-", mul="*")[t], e(rec[2]))
    if t in ("addn", "compn"):
        return "%s([%s])" % ("Add" if t == "addn" else "Compose", ", ".join(e(i) for i in rec[1]))
    if t == "scal":
        return "%r * %s" % (rec[1], e(rec[2]))
    if t == "rscal":
        return "%s * %r" % (e(rec[2]), rec[1])
    if t == "neg":
        return "-" + e(rec[1])
    if t == "conj":
        return "Conj(%s)" % e(rec[1])
    return "%s([%s], axis=%r)" % (t.capitalize(), ", ".join(e(i) for i in rec[2]), rec[1])


def _close(got, want, exact_int=False):
    """(A op B)(x) against the same combination of the parts' outputs: both sides round the same parts, so the
    only admissible difference is the rounding of the final additions in the precision of `want`:
    1e4 x eps(want.dtype) relative to the size of the terms (a dropped / wrong / extra term is O(1), an accumulator
    kept in single precision where the parts are double is ~6e-8 relative)"""
    got, want = np.asarray(got), np.asarray(want)
    if got.shape != want.shape:
        return False, None, None
    if want.size == 0:
        return True, 0.0, 0.0
    if want.dtype.kind in "iub":
        err = float(np.max(np.abs(got.astype(np.complex128) - want.astype(np.complex128))))
        return err == 0.0, err, 0.0
    eps = float(np.finfo(want.dtype).eps)
    tol = 1e4 * eps * max(1.0, float(np.max(np.abs(want))))
    err = float(np.max(np.abs(got.astype(np.complex128) - want.astype(np.complex128))))
    return err <= tol, err, tol


def check_hist(spec, claims=None, driver=None):
    """one history: a pool of operators with common input/output shapes (a C01-generated tree, same-shape variants,
    inexact / complex-valued extras) is combined by operator algebra re-using LIVE objects as operands
    (+, -, *, Add, Compose, scalar *, -, Conj, Hstack, Vstack, Diag, .H, .N); every object is applied to fixed
    inputs of every dtype when it is built, in between, and at the end.  Oracles, for every object and input:
      (1) every application returns the bits of the object's FIRST application to that input;
      (2) the output equals the same combination of its parts' outputs (sum of parts, composition, conjugate sandwich,
          concatenation) computed by numpy from the parts' own outputs at construction time;
      (3) an equal object built from scratch (same tree, equal parameters) returns the same bits;
      (4) real / integer-typed inputs are accepted wherever the same values in a complex array are, and
          A(a x + y) = a A(x) + A(y) for complex a and real / integer x, y;
      (5) no input and no captured array changes;
      (6) [driver] the first output equals M x for the matrix M the Lean `denote` gives for the tree."""
    import sigpy as sp
    from harness.props import c01 as C1
    viol, dis = [], []
    rng = random.Random(spec["seed"])
    depth = spec["k"]
    n_events = spec.get("n_events", 10)
    dtypes = spec.get("dtypes", HIST_DTYPES)
    log = []
    with warnings.catch_warnings():
        warnings.simplefilter("ignore")
        try:
            if rng.random() < spec.get("p_opaque", 0.2):    # base outside the exact model: FFT / NUFFT / wavelet / convolution / MRI leaves in a small tree
                s0, A0 = C1.wrap_opaque(rng, *C1.gen_opaque(rng))
                if C1.prod(A0.ishape) > 64 or C1.prod(A0.oshape) > 64:
                    s0, A0 = C1.gen_tree(rng, 1, None)
            else:
                s0, A0 = C1.gen_tree(rng, max(0, min(depth, 4) - 2), None)
        except Exception as e:
            return viol, dis, dict(skipped="build: %r" % (e,))
        ish, osh = C1.ishp(A0), C1.oshp(A0)
        square = ish == osh
        int_ok = all(lf[1] in HIST_INT_SAFE for lf in C1.leaves(s0))
        dts = [d for d in dtypes if int_ok or np.dtype(d).kind != "i"]
        xs = [gint(rng, ish, np.dtype(d)) for d in dts]
        xsnap = Snapshot([("x[%s]" % d, x) for d, x in zip(dts, xs)])
        ents = []

        def V(ent, kind, what, observed=None, expected=None):
            if any(v["key"].endswith(":" + kind) for v in viol):
                return
            viol.append(dict(key="C02:history:%s:%s" % (ent.cls, kind),
                             what="e%d = %s (%s) %s; history: %s" % (ent.idx, ent.label, ent.op, what, "; ".join(log[-14:])),
                             observed=observed, expected=expected))

        def run(ent, j, x=None, record=True):
            x = ent.xs[j] if x is None else x
            before = snap(x)
            try:
                y = ent.op(x)
            except Exception as e:
                y = e
            if snap(x) != before:
                V(ent, "mutates-input", "wrote into its input array", short(x), "input bytes unchanged")
            if isinstance(y, Exception):
                if record and ent.first[j] is not None:
                    V(ent, "changed-after-reuse", "raises on the %s input it accepted at its first application: %s: %s"
                      % (x.dtype, type(y.__cause__ or y).__name__, str(y.__cause__ or y)[:160]), repr(y)[:200], short(ent.first[j][1]))
                elif record and ent.exp[j] is not None and x.dtype.kind != "c":
                    # every part accepts this array (the combination of the parts' outputs is defined) and, below, the
                    # object accepts the same values in a complex array: A(a x + y) is defined, a A(x) + A(y) is not
                    try:
                        ent.op(x.astype(np.complex128))
                    except Exception:
                        return None
                    V(ent, "rejects-real-input", "raises on a %s array although each of its parts accepts that array and it "
                      "accepts the same values in a complex128 array: %s: %s"
                      % (x.dtype, type(y.__cause__ or y).__name__, str(y.__cause__ or y)[:160]), repr(y)[:200], short(ent.exp[j]))
                return None
            y = np.asarray(y)
            if y.dtype.kind in "fc" and y.size and not np.all(np.isfinite(y)) and np.all(np.isfinite(x)):
                # inf / nan out of a finite input: A(0 * x) = 0 * A(x) fails; reported once under a key that names the
                # leaf classes of the tree and the input dtype, and this (object, input) is not judged further
                kinds = set(lf[1] for lf in C1.leaves(s0))
                cause = "nufft" if kinds & {"nufft", "nufftadj", "sense", "convsense", "convimage"} else "+".join(sorted(kinds))
                # the recorded finding is the apodisation of a NARROW kernel (width < 3, outside C06's width range) on a real
                # single-precision array; a non-finite NUFFT output for any other kernel keeps the general key
                narrow = [lf for lf in C1.leaves(s0) if lf[1] in ("nufft", "nufftadj") and float(lf[2].get("width", 4)) < 3]
                if cause == "nufft" and narrow and x.dtype == np.float32:
                    cause = "nufft-width-below-3-float32"
                dk = {"c": "complex", "f": "real"}.get(x.dtype.kind, "integer")
                if not any(v["key"].startswith("C02:history:nonfinite-output") for v in viol):
                    viol.append(dict(key="C02:history:nonfinite-output:%s-input:%s" % (dk, cause),
                                     what="e%d = %s (%s) returns non-finite values for a finite %s input; history: %s"
                                     % (ent.idx, ent.label, ent.op, x.dtype, "; ".join(log[-14:])),
                                     observed=short(y), expected="finite values"))
                return None
            if not record:
                return y
            if ent.first[j] is None:
                ent.first[j] = (snap(y), y.copy())
            elif snap(y) != ent.first[j][0]:
                V(ent, "changed-after-reuse", "applied again to the same %s input gives a different output than its first "
                  "application (the object was used as an operand of later operator algebra in between)" % x.dtype,
                  short(y), short(ent.first[j][1]))
            if ent.exp[j] is not None:
                ok, err, tol = _close(y, ent.exp[j])
                if not ok:
                    V(ent, "not-sum-of-parts", "output for the %s input differs from the same combination of its parts' outputs "
                      "(max err %r, tol %r, output dtype %s, parts give %s)" % (x.dtype, err, tol, y.dtype, ent.exp[j].dtype),
                      short(y), short(ent.exp[j]))
            return y

        def parts_out(i, j, x=None):
            return run(ents[i], j, x=x, record=x is None)

        def add(rec, xs_, exp, exact):
            try:
                op = _hist_make(rec, lambda i: ents[i].op)
            except Exception:
                return None
            ent = _HEnt(len(ents), op, rec, _hist_spec(rec, ents), _hist_label(rec, ents), xs_, exact, exp)
            # size of the tree (leaves, with multiplicity): re-used operands make it grow geometrically
            if rec[0] == "c01":
                ent.nleaves = sum(1 for _ in C1.leaves(rec[1]))
            elif rec[0] == "extra":
                ent.nleaves = 1
            else:
                ids = {"add": rec[1:3], "sub": rec[1:3], "mul": rec[1:3], "neg": rec[1:2], "conj": rec[1:2],
                       "scal": rec[2:3], "rscal": rec[2:3]}.get(rec[0])
                ids = list(ids) if ids is not None else list(rec[1] if rec[0] in ("addn", "compn") else rec[2])
                ent.nleaves = sum(ents[i].nleaves for i in ids)
            ents.append(ent)
            log.append("e%d = %s" % (ent.idx, ent.label))
            for j in range(len(xs_)):
                run(ent, j)
            # "exact" = integer arithmetic below 2^20 everywhere (exact in float32 and float64 storage alike)
            if any(f is not None and f[1].size and float(np.max(np.abs(f[1]))) >= 2.0 ** 20 for f in ent.first):
                ent.exact = False
            return ent

        # ---- the pool: operators ish -> osh
        add(("c01", s0), xs, None, C1.is_exact(s0))
        for _ in range(2):
            try:
                s1, _A = C1.same_shape_variant(rng, s0, A0, 1)
            except Exception:
                continue
            add(("c01", s1), xs, None, C1.is_exact(s1))
        for _ in range(2):
            lab, mk = _hist_extra(rng, ish)
            if square:
                add(("extra", lab, mk), xs, None, False)
            else:
                e = add(("extra", lab, mk), xs, None, False)   # square on the input side, composed below
                if e is not None:
                    e.square_in = True
        pool = [e.idx for e in ents if not getattr(e, "square_in", False)]
        sq_in = [e.idx for e in ents if getattr(e, "square_in", False)]
        for i in sq_in:   # A0 * extra : ish -> osh
            exp = []
            for j in range(len(xs)):
                p = parts_out(i, j)
                exp.append(None if p is None else parts_out(0, j, x=p))
            e = add(("mul", 0, i), xs, exp, False)
            if e is not None:
                pool.append(e.idx)
        if not pool:
            return viol, dis, dict(skipped="empty pool")

        def pick():
            w = [3 if ents[i].rec[0] in ("add", "sub", "addn") else 2 if ents[i].rec[0] not in ("c01", "extra") else 1 for i in pool]
            return rng.choices(pool, weights=w)[0]

        def comb(fn, idxs, xs_of=None):
            """expected outputs of a new object from its parts' outputs, per input"""
            out = []
            for j in range(len(xs)):
                ps = [parts_out(i, j) if xs_of is None else parts_out(i, j, x=xs_of(k, j)) for k, i in enumerate(idxs)]
                out.append(None if any(p is None for p in ps) else fn(ps, j))
            return out

        terminals = []
        for ev in range(n_events):
            r = rng.random()
            if r < 0.5:
                kinds = ["add", "add", "sub", "addn", "scal", "rscal", "neg", "conj"] + (["mul", "compn"] if square else [])
                t = rng.choice(kinds)
                if t in ("add", "sub"):
                    a, b = pick(), pick()
                    exp = comb((lambda ps, j: 0 + ps[0] + ps[1]) if t == "add" else (lambda ps, j: ps[0] - ps[1]), [a, b])
                    e = add((t, a, b), xs, exp, ents[a].exact and ents[b].exact)
                elif t == "addn":
                    ids = [pick() for _ in range(rng.choice([2, 3, 3]))]
                    exp = comb(lambda ps, j: sum(ps[1:], 0 + ps[0]), ids)
                    e = add((t, ids), xs, exp, all(ents[i].exact for i in ids))
                elif t in ("scal", "rscal"):
                    a = pick()
                    c = rng.choice([2, -1, 0.5, complex(rng.randint(-2, 2), rng.choice([-1, 1, 2])), complex(1, 2)])
                    if t == "scal":      # c * A = Multiply(oshape, c) * A
                        exp = comb(lambda ps, j: ps[0] * c, [a])
                    else:                # A * c = A * Multiply(ishape, c)
                        exp = comb(lambda ps, j: ps[0], [a], xs_of=lambda k, j: xs[j] * c)
                    e = add((t, c, a), xs, exp, ents[a].exact)
                elif t == "neg":
                    a = pick()
                    e = add((t, a), xs, comb(lambda ps, j: -1 * ps[0], [a]), ents[a].exact)
                elif t == "conj":
                    a = pick()
                    exp = []
                    for j in range(len(xs)):
                        p = parts_out(a, j, x=np.conj(xs[j]))
                        exp.append(None if p is None else np.conj(p))
                    e = add((t, a), xs, exp, ents[a].exact)
                elif t == "mul":
                    a, b = pick(), pick()
                    exp = []
                    for j in range(len(xs)):
                        p = parts_out(b, j)
                        exp.append(None if p is None else parts_out(a, j, x=p))
                    e = add((t, a, b), xs, exp, ents[a].exact and ents[b].exact)
                else:
                    ids = [pick() for _ in range(3)]
                    exp = []
                    for j in range(len(xs)):
                        p = xs[j]
                        for i in reversed(ids):
                            p = None if p is None else parts_out(i, j, x=p)
                        exp.append(p)
                    e = add((t, ids), xs, exp, all(ents[i].exact for i in ids))
                if e is not None:
                    pool.append(e.idx)
            elif r < 0.65:
                t = rng.choice(["hstack", "vstack", "diag"])
                ids = [pick() for _ in range(rng.choice([2, 2, 3]))]
                ax = rng.choice([None, 0])
                cat = (lambda arrs: np.concatenate([np.asarray(a).ravel() for a in arrs])) if ax is None else \
                      (lambda arrs: np.concatenate([np.asarray(a) for a in arrs], axis=0))
                part = lambda k, j: xs[j] * (k + 1)      # the k-th block of the stacked input
                if t == "vstack":
                    zs = xs
                    exp = comb(lambda ps, j: cat(ps), ids)
                else:
                    zs = [cat([part(k, j) for k in range(len(ids))]) for j in range(len(xs))]
                    if t == "hstack":
                        exp = comb(lambda ps, j: sum(ps[1:], 0 + ps[0]), ids, xs_of=part)
                    else:
                        exp = comb(lambda ps, j: cat(ps), ids, xs_of=part)
                e = add((t, ax, ids), zs, exp, all(ents[i].exact for i in ids))
                if e is not None:
                    terminals.append(e.idx)
            elif r < 0.85:
                i = rng.choice(pool + terminals)
                j = rng.randrange(len(ents[i].xs))
                log.append("apply e%d to x[%s]" % (i, ents[i].xs[j].dtype))
                run(ents[i], j)
            else:
                i = rng.choice(pool + terminals)
                log.append("take e%d.H, e%d.N and apply them" % (i, i))
                try:
                    AH, AN = ents[i].op.H, ents[i].op.N
                    w = gint(rng, ents[i].op.oshape, np.complex128)
                    AH(w)
                    AN(ents[i].xs[0].astype(np.complex128))
                    ents[i].op.H.H
                except Exception:
                    pass
        # ---- final sweep: every object, every input, again; an equal object built from scratch
        log.append("re-apply every object")
        for ent in ents:
            for j in range(len(ent.xs)):
                run(ent, j)
            ch = ent.captured.changed()
            if ch:
                V(ent, "mutates-captured", "captured array(s) %s changed during the history" % ch, ch, "unchanged")
        if xsnap.changed():
            V(ents[0], "mutates-input", "input array(s) %s changed during the history" % xsnap.changed(), None, "unchanged")

        def rebuild(i):
            return _hist_make(ents[i].rec, rebuild)
        for ent in ents:
            try:
                twin = rebuild(ent.idx)
            except Exception:
                continue
            for j in range(len(ent.xs)):
                if ent.first[j] is None:
                    continue
                try:
                    y = np.asarray(twin(ent.xs[j]))
                except Exception:
                    continue
                if snap(y) != ent.first[j][0]:
                    V(ent, "differs-from-equal-object", "an equal operator built from scratch (same tree, equal parameters) "
                      "gives a different output for the %s input than this object gave first" % ent.xs[j].dtype,
                      short(ent.first[j][1]), short(y))
        # ---- linearity with complex a on real / integer inputs, on the objects with the longest history
        a = complex(rng.randint(-3, 3), rng.choice([-2, -1, 1, 2, 3]))
        for ent in [ents[i] for i in (pool + terminals)[-4:]]:
            for j, x in enumerate(ent.xs):
                if x.dtype.kind == "c" or ent.first[j] is None:
                    continue
                y2 = (np.roll(x.ravel(), 1).reshape(x.shape) * 2).astype(x.dtype)
                comb_ = a * x + y2
                l, r1, r2 = run(ent, j, x=comb_, record=False), ent.first[j][1], run(ent, j, x=y2, record=False)
                if l is None or r2 is None:
                    continue
                rhs = a * r1.astype(np.complex128) + r2.astype(np.complex128)
                lhs = l.astype(np.complex128)
                if ent.exact:
                    ok, err, tol = bool(np.array_equal(lhs, rhs)), None, 0.0
                else:
                    scale = max(1.0, float(np.max(np.abs(rhs))) if rhs.size else 1.0)
                    tol = 2e-4 * scale * max(1, int(np.sqrt(lhs.size)))    # real input: single-precision paths (C05), see check_linop
                    err = float(np.max(np.abs(lhs - rhs))) if lhs.size else 0.0
                    ok = err <= tol
                if not ok:
                    V(ent, "nonlinear", "A(a x + y) != a A(x) + A(y) for a=%r and %s x, y (max err %r, tol %r)" % (a, x.dtype, err, tol),
                      short(lhs), short(rhs))
        # ---- the Lean denotation of (tree, input)
        n_model = 0
        if driver is not None:
            # trees of up to 48 leaves are sent to the model (larger ones are still covered by oracles 1-5)
            me = [e for e in ents if e.spec is not None and e.nleaves <= 48 and all(f is not None for f in e.first)]
            lines = ["C02 mats %s" % " ".join(C1.rpn(e.spec)) for e in me]
            for e, ln, rep in zip(me, lines, driver(lines)):
                if rep == "err model-timeout":
                    continue
                m = C1.parse_reply(rep)
                if not isinstance(m, dict):
                    dis.append(dict(fn="tree:" + e.label, stream="tree-denotation", what="model reply %s for %s" % (rep[:80], ln[:200]), ir=rep[:80]))
                    continue
                n_model += 1
                for j, x in enumerate(e.xs):
                    want = (m["M"] @ x.astype(np.complex128).reshape(-1))
                    got = e.first[j][1].astype(np.complex128).reshape(-1)
                    if e.exact:
                        ok = got.shape == want.shape and bool(np.array_equal(got, want))
                    else:
                        single = x.dtype.itemsize // (2 if x.dtype.kind == "c" else 1) < 8
                        tl = (2e-4 if single else 1e-9) * max(1.0, float(np.max(np.abs(want))) if want.size else 1.0)
                        ok = got.shape == want.shape and (got.size == 0 or float(np.max(np.abs(got - want))) <= tl)
                    if not ok:
                        dis.append(dict(fn="tree:" + e.label, stream="tree-denotation",
                                        what="live object e%d after history [%s]: output for the %s input is not M x of the Lean denotation of its tree %s"
                                        % (e.idx, "; ".join(log[-8:]), x.dtype, ln[:300]), ir=short(want)))
                        break
    shapes = sorted(set(e.rec[0] for e in ents))
    return viol, dis, dict(cls="hist", objects=len(ents), events=n_events, model_compared=n_model, shapes=shapes,
                           dtypes=dts, tree=ents[0].label if ents else None)


# ================================================================================================
# MRI recon apps (sigpy/mri/app.py): y, mps, weights, coord, z are never written (validates the IR's constructor table)
# ================================================================================================
RECONS = ["SenseRecon", "L1WaveletRecon", "TotalVariationRecon", "EspiritCalib", "JsenseRecon"]


def check_recon(spec, claims=None):
    import sigpy as sp
    import sigpy.mri as mr
    viol = []
    rng = random.Random(spec["seed"])
    kind = spec["app"]
    with warnings.catch_warnings():
        warnings.simplefilter("ignore")
        nc = rng.randint(1, 3)
        img = [rng.choice([4, 6, 8]) for _ in range(rng.choice([1, 2]) if kind != "EspiritCalib" else 2)]
        named = []
        try:
            if kind in ("SenseRecon", "L1WaveletRecon", "TotalVariationRecon"):
                mps = gint(rng, [nc] + img, np.complex128, -2, 2) + 1
                noncart = rng.random() < 0.4
                coord = _coord(rng, [rng.randint(4, 10)], img, half=False) if noncart else None
                ksh = [nc] + (img if coord is None else list(coord.shape[:-1]))
                y = _variants(rng, gint(rng, ksh, np.complex128))
                weights = None if rng.random() < 0.5 else gint(rng, ksh[1:], np.float64, 0, 2)
                kw = dict(coord=coord, weights=weights, max_iter=rng.randint(1, 3), show_pbar=False)
                if rng.random() < 0.5 and kind == "SenseRecon":
                    kw["z"] = gint(rng, img, np.complex128)
                    kw["lamda"] = 0.5
                if rng.random() < 0.4:
                    kw["x"] = gint(rng, img, np.complex128)
                if kind == "SenseRecon":
                    kw.setdefault("lamda", rng.choice([0, 0.1]))
                    kw["solver"] = rng.choice([None, "ConjugateGradient", "GradientMethod", "ADMM"])
                    if kw["solver"] == "ADMM":
                        kw["rho"] = 1.0
                    mk = lambda: mr.app.SenseRecon(y, mps, **kw)
                elif kind == "L1WaveletRecon":
                    kw["max_power_iter"] = 2
                    mk = lambda: mr.app.L1WaveletRecon(y, mps, 0.01, wave_name=rng.choice(["haar", "db2"]), **kw)
                else:
                    kw["max_power_iter"] = 2
                    mk = lambda: mr.app.TotalVariationRecon(y, mps, 0.01, **kw)
                named = [("y", y), ("mps", mps)] + [(n, kw[n]) for n in ("coord", "weights", "z") if kw.get(n) is not None]
                if y.base is not None:
                    named.append(("y.base", y.base))
            elif kind == "EspiritCalib":
                ksp = _variants(rng, gint(rng, [nc] + img, np.complex128))
                mk = lambda: mr.app.EspiritCalib(ksp, calib_width=4, kernel_width=2, max_iter=3, show_pbar=False)
                named = [("ksp", ksp)]
            else:
                noncart = rng.random() < 0.3
                coord = _coord(rng, [rng.randint(6, 12)], img, half=False) if noncart else None
                ksh = [nc] + (img if coord is None else list(coord.shape[:-1]))
                y = gint(rng, ksh, np.complex128)
                weights = None if rng.random() < 0.5 else gint(rng, ksh[1:], np.float64, 0, 2) + 1
                mk = lambda: mr.app.JsenseRecon(y, mps_ker_width=2, ksp_calib_width=4, lamda=0.1, coord=coord, weights=weights,
                                                max_iter=1, max_inner_iter=2, show_pbar=False)
                named = [("y", y)] + [(n, v) for n, v in (("coord", coord), ("weights", weights)) if v is not None]
            s = Snapshot(named)
            app = mk()
            ch0 = s.changed()
            app.run()
        except Exception as e:
            return viol, [], dict(skipped="%r" % (e,))
        ch = ch0 or s.changed()
        if ch:
            for c in sorted(set(ch)):
                viol.append(dict(key="C02:%s:mutates-%s" % (kind, c.split(".")[0]),
                                 what="%s wrote into %s (%s)" % (kind, ch, "in the constructor" if ch0 else "in run()"),
                                 observed=ch, expected="data arrays unchanged"))
    return viol, [], dict(cls=kind)


CHECKERS = {"recon": check_recon, "linop": check_linop, "prox": check_prox, "fn": check_fn, "lls": check_lls, "hist": check_hist}


def run_spec(spec, claims=None, driver=None):
    if spec["kind"] == "hist":
        return check_hist(spec, claims, driver)
    return CHECKERS[spec["kind"]](spec, claims)


# ================================================================================================
# stream
# ================================================================================================
def gen_hist_specs(rng, n):
    return [dict(kind="hist", k=rng.choice([2, 3, 3, 4]), seed=rng.randrange(1 << 30), n_events=rng.choice([6, 9, 12, 16]))
            for _ in range(n)]


def gen_specs(rng, n_per_op, n_per_fn, n_per_prox, n_lls, n_hist=0):
    specs = gen_hist_specs(rng, n_hist)
    for op in ALL_OPS:
        for j in range(n_per_op):
            specs.append(dict(kind="linop", op=op, k=rng.choice([2, 3, 3, 4, 5]), seed=rng.randrange(1 << 30),
                              dtype=rng.choice(["complex128", "complex128", "complex64"]),
                              noncontig=rng.random() < 0.25, real_xy=rng.random() < 0.2))
    for f in FUNCS:
        for j in range(n_per_fn):
            specs.append(dict(kind="fn", fn=f, k=rng.choice([2, 3, 4, 5]), seed=rng.randrange(1 << 30),
                              dtype=rng.choice(["complex128", "complex128", "complex64", "float64"])))
    for p in PROXES:
        for j in range(n_per_prox):
            specs.append(dict(kind="prox", prox=p, k=rng.choice([2, 3, 4]), seed=rng.randrange(1 << 30),
                              dtype=rng.choice(["complex128", "float64"])))
    for j in range(n_lls):
        specs.append(dict(kind="lls", k=rng.choice([2, 3]), seed=rng.randrange(1 << 30),
                          A=["Identity", "Reshape", "Multiply1", "Multiply", "Flip"][j % 5],
                          solver=["ConjugateGradient", "ADMM", "GradientMethod", "PrimalDualHybridGradient"][(j // 5) % 4]))
    for j in range(n_lls // 2):
        specs.append(dict(kind="recon", app=RECONS[j % len(RECONS)], seed=rng.randrange(1 << 30)))
    return specs


def load_claims(ctx):
    """the Lean analysis' result for every generated program (via the compiled driver)"""
    r = ctx.driver(["C02 list"])
    if not r or not r[0].startswith("ok "):
        return None
    names = r[0][3:].split(",")
    rep = ctx.driver(["C02 summary " + n for n in names])
    claims = {}
    for n, ln in zip(names, rep):
        if not ln.startswith("ok "):
            continue
        kv = dict(t.split("=") for t in ln[3:].split())
        claims[n] = dict(ok=kv["ok"] == "1", clean=kv["clean"] == "1",
                         mut=[] if kv["mut"] == "-" else kv["mut"].split(","),
                         ret=[] if kv["ret"] == "-" else kv["ret"].split(","))
    return claims


def correspond(ctx):
    ctx.rule = ("cases = (kind, class/function, size scale k, seed, dtype, contiguity); the seed deterministically draws "
                "valid constructor parameters, captured arrays and Gaussian-integer inputs; kind=hist: the seed draws a tree "
                "(C01 generator, depth k-2; 20% a small tree around an FFT/NUFFT/wavelet/convolution/MRI leaf), same-shape "
                "variants, inexact / complex-valued extras, and n_events events of operator algebra on the pool of LIVE objects "
                "(operands re-used), applications and .H/.N; inputs of dtypes complex128, float64, float32, int64 (integer only "
                "for trees of numpy-indexing leaves), complex64; distinct by the whole spec; "
                "non-trivial = the object was built and applied (skipped builds are not counted)")
    claims = load_claims(ctx)
    ctx.oblige("correspondence:C02.driver-claims", "correspondence", claims is not None and len(claims) > 50,
               "driver returned %s summaries" % (None if claims is None else len(claims)))
    claims = claims or {}
    # the driver's verdicts must agree with the generated obligations (kernel side vs compiled side)
    g = _META.get("gen")
    bad = 0
    if g is not None:
        for k in gen_c02.ok_keys(g):
            al = gen_c02.allowed_slots(g, k)
            if k in claims and al is not None:
                if not claims[k]["ok"] or not set(claims[k]["mut"]) <= {"F"} | {a[1] for a in al}:
                    bad += 1
                    ctx.disagree("verdict", dict(fn=k), "translator expects writes within %s" % [a[2] for a in al], claims[k])
            elif k in claims and not claims[k]["clean"]:
                bad += 1
                ctx.disagree("verdict", dict(fn=k), "translator expects clean", claims[k])
            py = g.done[k]["summary"]
            if k in claims and (sorted(claims[k]["mut"]) != py["wr"] or sorted(claims[k]["ret"]) != py["ret"]):
                bad += 1
                ctx.disagree("mirror", dict(fn=k), py, claims[k])
    ctx.oblige("correspondence:C02.verdicts", "correspondence", bad == 0, "%d functions whose compiled analysis differs" % bad)
    q = ctx.tier == "quick"
    specs = gen_specs(ctx.rng, 15 if q else 150, 10 if q else 100, 10 if q else 100, 40 if q else 200, 60 if q else 500)
    pend, nbad, skipped, ntree, nmodel = [], 0, 0, 0, 0
    drv = lambda lines: ctx.driver_guarded(lines)
    for sp_ in specs:
        viol, dis, info = run_spec(sp_, claims, driver=drv)
        if "skipped" in info:
            skipped += 1
            ctx.count("skipped:" + sp_["kind"])
            continue
        ctx.case(json.dumps(sp_, sort_keys=True), sample=dict(spec=sp_, info=info) if ctx.evaluations % 53 == 0 else None)
        ctx.count("%s:%s" % (sp_["kind"], sp_.get("op") or sp_.get("fn") or sp_.get("prox") or sp_.get("A") or sp_.get("app")))
        if sp_["kind"] == "hist":
            nmodel += info.get("model_compared", 0)
            for t in info.get("shapes", []):
                ctx.count("hist-node:" + t)
            ctx.count("hist-objects", info.get("objects", 0))
        for d in dis:
            if d.get("stream") == "tree-denotation":
                ntree += 1
                ctx.disagree("tree-denotation", dict(spec=sp_, what=d["what"], fn=d["fn"]), "output of the live object", d["ir"])
                continue
            nbad += 1
            ctx.disagree("effects", dict(spec=sp_, what=d["what"], fn=d["fn"]), "observed on the real code", d["ir"])
        if viol:
            pend.append((sp_, viol))
    ctx.traces = ctx.evaluations
    ctx._c02_pending = pend
    ctx.oblige("correspondence:C02.tree-denotation", "correspondence", ntree == 0 and nmodel > 0,
               "%d live operator objects (after histories of operator algebra, for inputs of every dtype) whose output is not "
               "M x for the matrix of the Lean denotation of their tree; %d objects compared" % (ntree, nmodel))
    ctx.oblige("correspondence:C02.effects", "correspondence", nbad == 0,
               "%d observations (memory sharing / writes) not covered by the IR's claims; %d cases skipped" % (nbad, skipped))
    ctx.oblige("correspondence:C02.coverage", "correspondence", skipped <= 0.2 * max(1, len(specs)),
               "%d of %d generated cases could not be built/applied" % (skipped, len(specs)))
    ctx.assumptions += [
        "IR table of numpy view/copy semantics (harness/translate/gen_c02.py) is validated by the runtime stream, not proved",
        "child operators / proxes called from composite operators obey the contract proved for every class (assume-guarantee)",
        "CuPy / GPU arms (`if xp == np` else-branches) are out of scope",
        "numba kernels write only through their first parameter (checked syntactically on every run)",
        "apps: the algorithm constructors (ConjugateGradient, GradientMethod, PrimalDualHybridGradient, ADMM, PowerMethod, "
        "LinearLeastSquares) keep references to their arguments and write, in their later updates, only the in/out arguments "
        "listed in gen_c02.ALG_WRITES (x, u, v); Linop / Prox constructors only store references; no class of linop.py defines an "
        "in-place operator method (checked syntactically on every run); validated by check_lls (byte snapshots of y, z and every "
        "array captured by A around construction and run())",
        "the matrix the driver returns for `C02 mats <tree>` is C01.denote of the tree (the definition tree_linear / "
        "algebra_history_deterministic are about); live objects are compared with it after histories of operator algebra",
    ]


def shrink(spec):
    """smaller scale / other seeds with the same kind of case; returns the smallest failing spec found"""
    best = spec
    if "k" not in spec:      # recon cases have no size scale: the case itself is already small
        return best
    if spec["kind"] == "hist":
        for ne in (2, 3, 5, 8):
            if ne >= spec.get("n_events", 10):
                break
            for s in range(30):
                cand = dict(spec, k=min(spec["k"], 3), n_events=ne, seed=spec["seed"] % 1000 + s)
                viol, _, info = run_spec(cand)
                if viol:
                    return cand
        return best
    for k in (2, 3):
        if k >= best["k"]:
            break
        for s in range(40):
            cand = dict(spec, k=k, seed=spec["seed"] % 1000 + s)
            viol, _, info = run_spec(cand)
            if viol:
                return cand
    return best


def report(ctx, spec, viol, origin):
    for v in viol:
        ctx.fail(v["key"], v["what"], dict(spec=spec, key=v["key"]), observed=v["observed"], expected=v["expected"], origin=origin)


def search(ctx, budget):
    rng = ctx.rng
    seen_keys = set()
    # 1. cases on which the correspondence stream saw the property fail, and disagreeing cases: re-run, shrink
    todo = list(getattr(ctx, "_c02_pending", []))
    for d in ctx.disagreements[:50]:
        c = d.get("case") or {}
        if isinstance(c, dict) and "spec" in c:
            todo.append((c["spec"], None))
    for spec, _ in todo[:200]:
        viol, _, _ = run_spec(spec)
        if not viol:
            continue
        keys = tuple(sorted(v["key"] for v in viol))
        if keys in seen_keys:
            continue
        seen_keys.add(keys)
        small = shrink(spec)
        v2, _, _ = run_spec(small)
        report(ctx, small if v2 else spec, v2 or viol, "correspondence-stream")
    # 2. budgeted search with more parameters
    n = max(1, int(4 * budget))
    specs = gen_specs(rng, n, n, n, int(10 * budget), int(40 * budget))
    if ctx.broken:
        # obligations that no longer check point at functions: put most of the budget there
        names = " ".join(o["name"] + " " + o["detail"] for o in ctx.broken)
        focus = [f for f in FUNCS if ("prog_" + f.replace(".", "_") + "_ok") in names]
        focus_ops = [o for o in ALL_OPS if ("linop_%s__apply_ok" % o) in names]
        focus_px = [p for p in PROXES if ("prox_%s__prox_ok" % p) in names]
        for f in focus:
            specs += [dict(kind="fn", fn=f, k=rng.choice([2, 3, 4]), seed=rng.randrange(1 << 30), dtype=rng.choice(["complex128", "float64"])) for _ in range(60)]
        for o in focus_ops:
            specs += [dict(kind="linop", op=o, k=rng.choice([2, 3, 4]), seed=rng.randrange(1 << 30), dtype="complex128", noncontig=rng.random() < 0.3, real_xy=False) for _ in range(60)]
        for p in focus_px:
            specs += [dict(kind="prox", prox=p, k=rng.choice([2, 3]), seed=rng.randrange(1 << 30), dtype="complex128") for _ in range(60)]
        if "prog_app_LinearLeastSquares" in names:
            specs += [dict(kind="lls", k=rng.choice([2, 3]), seed=rng.randrange(1 << 30),
                           A=["Identity", "Reshape", "Multiply1", "Multiply", "Flip"][j % 5],
                           solver=["ConjugateGradient", "ADMM", "GradientMethod", "PrimalDualHybridGradient"][(j // 5) % 4]) for j in range(120)]
        if "prog_mri_app" in names:
            specs += [dict(kind="recon", app=RECONS[j % len(RECONS)], seed=rng.randrange(1 << 30)) for j in range(100)]
    for spec in specs:
        viol, _, info = run_spec(spec)
        if "skipped" in info:
            continue
        ctx.case(("oracle", json.dumps(spec, sort_keys=True)))
        if viol:
            keys = tuple(sorted(v["key"] for v in viol))
            if keys in seen_keys:
                continue
            seen_keys.add(keys)
            small = shrink(spec)
            v2, _, _ = run_spec(small)
            report(ctx, small if v2 else spec, v2 or viol, "search")


def replay(path):
    r = json.load(open(path))
    print(json.dumps(r, indent=1)[:3000])
    if r.get("kind") != "failing-input":
        return 0
    spec = r["case"]["spec"]
    try:
        gen_c02.gen_effects(None)
        _META["gen"] = gen_c02._LAST.get("gen")
    except Exception:
        pass
    viol, _, info = run_spec(spec)
    want = r["case"].get("key")
    hit = [v for v in viol if want is None or v["key"] == want]
    for v in viol:
        print("  ", v["key"], "-", v["what"])
    print("replay:", "property FAILS on this input" if hit else "property holds on this input", info)
    return 1 if hit else 0
