"""C05 — fft/ifft are the centred unitary DFT and mutually inverse.

correspond: the implementation's matrix is extracted column by column (basis vectors through
  sp.fft / sp.ifft / linop.FFT / linop.IFFT / their .H), every entry is quantised to
  (phase as a fraction of a turn, squared magnitude as a fraction) — an entry that is not within
  the tolerance of a scaled root of unity is a disagreement — and compared EXACTLY with the table the
  Lean model computes through the generated pipeline; result dtypes are compared as strings.
  Inputs are fed in C order, Fortran order, as strided / offset / negative-stride views (`layout`), and a
  `same-shape-sequence` stream calls fft/ifft on ONE shape with a sequence of different
  (axes, center, norm, direction) settings — returning to earlier settings — and compares every result
  with the model, so state kept between calls and keyed on the shape only shows in the correspondence.
search: the property's own oracle on the real code — explicit DFT-matrix product in complex128
  written from the statement (centre pad/crop, origin n//2 or 0, scale table), round trip, norm
  preservation and precision preservation; random cases, a dtype x layout x entry-point sweep
  (float32 / complex64 / int / complex128 through sp.fft, sp.ifft, linop.FFT, linop.IFFT and their
  adjoints), and the same history-dependent sequences (a failing step records the calls made before it
  on that shape, and the replay re-issues them first).
"""
import itertools
import json
import math
from fractions import Fraction

import numpy as np

from harness import common
from harness.translate import gen as G

PROPERTY = "C05"
LEAN_MODULES = ["SigpyVerif.Props.C05", "SigpyVerif.Props.C05Nd"]
THEOREMS = ["SigpyVerif.C05." + t for t in [
    # integers: the table computed through the generated pipeline
    "pipelines_are_centred", "normAxis_spec", "rollDst_rollSrc", "fftc_exponent", "fft_uncentred_exponent",
    "axisExp_symm", "resize_dst", "centred_axis_table", "signedExp_spec", "centred_axis_entry",
    "centred_axis_identity", "uncentred_axis_table", "scale2_table", "outDtype_complex",
    # complex matrices the table denotes
    "axisExp_eq", "dft_orthogonality", "idftMatrix_eq_conjTranspose", "dft_mul_general", "dftMatrix_unitary",
    "ifft_fft_id", "fft_ifft_id", "fft_norm_preserved", "backward_scaling_inverse", "fft_separable_unitary",
    "identity_axis_unitary", "signedExp_denote", "entry_separable", "phase_add",
    # N-d (Props/C05Nd.lean): n-fold Kronecker product on multi-indices
    "piKron_mul", "piKron_one", "piKron_conjTranspose", "piKron_unitary", "piKron_ite_apply",
    "fftn_matrix_entry", "fftn_unitary", "ifftn_eq_conjTranspose", "fftn_mul_general", "ifftn_fftn_id",
    "fftn_ifftn_id", "fftn_norm_preserved", "fftn_backward_scaling_inverse", "fftn_unitary_flat",
    # axes: negative spellings, subsets, the matrix depends on the axis set only
    "nodup_of_eraseDups_length", "axesOk_spec", "normAxis_eq_iff", "axes_normalised_distinct",
    "axes_normalised_uncentred", "axes_none", "entryGo_axes_congr", "spellings_same_matrix",
    # the executable table denotes the N-d matrix
    "mkPipe_steps", "axisEntry_mag_nonneg", "entryGo_cons_denote", "entryGo_denote", "root_primitive", "root_inv",
    "exp_phase", "centred_axis_denote", "plain_axis_denote", "id_axis_denote", "tr_axis_denote", "entry_denote",
    "ortho_scale", "fft_table_unitary", "ifft_table_eq_conjTranspose",
    # centred oshape in N-d = F_Nd after C09's resize
    "axis_oshape_factor", "entryGo_oshape", "fft_oshape_eq_fftn_resize", "fft_oshape_aligned", "resize_feeds_fftn",
    # the function the driver runs
    "table_eq", "sigpy_fft_unitary",
]]

TOL64 = 1e-5     # relative, complex64 path (observed rounding <= 3e-7)
TOL128 = 1e-10   # relative, complex128 path (observed rounding <= 1e-15)
COMPLEX = ("complex64", "complex128")
REAL = ("float32", "float64", "int64", "int32", "bool", "uint8", "float16")


def translate(ctx):
    G.regenerate(ctx, ["UtilFormulas", "Fourier"])


# ---- protocol helpers -----------------------------------------------------------------------
def L(x):
    x = list(x)
    return ",".join(str(int(v)) for v in x) if x else "-"


def O(x):
    return "none" if x is None else L(x)


def line(c, j):
    return "C05 col inv=%d center=%d norm=%s ish=%s osh=%s ax=%s dt=%s j=%s" % (
        c["inv"], c["center"], c["norm"] or "none", L(c["ish"]), O(c["osh"]), O(c["axes"]), c["dt"], L(j))


def parse_frac(s):
    return Fraction(s)


def parse_reply(r):
    """-> (dtype, shape, [None | (phase, mag2)]) or the error string"""
    if not r.startswith("ok "):
        return r
    head, data = r[3:].split(" | ")
    dt, sh = head.split(" ")
    shape = [] if sh == "-" else [int(v) for v in sh.split(",")]
    ents = []
    for e in data.split(","):
        if e == "z":
            ents.append(None)
        else:
            p, m = e.split(":")
            ents.append((Fraction(p), Fraction(m)))
    return (dt, shape, ents)


# ---- quantisation of an implementation entry ---------------------------------------------------
_DIV = {}


def divisors(n):
    if n not in _DIV:
        _DIV[n] = sorted(d for d in range(1, int(math.isqrt(n)) + 1) if n % d == 0)
        _DIV[n] = sorted(set(_DIV[n]) | {n // d for d in _DIV[n]})
    return _DIV[n]


def nearest_div(v, n):
    ds = divisors(n)
    return min(ds, key=lambda d: abs(math.log(d) - math.log(v)))


def quantise(z, shape, tol):
    """complex -> None (zero) | (phase Fraction in [0,1), mag² Fraction) | ('nonroot', repr).
    The squared magnitude is snapped to the nearest a or 1/a with a | (Π shape)² (the only values a
    product of per-axis scales 1, 1/n, 1/√n and their inverses can take), the phase to the nearest
    multiple of 1/lcm(shape); the entry must then be within `tol` (relative) of that scaled root."""
    N = int(np.prod(shape)) if len(shape) else 1
    a = abs(z)
    if a <= 1e-6 / (N * N):
        return None
    Lc = 1
    for n in shape:
        Lc = Lc * n // math.gcd(Lc, n)
    m2 = a * a
    if m2 <= 1:
        mag2 = Fraction(1, nearest_div(1.0 / m2, N * N))
    else:
        mag2 = Fraction(nearest_div(m2, N * N))
    r = int(round(math.atan2(z.imag, z.real) / (2 * math.pi) * Lc)) % Lc
    ph = Fraction(r, Lc)
    s = math.sqrt(float(mag2))
    want = s * complex(math.cos(2 * math.pi * r / Lc), math.sin(2 * math.pi * r / Lc))
    if abs(z - want) > tol * s:
        return ("nonroot", "%r" % complex(z))
    return (ph, mag2)


# ---- memory layouts ------------------------------------------------------------------------------
LAYOUTS = ("C", "F", "strided", "offset", "negstride")


def with_layout(x, layout):
    """a fresh array with the values of `x` and the requested memory layout (never shares memory with x)"""
    x = np.asarray(x)
    if layout == "C" or x.ndim == 0:
        return np.array(x, order="C", copy=True)
    if layout == "F":
        return np.array(x, order="F", copy=True)
    if layout == "strided":      # every second element of a buffer twice as long along every axis
        big = np.full(tuple(2 * n for n in x.shape), 7, dtype=x.dtype)
        v = big[tuple(slice(None, None, 2) for _ in x.shape)]
        v[...] = x
        return v
    if layout == "offset":       # interior of a larger buffer (non-zero offset, row length != shape[-1])
        big = np.full(tuple(n + 3 for n in x.shape), 5, dtype=x.dtype)
        v = big[tuple(slice(1, n + 1) for n in x.shape)]
        v[...] = x
        return v
    if layout == "negstride":    # reversed in memory along every axis
        rev = tuple(slice(None, None, -1) for _ in x.shape)
        return np.array(x[rev], order="C", copy=True)[rev]
    raise ValueError(layout)


# ---- running the real code -----------------------------------------------------------------------
def run_impl(c, x):
    import sigpy as sp
    from sigpy import linop
    x = with_layout(x, c.get("layout", "C"))
    axes = None if c["axes"] is None else tuple(c["axes"])
    osh = None if c["osh"] is None else tuple(c["osh"])
    via = c.get("via", "func")
    if via == "func":
        f = sp.ifft if c["inv"] else sp.fft
        return f(x, oshape=osh, axes=axes, center=bool(c["center"]), norm=c["norm"])
    assert osh is None and c["norm"] == "ortho"
    if via == "linop":
        A = (linop.IFFT if c["inv"] else linop.FFT)(c["ish"], axes=axes, center=bool(c["center"]))
    elif via == "linopH":   # the adjoint of the other operator must be this one
        A = (linop.FFT if c["inv"] else linop.IFFT)(c["ish"], axes=axes, center=bool(c["center"])).H
    else:
        raise ValueError(via)
    return A(x)


def tol_of(dt):
    return TOL128 if dt == "complex128" else TOL64


# ---- case generation ------------------------------------------------------------------------
def rand_axes(rng, nd):
    if rng.random() < 0.25:
        return None
    k = rng.choice([0, 1, 1, 2, 2, 3]) if rng.random() < 0.8 else nd
    k = min(k, nd)
    ax = rng.sample(range(nd), k)
    return [a - nd if rng.random() < 0.5 else a for a in ax]


def rand_len(rng, hi=8):
    if hi == 8:
        return rng.choice([1, 2, 3, 3, 4, 5, 5, 6, 7, 7, 8])
    return rng.randint(1, hi)


def gen_case(rng, max_nd=3, hi=8, linops=True):
    nd = rng.choice([1, 2, 2, 3, 3] if max_nd <= 3 else [1, 2, 3, 3, 4, 4])
    ish = [rand_len(rng, hi) for _ in range(nd)]
    c = dict(inv=rng.randint(0, 1), center=rng.randint(0, 1) if rng.random() < 0.7 else 1,
             norm=rng.choice(["ortho", None]), ish=ish, osh=None, axes=rand_axes(rng, nd),
             dt=rng.choice(COMPLEX) if rng.random() < 0.7 else rng.choice(REAL), via="func")
    if c["center"] and rng.random() < 0.6:
        c["osh"] = [max(1, n + rng.choice([-3, -2, -1, -1, 0, 1, 1, 2, 3])) for n in ish]
    if linops and c["osh"] is None and c["norm"] == "ortho" and rng.random() < 0.5:
        c["via"] = rng.choice(["linop", "linopH"])
    if rng.random() < 0.5:
        c["layout"] = rng.choice(LAYOUTS[1:])
    return c


def rand_setting(rng, nd, allow_osh_of=None):
    """one (direction, center, norm, axes, entry point) setting for a fixed shape"""
    s = dict(inv=rng.randint(0, 1), center=rng.randint(0, 1) if rng.random() < 0.4 else 1,
             norm=rng.choice(["ortho", None]), axes=rand_axes(rng, nd), via="func", osh=None)
    if s["norm"] == "ortho" and rng.random() < 0.3:
        s["via"] = rng.choice(["linop", "linopH"])
    return s


def same_shape_sequences(rng, nseq, length, hi=6, max_nd=3):
    """nseq sequences; each is ONE shape (lengths biased to even values: the place where shifts can be
    replaced by modulations / precomputed tables) x `length` different settings, then the first two again.
    Every step carries `history` = the settings issued before it on this shape."""
    out = []
    for _ in range(nseq):
        nd = rng.choice([1, 2, 2, 3, 3] if max_nd <= 3 else [2, 3, 3, 4])
        ish = [rng.choice([2, 4, 4, 6, 6, 2, 3, 5, 1]) if hi >= 6 else rng.randint(1, hi) for _ in range(nd)]
        dt = rng.choice(COMPLEX + ("float32", "int64"))
        layout = rng.choice(LAYOUTS)
        settings, seen = [], set()
        for _ in range(length * 4):
            st = rand_setting(rng, nd)
            sig = json.dumps(st, sort_keys=True)
            if sig not in seen:
                seen.add(sig)
                settings.append(st)
            if len(settings) >= length:
                break
        settings = settings + settings[:2]
        hist = []
        for st in settings:
            out.append(dict(st, ish=ish, dt=dt, layout=layout, history=list(hist)))
            hist.append(st)
    return out


def exhaustive_1d(max_n):
    for n in range(1, max_n + 1):
        for inv, norm in itertools.product((0, 1), ("ortho", None)):
            for axes in (None, [0], [-1]):
                for dt in COMPLEX:
                    yield dict(inv=inv, center=0, norm=norm, ish=[n], osh=None, axes=axes, dt=dt, via="func")
                    for o in [None] + [n + d for d in range(-3, 4) if n + d >= 1]:
                        yield dict(inv=inv, center=1, norm=norm, ish=[n], osh=None if o is None else [o],
                                   axes=axes, dt=dt, via="func")


def exhaustive_2d(max_n):
    """every 2-D shape x every axes subset (positive and negative spelling) x centre: the place where a
    wrong axis normalisation or a shift on the wrong axes shows"""
    subsets = [None, [], [0], [1], [-1], [-2], [0, 1], [-1, 0], [1, -2], [-2, -1]]
    for a, b in itertools.product(range(1, max_n + 1), repeat=2):
        for axes in subsets:
            for center in (0, 1):
                yield dict(inv=(a + b) % 2, center=center, norm="ortho" if (a * b) % 2 else None, ish=[a, b], osh=None,
                           axes=axes, dt="complex128", via="func")


def columns_of(c, rng, full_below=24, k=8):
    idx = list(itertools.product(*[range(n) for n in c["ish"]]))
    if len(idx) <= full_below:
        return idx
    pick = {idx[0], idx[-1], tuple(n // 2 for n in c["ish"]), tuple((n - 1) // 2 for n in c["ish"])}
    while len(pick) < k:
        pick.add(rng.choice(idx))
    return sorted(pick)


def basis(c, j):
    x = np.zeros(c["ish"], dtype=np.dtype(c["dt"]))
    x[tuple(j)] = 1
    return x


def key_of(c, aspect):
    return "C05:%s:%s:%s" % (("ifft" if c["inv"] else "fft") if c.get("via", "func") == "func" else
                             ("IFFT" if c["inv"] else "FFT") + {"linop": "", "linopH": "(adjoint)"}[c["via"]],
                             "centred" if c["center"] else "uncentred", aspect)


def _run(ctx, cases, stream, rng, full_below=24, k=8):
    lines, meta = [], []
    for c in cases:
        for j in columns_of(c, rng, full_below, k):
            lines.append(line(c, j))
            meta.append((c, j))
    replies = ctx.driver(lines)
    bad = 0
    for (c, j), ln, r in zip(meta, lines, replies):
        model = parse_reply(r)
        try:
            y = run_impl(c, basis(c, j))
            sh = list(y.shape)
            tol = tol_of(c["dt"])
            impl = (str(y.dtype), sh, [quantise(complex(z), sh, tol) for z in y.ravel()])
        except Exception as e:  # noqa
            impl = "err %s" % type(e).__name__
        ctx.case((ln, c["via"], c.get("layout", "C"), len(c.get("history", ()))), sample=dict(line=ln, reply=r[:160]) if ctx.evaluations % 211 == 0 else None)
        ctx.count("%s:%s:%s:%s:%dd" % ("ifft" if c["inv"] else "fft", "c" if c["center"] else "u", c["norm"], c["via"], len(c["ish"])))
        ctx.count("dtype:" + c["dt"])
        ctx.count("oshape:" + ("none" if c["osh"] is None else "given"))
        ctx.count("layout:" + c.get("layout", "C"))
        model_c = model
        if impl != model_c:
            bad += 1
            first = None
            if isinstance(impl, tuple) and isinstance(model_c, tuple) and len(impl[2]) == len(model_c[2]):
                for t, (a, b) in enumerate(zip(impl[2], model_c[2])):
                    if a != b:
                        first = (t, a, b)
                        break
            ctx.disagree(stream, dict(case=c, j=[int(v) for v in j]),
                         impl if first is None else (impl[0], impl[1], "first differing entry (flat index, impl, model): %r" % (first,)),
                         model_c if first is None else (model_c[0], model_c[1]))
    return bad


def correspond(ctx):
    ctx.rule = ("case = (fft|ifft, center, norm, ishape, oshape, axes, dtype, entry point, memory layout, number of earlier "
                "calls on the same shape) x basis column j; distinct by protocol line + entry point + layout + history length; every case is non-trivial (a whole matrix column is compared exactly: "
                "phase as a fraction of a turn, squared magnitude as a fraction, zero pattern, result dtype)")
    ctx.assumptions += [
        "numpy contract (hand-written in Model/C05.lean): fftn/ifftn are the plain DFT with exponent p*m mod n, sign -/+ and "
        "scale 1, 1/n (norm=None) or 1/sqrt n (ortho); ifftshift/fftshift roll by -(n//2)/(n//2); numpy normalises negative axes",
        "correspondence entries are accepted as a scaled root of unity within 1e-5 (complex64 path) / 1e-10 (complex128) relative",
        "oshape is only exercised with center=True (the property's domain)",
        "the N-d theorems (Props/C05Nd.lean) are about C05.table, the function the driver runs (table_eq, entry_denote, "
        "sigpy_fft_unitary); that numpy's fftn/ifftn/roll satisfy the 1-D contract stays validated by correspondence",
    ]
    ctx.trusted += ["harness/translate/gen_c05.py (statement-by-statement extraction of fft/ifft/_fftc/_ifftc/_normalize_axes)"]
    rng = ctx.rng
    quick = ctx.tier == "quick"
    ex = list(exhaustive_1d(8 if quick else 12))
    bad = _run(ctx, ex, "1d-exhaustive", rng, full_below=64)
    ctx.oblige("correspondence:C05.1d-exhaustive", "correspondence", bad == 0, "%d disagreements" % bad)
    ex2 = list(exhaustive_2d(5 if quick else 8))
    if quick:
        ex2 = rng.sample(ex2, 200)
    bad = _run(ctx, ex2, "2d-axes", rng, full_below=6 if quick else 12, k=4)
    ctx.oblige("correspondence:C05.2d-axes", "correspondence", bad == 0, "%d disagreements" % bad)
    cases = [gen_case(rng) for _ in range(500 if quick else 10000)]
    bad = _run(ctx, cases, "random", rng)
    ctx.oblige("correspondence:C05.random", "correspondence", bad == 0, "%d disagreements" % bad)
    # history: one shape, a sequence of different settings (and back to the first ones); program order is kept
    seq = same_shape_sequences(rng, 40 if quick else 600, 5)
    bad = _run(ctx, seq, "same-shape-sequence", rng, full_below=4, k=3)
    ctx.oblige("correspondence:C05.same-shape-sequence", "correspondence", bad == 0, "%d disagreements" % bad)
    ctx.traces = ctx.evaluations


# ---- the property's own oracle ----------------------------------------------------------------
def centre_resize(x, oshape):
    """statement: the input is zero-padded or cropped about its centre (index i//2 ↔ index o//2)"""
    out = np.zeros(oshape, dtype=x.dtype)
    src, dst = [], []
    for i, o in zip(x.shape, oshape):
        # out[k] = x[k - o//2 + i//2]
        lo = max(0, o // 2 - i // 2)
        hi = min(o, o // 2 - i // 2 + i)
        dst.append(slice(lo, hi))
        src.append(slice(lo - o // 2 + i // 2, hi - o // 2 + i // 2))
    out[tuple(dst)] = x[tuple(src)]
    return out


def reference(x, inv, center, norm, oshape, axes):
    """explicit DFT-matrix product, complex128"""
    x = np.asarray(x).astype(np.complex128)
    nd = x.ndim
    if oshape is not None:
        x = centre_resize(x, list(oshape))
    ax = range(nd) if axes is None else sorted(set(a % nd for a in axes))
    for a in ax:
        n = x.shape[a]
        c = n // 2 if center else 0
        k = np.arange(n) - c
        e = np.outer(k, k) % n                     # exact integer exponent
        W = np.exp((2j if inv else -2j) * np.pi * e / n)
        s = 1 / math.sqrt(n) if norm == "ortho" else (1.0 / n if inv else 1.0)
        x = np.moveaxis(np.tensordot(W * s, x, axes=([1], [a])), 0, a)
    return x


def make_x(c):
    r = np.random.default_rng(c["xseed"])
    sh = c["ish"]
    dt = np.dtype(c["dt"])
    if c.get("delta") is not None:
        x = np.zeros(sh, dtype=dt)
        x[tuple(c["delta"])] = 1
        return x
    if dt.kind == "c":
        return (r.standard_normal(sh) + 1j * r.standard_normal(sh)).astype(dt)
    if dt.kind == "f":
        return r.standard_normal(sh).astype(dt)
    if dt.kind == "b":
        return r.integers(0, 2, size=sh).astype(dt)
    return r.integers(0 if dt.kind == "u" else -9, 10, size=sh).astype(dt)


def relerr(a, b):
    d = np.abs(a - b).max() if a.size else 0.0
    return d / max(np.abs(b).max() if b.size else 0.0, 1e-300)


def check_oracle(ctx, c, origin, replay_history=False):
    """True when the property holds on this input.  `c["history"]` (same-shape sequences) lists the
    settings of the calls made earlier on this shape; a replay re-issues them first (fresh process)."""
    c.setdefault("xseed", 0)
    x = make_x(c)
    tol = tol_of(c["dt"])
    ok = True
    if replay_history:
        for n, h in enumerate(c.get("history", [])):
            try:
                run_impl(dict(c, **h), make_x(dict(c, xseed=c["xseed"] + 1 + n, delta=None)))
            except Exception:
                pass

    def fail(aspect, what, obs, exp):
        nonlocal ok
        ok = False
        ctx.fail(key_of(c, aspect), what, c, observed=obs, expected=exp, origin=origin)

    try:
        y = run_impl(c, x)
    except Exception as e:
        fail("raised", "%s raised %s on a valid request" % (key_of(c, ""), type(e).__name__), repr(e), "result")
        return False
    want = reference(x, c["inv"], c["center"], c["norm"], c["osh"], c["axes"])
    if list(y.shape) != list(want.shape):
        fail("shape", "output shape differs", list(y.shape), list(want.shape))
        return False
    if np.abs(want).max() > 0:
        e = relerr(y, want)
        if not e <= tol:
            w = int(np.argmax(np.abs(y - want)))
            fail("matrix", "output differs from the explicit DFT-matrix definition (rel. error %.3g > %g)" % (e, tol),
                 dict(flat_index=w, value=complex(y.ravel()[w])), dict(flat_index=w, value=complex(want.ravel()[w])))
    elif np.abs(y).max() > 0:
        fail("matrix", "non-zero output where the definition gives zero", float(np.abs(y).max()), 0.0)
    if c["dt"] in COMPLEX and str(y.dtype) != c["dt"]:
        fail("dtype", "complex input does not keep its precision", str(y.dtype), c["dt"])
    if c["norm"] == "ortho" and c["osh"] is None and c["dt"] in COMPLEX:
        nx, ny = float(np.linalg.norm(x.astype(np.complex128))), float(np.linalg.norm(y.astype(np.complex128)))
        if abs(nx - ny) > tol * max(nx, 1e-300):
            fail("norm", "orthonormal transform does not preserve the norm", ny, nx)
        try:
            cb = dict(c, inv=1 - c["inv"])
            if c.get("via") == "linop":
                from sigpy import linop
                A = (linop.IFFT if c["inv"] else linop.FFT)(c["ish"], axes=None if c["axes"] is None else tuple(c["axes"]),
                                                              center=bool(c["center"]))
                back = A.H(with_layout(y, c.get("layout", "C")))
                nrm = A.N(with_layout(x, c.get("layout", "C")))
                if relerr(nrm, x) > tol:
                    fail("normal", "A.N(x) is not x", float(relerr(nrm, x)), 0.0)
            else:
                back = run_impl(cb, y)
            if relerr(back, x) > tol:
                w = int(np.argmax(np.abs(back - x)))
                fail("roundtrip", "inverse(forward(x)) != x with orthonormal scaling (rel. error %.3g)" % relerr(back, x),
                     dict(flat_index=w, value=complex(back.ravel()[w])), dict(flat_index=w, value=complex(x.ravel()[w])))
            if str(back.dtype) != c["dt"]:
                fail("dtype", "round trip does not keep the precision of a complex input", str(back.dtype), c["dt"])
        except Exception as e:
            fail("raised", "round trip raised %s" % type(e).__name__, repr(e), "x")
    return ok


def dtype_layout_sweep():
    """float32 / complex64 / int / complex128 (+ float64, bool) inputs in every memory layout through
    sp.fft / sp.ifft (centred and not, both norms, an oshape) and linop.FFT / IFFT and their adjoints"""
    shapes = [([6], [None, [-1]]), ([3, 4], [None, [0], [-1]]), ([2, 3, 4], [None, [0, -1], [1]])]
    for ish, axs in shapes:
        for dt in ("float32", "complex64", "int64", "complex128", "float64", "bool", "int32"):
            for layout in LAYOUTS:
                for axes in axs:
                    for inv in (0, 1):
                        for center in (0, 1):
                            for norm in ("ortho", None):
                                yield dict(inv=inv, center=center, norm=norm, ish=ish, osh=None, axes=axes, dt=dt,
                                           via="func", layout=layout)
                            if center:
                                yield dict(inv=inv, center=1, norm="ortho", ish=ish, axes=axes, dt=dt, via="func",
                                           osh=[n + (1 if t % 2 else -1) if n > 1 else n + 1 for t, n in enumerate(ish)],
                                           layout=layout)
                            for via in ("linop", "linopH"):
                                yield dict(inv=inv, center=center, norm="ortho", ish=ish, osh=None, axes=axes, dt=dt,
                                           via=via, layout=layout)


def search_case(rng):
    c = gen_case(rng, max_nd=4, hi=9 if rng.random() < 0.3 else 6)
    c["xseed"] = rng.randrange(1 << 30)
    return c


def search(ctx, budget):
    rng = ctx.rng
    # 1. replay disagreeing cases first: the basis vector itself, then a random input of the same case
    seen = set()
    for d in ctx.disagreements[:400]:
        c = dict(d["case"]["case"])
        sig = json.dumps(c, sort_keys=True)
        c1 = dict(c, delta=d["case"]["j"], xseed=0)
        check_oracle(ctx, c1, "disagreement")
        if sig not in seen:
            seen.add(sig)
            check_oracle(ctx, dict(c, xseed=rng.randrange(1 << 30)), "disagreement")
    # 2. budgeted search
    n = int(2500 * budget)
    for _ in range(n):
        c = search_case(rng)
        ctx.case(("oracle", json.dumps(c, sort_keys=True)))
        ctx.count("search:%dd" % len(c["ish"]))
        check_oracle(ctx, c, "search")
    # small exhaustive sweep over 1-D/2-D shapes x axes spellings (cheap, catches odd-length / negative-axis slips)
    for c in itertools.chain(exhaustive_1d(9), exhaustive_2d(4 if budget <= 1 else 6)):
        c = dict(c, xseed=rng.randrange(1 << 30))
        ctx.case(("oracle", json.dumps(c, sort_keys=True)))
        check_oracle(ctx, c, "search-exhaustive")
    # every input dtype class x memory layout x entry point x direction x centre
    for c in dtype_layout_sweep():
        c = dict(c, xseed=rng.randrange(1 << 30))
        ctx.case(("oracle", json.dumps(c, sort_keys=True)))
        ctx.count("search:sweep:%s:%s" % (c["dt"], c["layout"]))
        check_oracle(ctx, c, "search-dtype-layout")
    # history-dependent calls: one shape, changing settings, back to the first ones
    for c in same_shape_sequences(rng, int(60 * budget), 6, max_nd=4):
        c = dict(c, xseed=rng.randrange(1 << 30))
        ctx.case(("oracle", json.dumps(c, sort_keys=True)))
        ctx.count("search:sequence:%dd" % len(c["ish"]))
        check_oracle(ctx, c, "search-sequence")


def replay(path):
    r = json.load(open(path))
    print(json.dumps(r, indent=1)[:3000])
    if r.get("kind") != "failing-input":
        return 0
    c = r["case"]
    ctx = common.Ctx(PROPERTY, "quick", 0)
    ok = check_oracle(ctx, c, "replay", replay_history=True)
    for f in ctx.failures:
        print("  observed:", f["observed"], "expected:", f["expected"], "(%s)" % f["what"])
    if c.get("delta") is not None:
        print("model:", ctx.driver([line(c, c["delta"])])[0][:400])
    print("replay:", "property holds on this input" if ok else "property FAILS on this input")
    return 0 if ok else 1
