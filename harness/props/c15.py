"""C15 — solvers stop within max_iter and stop early only at genuine fixed points.

tie:    (a) translator: `Gen/AlgDone.lean` is regenerated from sigpy/alg.py + app.py (counter
        increments of Alg.update and of every `_update`, every `_done` expression, the App.run loop);
        (b) counter/done traces of every Alg subclass under random interleavings of done()/update()
        (up to max_iter+2 updates) and of App.run, against the Lean counter machine / runLoop fed
        with the observed residuals; (c) one update at a time against the Lean step models in exact
        rationals: PDHG in EVERY variant (constant theta, gamma_primal > 0, gamma_dual > 0; scalar or
        array-valued tau/sigma) against `C15.pdhgUpdateG` = C13's translator-generated `pdStep` plus the
        residual formulas regenerated from the source (`Gen/C15Resid.lean`), plain PDHG also against the
        older transcription `pdhgUpdate`; GradientMethod; NewtonsMethod with and without the backtracking
        line search (separable quartic objective, so that the loop really backtracks) against
        `C15.newtonUpdateLS` (x, lamda2, the generated residual formula);
        (d) `Gen/C15Mach.lean` (harness/translate/gen_c15m.py): the `_update` bodies of PowerMethod, GradientMethod, AltMin,
        AugmentedLagrangianMethod, ADMM, NewtonsMethod, GerchbergSaxton, `Alg.update`, the stopping block of SDMM and the
        `App.run` loop are translator-generated; the real ADMM / AugmentedLagrangianMethod / AltMin run on Fractions and the
        real SDMM's stopping block are compared with them (`mach` stream), GradientMethod / NewtonsMethod via `gmG`/`newtonG`.
search: the statement itself on the real classes: canonical loop and App.run perform <= max_iter
        updates, counter +1 per update, run() returns what the alg holds; with tol = 0, when done()
        first turns true before max_iter one more update() on a deep copy must leave the solution
        exactly unchanged (or a breakdown flag is set); PowerMethod.max_eig non-decreasing and
        <= lambda_max once the vector is normalised.
"""
import copy
import json
import math
import signal
from fractions import Fraction

import numpy as np

from harness import common
from harness.translate import gen as G
from harness.translate import gen_c15

PROPERTY = "C15"
LEAN_MODULES = ["SigpyVerif.Props.C15", "SigpyVerif.Props.C15Mach", "SigpyVerif.Props.C12", "SigpyVerif.Props.C13"]
CLASSES = gen_c15.CLASSES
THEOREMS = ["SigpyVerif.C15." + t for t in [
    "loop_bound", "ctr_iterate", "iter_counts_updates", "app_one_update_per_pass", "self_incr_zero",
    "early_stop_fixed_gm", "early_stop_fixed_gm_accel", "early_stop_fixed_pdhg", "early_stop_fixed_newton",
    "pdhg_primal_only_not_fixed", "gm_accel_x_only_not_fixed",
    "pdRescale_steps_pos", "early_stop_fixed_pdhg_general", "newtonResid_nonpos", "newtonLoop_zero_dir",
    "early_stop_fixed_newton_ls", "newton_ls_backtracks",
    "power_monotone", "power_normalised", "power_le_bound",
    # Props/C15Mach.lean: about the generated machines of Gen/C15Mach.lean
    "runLoop_exact", "iter_iterate", "run_count_general", "run_count_stop", "run_count_nostop", "whileFuel_eq_runLoop",
    "app_run_one_update_per_pass", "app_pass_iter", "app_run_exact", "app_run_bound", "runLoopR_bound",
    "algUpdate_iter", "algUpdateR_iter", "upd_iter_PowerMethod", "upd_iter_GradientMethod", "upd_iter_AltMin",
    "upd_iter_AugmentedLagrangianMethod", "upd_iter_ADMM", "upd_iter_NewtonsMethod", "upd_iter_GerchbergSaxton",
    "update_iter_all", "done_decomp", "no_early_stop", "run_exact_PowerMethod", "run_exact_AltMin",
    "run_exact_AugmentedLagrangianMethod", "run_exact_ADMM", "run_exact_GradientMethod", "run_exact_ConjugateGradient",
    "run_bound_NewtonsMethod", "run_bound_GerchbergSaxton", "stdOps_std", "norm_div_nonpos", "early_stop_fixed_gm_gen",
    "gm_tol_bound", "early_stop_fixed_gm_accel_gen", "whileFuel_inv", "whileFuel_of_not_cond",
    "early_stop_fixed_newton_gen", "newton_tol_bound", "early_stop_fixed_gs", "foldl_stop_eq", "sdmm_stop_iff_partial",
    "pdhg_tol_bound", "done_nf_sound",
] + ["loop_bound_" + c for c in CLASSES]] + ["SigpyVerif.C12.cg_early_stop_fixed", "SigpyVerif.C12.cg_breakdown",
                                              "SigpyVerif.C12.iter_counts_updates",
                                              "SigpyVerif.C13.pdhg_fixed_point_iff_saddle_diag",
                                              "SigpyVerif.C13.isProxW_unique", "SigpyVerif.C13.StepOp.Pos.smul",
                                              "SigpyVerif.C13.StepOp.Pos.div", "SigpyVerif.C13.StepOp.scalar_pos",
                                              "SigpyVerif.C13.StepOp.diag_pos"]

KEY_PDHG = "C15:PDHG:primal-only-resid"
KEY_GM = "C15:GradientMethod:accelerated-stall"
KEY_GS = "C15:GerchbergSaxton:double-increment"
KEY_SDMM = "C15:SDMM:early-stop"


TIMEOUTS = dict(n=0)  # real loops that did not terminate in this run; after 3 the streams stop early


class time_limit:
    """a real loop that no longer terminates (e.g. a `_done` without its iteration bound) must become a
    finding, not a hang"""

    def __init__(self, sec):
        self.sec = sec

    def _raise(self, *a):
        TIMEOUTS["n"] += 1
        raise TimeoutError("no termination within %d s" % self.sec)

    def __enter__(self):
        self.old = signal.signal(signal.SIGALRM, self._raise)
        signal.alarm(self.sec)

    def __exit__(self, *a):
        signal.alarm(0)
        signal.signal(signal.SIGALRM, self.old)


def translate(ctx):
    G.regenerate(ctx, ["AlgDone", "C12", "C13", "C15Resid", "C15Mach"])


# ---- small problem instances of every Alg subclass ---------------------------------------------
def _psd(rng, n, cplx=False, shift=0.0):
    B = np.array([[rng.randint(-2, 2) + (1j * rng.randint(-2, 2) if cplx else 0) for _ in range(n)] for _ in range(n)])
    M = B.conj().T @ B + shift * np.eye(n)
    return M if cplx else M.real.astype(float)


def soft(lam, v):
    return np.sign(v) * np.maximum(np.abs(v) - lam, 0)


def make(rng, cls, max_iter, spec=None):
    """returns dict(alg, sol=callable -> list of arrays, spec=json-able description, extra)"""
    from sigpy import alg as SA
    import sigpy as sp
    s = dict(spec) if spec else dict(cls=cls, max_iter=max_iter, seed=rng.randint(0, 2 ** 31))
    # a complete spec (replay / disagreement) carries every drawn key; one written before a key existed gets that key's
    # neutral value, so old replays rebuild the same instance
    fresh = spec is None or "n" not in spec
    r = np.random.RandomState(s["seed"])
    pr = __import__("random").Random(s["seed"])
    n = s.setdefault("n", pr.randint(1, 4))
    max_iter = s["max_iter"]
    if cls == "PowerMethod":
        M = _psd(pr, n, cplx=s.setdefault("cplx", pr.random() < 0.5))
        x = r.randn(n) + (1j * r.randn(n) if s["cplx"] else 0)
        a = SA.PowerMethod(lambda v: M @ v, x, max_iter=max_iter)
        return dict(alg=a, sol=lambda: [a.x], spec=s, M=M)
    if cls == "GradientMethod":
        fam = s.setdefault("fam", pr.choice(["plain", "box", "l1", "box-momentum"]))
        acc = s.setdefault("accel", pr.random() < 0.6 if fam != "box-momentum" else True)
        if fam == "box-momentum":
            # diagonal quadratic whose unconstrained minimiser lies just inside the upper bound: momentum
            # carries z past the bound so that x is clipped twice in a row
            q = np.array([pr.choice([1.0, 2.0]) for _ in range(n)])
            c = np.array([pr.choice([0.9, 0.95, 0.8]) for _ in range(n)]) * q
            Q = np.diag(q)
            alpha = s.setdefault("alpha", pr.choice([0.1, 0.2, 0.25]))
            lo, hi = -10.0, 1.0
            x = np.array([float(pr.choice([-5, -3, -8, 0])) for _ in range(n)])
        else:
            Q = _psd(pr, n, shift=pr.choice([0.0, 1.0]))
            c = np.array([float(pr.randint(-3, 3)) for _ in range(n)])
            L = max(np.linalg.eigvalsh(Q)[-1], 1.0)
            alpha = s.setdefault("alpha", pr.choice([1.0, 0.5]) / L)
            lo, hi = -0.5, 0.5
            x = np.array([float(pr.randint(-2, 2)) for _ in range(n)]) if pr.random() < 0.6 else np.zeros(n)
        lam = 0.5
        prox = {"plain": None, "box": lambda a_, v: np.clip(v, lo, hi), "box-momentum": lambda a_, v: np.clip(v, lo, hi),
                "l1": lambda a_, v: soft(lam * a_, v)}[fam]
        a = SA.GradientMethod(lambda v: Q @ v - c, x, alpha, proxg=prox, accelerate=acc, max_iter=max_iter, tol=0)
        return dict(alg=a, sol=lambda: [a.x], spec=s, Q=Q, c=c, alpha=alpha, lo=lo, hi=hi, lam=lam)
    if cls == "ConjugateGradient":
        M = _psd(pr, n, cplx=s.setdefault("cplx", pr.random() < 0.4), shift=1.0)
        b = r.randn(n) + (1j * r.randn(n) if s["cplx"] else 0)
        if s.setdefault("zero_rhs", pr.random() < 0.2):
            b = b * 0
        x = np.zeros(n, dtype=b.dtype)
        a = SA.ConjugateGradient(lambda v: M @ v, b, x, max_iter=max_iter, tol=0)
        return dict(alg=a, sol=lambda: [a.x], spec=s)
    if cls == "PrimalDualHybridGradient":
        m = s.setdefault("m", pr.randint(1, 4))
        fam = s.setdefault("fam", pr.choice(["l1-small-sigma", "l1-small-sigma", "l1", "box", "none", "sat1d", "sat"]))
        if fam in ("sat1d", "sat"):
            # saturating prox on BOTH sides (l1 data fit => dual clipped to [-1,1]; box on the primal), possibly
            # from an infeasible start: x and u can both stay put for one update while x_ext != x, so a residual
            # that ignores the extrapolated point stops at a non-fixed point
            if fam == "sat1d":
                n_, m_ = 1, 1
                A = np.array([[1.0]])
                y = np.array([0.0])
                lo, hi = -1.0, float(s.setdefault("hi", pr.choice([10, 5, 3])))
                x = np.array([-float(s.setdefault("x0", pr.randint(2, 4)))])
                u = np.array([float(s.setdefault("u0", pr.randint(3, 6)))])
                tau, sigma = s.setdefault("tau", 0.5), s.setdefault("sigma", 1.0)
            else:
                m_ = m
                A = np.array([[float(pr.choice([-1, -0.5, 0, 0.5, 1])) for _ in range(n)] for _ in range(m)])
                if not A.any():
                    A[0, 0] = 1.0
                y = np.array([float(pr.randint(-2, 2)) for _ in range(m)])
                lo, hi = -1.0, 1.0
                x, u = np.zeros(n), np.zeros(m)
                L_ = float(np.linalg.norm(A, 2))
                sigma = s.setdefault("sigma", 0.5 / L_)
                tau = s.setdefault("tau", 1.0 / (sigma * L_ * L_))
            a = SA.PrimalDualHybridGradient(lambda sg, w: np.clip(w - sg * y, -1, 1), lambda t, v: np.clip(v, lo, hi),
                                            lambda v: A @ v, lambda w: A.T @ w, x, u, tau, sigma, max_iter=max_iter, tol=0)
            return dict(alg=a, sol=lambda: [a.x, a.u], spec=s, A=A, y=y, lam=0.0)
        A = np.array([[float(pr.randint(-2, 2)) for _ in range(n)] for _ in range(m)])
        if not A.any():
            A[0, 0] = 1.0
        y = np.array([float(pr.randint(-3, 3)) for _ in range(m)])
        if fam.startswith("l1") and not y.any():
            y[0] = 2.0
        nrm2 = float(np.linalg.norm(A, 2) ** 2)
        sigma = s.setdefault("sigma", pr.choice([0.125, 0.25, 0.0625]) if fam == "l1-small-sigma" else pr.choice([1.0, 0.5]))
        tau = s.setdefault("tau", float(Fraction(1, 1 << max(0, math.ceil(math.log2(max(sigma * nrm2, 1e-9)))))))
        lam = s.setdefault("lam", pr.choice([1.0, 2.0, 0.5]))
        proxg = {"l1": lambda t, v: soft(lam * t, v), "l1-small-sigma": lambda t, v: soft(lam * t, v),
                 "box": lambda t, v: np.clip(v, -0.5, 0.5), "none": lambda t, v: v}[fam]
        x, u = np.zeros(n), np.zeros(m)
        # step-size adaptation (gamma_primal > 0 | gamma_dual > 0) and array-valued steps (entries <= the scalar step,
        # so the step condition still holds); absent in specs written before these existed = plain scalar steps
        acc = s.setdefault("acc", pr.choice(["none", "none", "primal", "dual"]) if fresh else "none")
        arr = s.setdefault("arr", (pr.random() < 0.4) if fresh else False)
        gp = s.setdefault("gp", pr.choice([0.5, 1.0, 2.0]) if acc == "primal" else 0)
        gd = s.setdefault("gd", pr.choice([0.5, 1.0]) if acc == "dual" else 0)
        if arr:
            tf = s.setdefault("tau_f", [pr.choice([1.0, 0.5, 0.25]) for _ in range(n)])
            sf = s.setdefault("sigma_f", [pr.choice([1.0, 0.5]) for _ in range(m)])
            tau_, sigma_ = tau * np.array(tf), sigma * np.array(sf)
        else:
            tau_, sigma_ = tau, sigma
        a = SA.PrimalDualHybridGradient(lambda sg, w: (w - sg * y) / (1 + sg), proxg, lambda v: A @ v, lambda w: A.T @ w,
                                        x, u, tau_, sigma_, gamma_primal=gp, gamma_dual=gd, max_iter=max_iter, tol=0)
        return dict(alg=a, sol=lambda: [a.x, a.u], spec=s, A=A, y=y, lam=lam)
    if cls == "AltMin":
        st = dict(a=np.array([1.0]), b=np.array([2.0]))

        def m1():
            st["a"][:] = 0.5 * st["b"] + 1

        def m2():
            st["b"][:] = 0.5 * st["a"]
        a = SA.AltMin(m1, m2, max_iter=max_iter)
        return dict(alg=a, sol=lambda: [st["a"], st["b"]], spec=s)
    if cls == "AugmentedLagrangianMethod":
        x, u, v = np.zeros(n), np.zeros(n), np.zeros(n)
        c = r.randn(n)
        mu = 1.0

        def minL():
            x[:] = 0.5 * (c - u - v)
        a = SA.AugmentedLagrangianMethod(minL, lambda z: z, lambda z: z - 1.0, x, u, v, mu, max_iter=max_iter)
        return dict(alg=a, sol=lambda: [a.x, a.u, a.v], spec=s)
    if cls == "ADMM":
        x, z, u = np.zeros(n), np.zeros(n), np.zeros(n)
        c = r.randn(n)

        def mx():
            x[:] = (c + z - u) / 2

        def mz():
            z[:] = soft(0.1, x + u)
        a = SA.ADMM(mx, mz, x, z, u, lambda v: v, lambda v: -v, 0, max_iter=max_iter)
        return dict(alg=a, sol=lambda: [a.x, a.z, a.u], spec=s)
    if cls == "NewtonsMethod":
        Q = _psd(pr, n, shift=1.0)
        c = np.array([float(pr.randint(-3, 3)) for _ in range(n)])
        if s.setdefault("at_solution", pr.random() < 0.3):
            x = np.linalg.solve(Q, c)
            c = Q @ x
        else:
            x = np.array([float(pr.randint(-2, 2)) for _ in range(n)])
        Qi = np.linalg.inv(Q)
        nfam = s.setdefault("nfam", pr.choice(["quad", "quartic", "quartic"]) if fresh else "quad")
        beta = s.setdefault("beta", pr.choice([1, 0.5, 0.8, 0.5]) if fresh else 1)
        if nfam == "quartic":
            # separable convex quartic  f(x) = sum a_i x_i^4/4 + q_i x_i^2/2 - c_i x_i  (integers: exact in floats);
            # the full Newton step overshoots from far away, so the line search (beta < 1) really backtracks
            qa_ = np.array(s.setdefault("qa", [float(pr.choice([0, 1, 2, 3])) for _ in range(n)]))
            qq_ = np.array(s.setdefault("qq", [float(pr.choice([1, 2])) for _ in range(n)]))
            if s["at_solution"]:
                xs_ = np.array(s.setdefault("qxs", [float(pr.randint(-2, 2)) for _ in range(n)]))
                qc_ = qa_ * xs_ ** 3 + qq_ * xs_
                x = xs_.copy()
            else:
                qc_ = np.array(s.setdefault("qc", [float(pr.randint(-30, 30)) for _ in range(n)]))
                x = np.array(s.setdefault("qx0", [float(pr.randint(-3, 3)) for _ in range(n)]))
            f_ = lambda v: float(np.sum(qa_ * v ** 4 / 4 + qq_ * v ** 2 / 2 - qc_ * v))  # noqa: E731
            a = SA.NewtonsMethod(lambda v: qa_ * v ** 3 + qq_ * v - qc_, lambda v: (lambda w: w / (3 * qa_ * v ** 2 + qq_)), x,
                                 beta=beta, f=f_, max_iter=max_iter, tol=0)
            return dict(alg=a, sol=lambda: [a.x], spec=s, qa=qa_, qq=qq_, qc=qc_)
        f_ = lambda v: float(0.5 * v @ (Q @ v) - c @ v)  # noqa: E731
        a = SA.NewtonsMethod(lambda v: Q @ v - c, lambda v: (lambda w: Qi @ w), x, beta=beta, f=f_, max_iter=max_iter, tol=0)
        return dict(alg=a, sol=lambda: [a.x], spec=s)
    if cls == "SDMM":
        m = n + 1
        Am = np.array([[float(pr.randint(-2, 2)) for _ in range(n)] for _ in range(m)]) + np.vstack([np.eye(n), np.zeros((1, n))])
        d = np.array([[float(pr.randint(-3, 3))] for _ in range(m)])
        nL = s.setdefault("nL", pr.randint(0, 2))
        Ls = [np.eye(n) if pr.random() < 0.5 else np.array([[float(pr.randint(-1, 1)) for _ in range(n)] for _ in range(n)])
              for _ in range(nL)]
        cs = [s.setdefault("c%d" % i, pr.choice([100.0, 100.0, 0.5])) for i in range(nL)]
        cn = s.setdefault("c_norm", pr.choice([None, None, 50.0]))
        # no block that can ever produce a residual: no L block at all, or only all-zero L matrices, and no norm constraint
        s["inert"] = bool(all(not np.any(L_) for L_ in Ls) and cn is None)
        a = SA.SDMM(sp.linop.MatMul((n, 1), Am), d, s.setdefault("lam", pr.choice([0.1, 1.0])), Ls, cs, s.setdefault("mu", pr.choice([1.0, 0.5])),
                    [1.0] * nL, 1.0, 1.0, eps_pri=s.setdefault("eps_pri", 0), eps_dual=s.setdefault("eps_dual", 0), c_max=None,
                    c_norm=cn, max_cg_iter=s.setdefault("cg", pr.choice([3, 30])), max_iter=max_iter)
        return dict(alg=a, sol=lambda: [a.x], spec=s)
    if cls == "GerchbergSaxton":
        m = n + 2
        A = sp.linop.MatMul((n, 1), r.randn(m, n) + 1j * r.randn(m, n))
        xt = r.randn(n, 1) + 1j * r.randn(n, 1)
        y = np.abs(A * xt)
        x0 = r.randn(n, 1) + 1j * r.randn(n, 1)
        a = SA.GerchbergSaxton(A, y, x0, max_iter=max_iter, tol=0)
        return dict(alg=a, sol=lambda: [a.x], spec=s)
    raise ValueError(cls)


RUN_CLASSES = ["PowerMethod", "GradientMethod", "ConjugateGradient", "PrimalDualHybridGradient", "AltMin",
               "AugmentedLagrangianMethod", "ADMM", "SDMM", "NewtonsMethod", "GerchbergSaxton"]


def fields(a):
    """(resid, tol, flag) as read by the class's _done"""
    resid = getattr(a, "resid", getattr(a, "residual", None))
    tol = getattr(a, "tol", 0)
    flag = bool(getattr(a, "not_positive_definite", getattr(a, "stop", False)))
    return resid, tol, flag


def fr(v):
    if v is None:
        return "0"
    v = float(v)
    if math.isinf(v) and v > 0:
        return "inf"
    if math.isnan(v) or math.isinf(v):
        return None
    f = Fraction(v)
    return str(f.numerator) if f.denominator == 1 else "%d/%d" % (f.numerator, f.denominator)


def frl(v):
    return ",".join(fr(z) for z in np.asarray(v, dtype=float).ravel())


# ---- (b) counter / done traces -----------------------------------------------------------------
def real_trace(inst, sched):
    a = inst["alg"]
    ev, obs = [], []
    with np.errstate(all="ignore"):
        for ch in sched:
            if ch == "u":
                a.update()
                ev.append("u")
                obs.append("i%d" % a.iter)
            else:
                it = a.iter
                d = bool(a.done())
                if a.iter != it:
                    obs.append("done() changed the counter")
                r, t, f = fields(a)
                frr = fr(r)
                if frr is None:
                    break
                ev.append("d:%s:%s:%d" % (frr, fr(t), int(f)))
                obs.append("d%d" % int(d))
    return ev, obs


def trace_stream(ctx, n_inst):
    rng = ctx.rng
    lines, meta = [], []
    for _ in range(n_inst):
        if TIMEOUTS["n"] >= 3:
            break
        cls = rng.choice(RUN_CLASSES)
        mi = rng.choice([0, 1, 2, 5])
        inst = make(rng, cls, mi)
        nu = mi + 2
        sched = []
        while sched.count("u") < nu:
            sched.append(rng.choice("ud"))
        sched.append("d")
        try:
            with time_limit(10):
                ev, obs = real_trace(inst, sched)
        except Exception as e:  # noqa
            ctx.disagree("trace", dict(spec=inst["spec"], sched="".join(sched)), "raised %r" % (e,), "trace")
            continue
        lines.append("C15 trace cls=%s maxiter=%d ev=%s" % (cls, mi, ",".join(ev) or "-"))
        meta.append((inst["spec"], "".join(sched), obs))
    bad = 0
    for ln, (spec, sched, obs), rep in zip(lines, meta, ctx.driver(lines)):
        ctx.case(ln, sample=dict(line=ln[:160], reply=rep[:80]) if ctx.evaluations % 29 == 0 else None)
        ctx.count("trace:%s:max_iter=%d" % (spec["cls"], spec["max_iter"]))
        ctx.traces += 1
        want = "ok " + (",".join(obs) or "-")
        if rep != want:
            bad += 1
            ctx.disagree("trace", dict(spec=spec, sched=sched), want, rep)
    return bad


def app_stream(ctx, n_inst):
    """App.run on a generic App around each alg: number of update() calls, final counter"""
    import sigpy as sp
    rng = ctx.rng
    lines, meta = [], []
    for _ in range(n_inst):
        if TIMEOUTS["n"] >= 6:
            break
        cls = rng.choice(RUN_CLASSES)
        mi = rng.choice([0, 1, 2, 5])
        inst = make(rng, cls, mi)
        a = inst["alg"]
        rec = dict(n=0, resids=[fr(fields(a)[0])], flags=[int(fields(a)[2])])
        orig = a.update

        def upd(a=a, rec=rec, orig=orig):
            orig()
            rec["n"] += 1
            rec["resids"].append(fr(fields(a)[0]))
            rec["flags"].append(int(fields(a)[2]))
            if rec["n"] > 50:
                raise RuntimeError("runaway loop")
        a.update = upd
        try:
            with np.errstate(all="ignore"), time_limit(10):
                sp.app.App(a, show_pbar=False).run()
        except RuntimeError:
            pass
        except TimeoutError as e:
            ctx.disagree("apprun", dict(spec=inst["spec"]), "raised %r" % (e,), "terminating loop")
            continue
        if any(r is None for r in rec["resids"]):
            continue
        lines.append("C15 apprun cls=%s maxiter=%d tol=%s resids=%s flags=%s fuel=60" % (
            cls, mi, fr(fields(a)[1]), ",".join(rec["resids"]), ",".join(str(f) for f in rec["flags"])))
        meta.append((inst["spec"], rec["n"], a.iter))
    bad = 0
    for ln, (spec, n, it), rep in zip(lines, meta, ctx.driver(lines)):
        ctx.case(ln)
        ctx.count("apprun:%s" % spec["cls"])
        ctx.traces += 1
        want = "ok updates=%d passes=%d iter=%d done=1" % (n, n, it)
        if rep != want:
            bad += 1
            ctx.disagree("apprun", dict(spec=spec), want, rep)
    return bad


# ---- (c) one update of PDHG / GradientMethod against the Lean transcription ---------------------
def _kv(rep):
    return dict(t.split("=", 1) for t in rep[3:].split(" "))


def _vec(s):
    return np.array([float(Fraction(t)) for t in s.split(",")]) if s != "-" else np.zeros(0)


def _steptok(v):
    return ("a:" + frl(v)) if isinstance(v, np.ndarray) else ("s:" + fr(v))


def _stepvec(tok):
    kind, body = tok.split(":")
    return np.array([float(Fraction(t)) for t in body.split(",")]), kind


STEP_CLASSES = ["PrimalDualHybridGradient", "GradientMethod", "NewtonsMethod"]
STEP_MODEL = {"pdhg": "pdhgUpdate", "pdhgG": "pdhgUpdateG", "gm": "gmUpdate", "newton": "newtonUpdateLS",
              "gmG": "Gen.C15M.updGradientMethod", "newtonG": "Gen.C15M.updNewtonsMethod"}


def step_stream(ctx, n_inst):
    rng = ctx.rng
    lines, meta = [], []
    for _ in range(n_inst):
        cls = rng.choice(["PrimalDualHybridGradient", "PrimalDualHybridGradient", "GradientMethod", "NewtonsMethod"])
        spec = None
        if cls == "PrimalDualHybridGradient":   # the step model knows the quadratic-data-fit families only
            spec = dict(cls=cls, max_iter=6, seed=rng.randint(0, 2 ** 31),
                        fam=rng.choice(["l1-small-sigma", "l1-small-sigma", "l1", "box", "none"]))
        inst = make(rng, cls, 6, spec)
        a, s = inst["alg"], inst["spec"]
        for _k in range(4):
            if cls == "PrimalDualHybridGradient":
                prox = {"l1": "soft:%s" % fr(inst["lam"]), "l1-small-sigma": "soft:%s" % fr(inst["lam"]),
                        "box": "box:-1/2:1/2", "none": "none"}[s["fam"]]
                plain = s["acc"] == "none" and not s["arr"]
                ln_old = "C15 pdhg m=%d n=%d A=%s y=%s tau=%s sigma=%s theta=1 x=%s u=%s xext=%s prox=%s" % (
                    s["m"], s["n"], frl(inst["A"]), frl(inst["y"]), fr(a.tau), fr(a.sigma), frl(a.x), frl(a.u),
                    frl(a.x_ext), prox) if plain else None
                ln = "C15 pdhgG m=%d n=%d A=%s y=%s tau=%s sigma=%s gp=%s gd=%s theta=%s taumin=%s sigmamin=%s x=%s u=%s xext=%s prox=%s" % (
                    s["m"], s["n"], frl(inst["A"]), frl(inst["y"]), _steptok(a.tau), _steptok(a.sigma), fr(a.gamma_primal),
                    fr(a.gamma_dual), fr(a.theta), fr(getattr(a, "tau_min", 0)), fr(getattr(a, "sigma_min", 0)),
                    frl(a.x), frl(a.u), frl(a.x_ext), prox)
                a.update()
                obs = dict(x=a.x.copy(), u=a.u.copy(), xext=a.x_ext.copy(), resid2=float(a.resid) ** 2)
                if ln_old is not None:
                    lines.append(ln_old)
                    meta.append((cls, s, _k, dict(obs), "pdhg"))
                obs = dict(obs, tau=np.atleast_1d(np.array(a.tau, dtype=float)).copy(),
                           sigma=np.atleast_1d(np.array(a.sigma, dtype=float)).copy())
                op = "pdhgG"
            elif cls == "GradientMethod":
                prox = {"plain": "none", "box": "box:%s:%s" % (fr(inst["lo"]), fr(inst["hi"])),
                        "box-momentum": "box:%s:%s" % (fr(inst["lo"]), fr(inst["hi"])), "l1": "soft:%s" % fr(inst["lam"])}[s["fam"]]
                told = a.t if a.accelerate else 1
                x0, z0 = a.x.copy(), (a.z.copy() if a.accelerate else a.x.copy())
                a.update()
                tnew = a.t if a.accelerate else 1
                ln = "C15 gm n=%d Q=%s c=%s alpha=%s accel=%d prox=%s x=%s z=%s told=%s tnew=%s" % (
                    s["n"], frl(inst["Q"]), frl(inst["c"]), fr(a.alpha), int(a.accelerate), prox, frl(x0), frl(z0),
                    fr(told), fr(tnew))
                obs = dict(x=a.x.copy(), z=(a.z.copy() if a.accelerate else None), resid2=float(a.resid) ** 2)
                op = "gm"
                # the same update on the GENERATED machine (Gen.C15M.updGradientMethod under the generated Alg.update)
                lines.append(ln.replace("C15 gm ", "C15 gmG ", 1))
                meta.append((cls, s, _k, dict(x=a.x.copy(), z=(a.z.copy() if a.accelerate else None), resid=float(a.resid),
                                              t=(float(a.t) if a.accelerate else None)), "gmG"))
            else:
                if s["nfam"] != "quartic":
                    break   # the Newton step model is exercised on the separable quartic (exact rational f, gradf, H^-1)
                ln = "C15 newton a=%s q=%s c=%s x=%s beta=%s fuel=200" % (frl(inst["qa"]), frl(inst["qq"]), frl(inst["qc"]),
                                                                          frl(a.x), fr(a.beta))
                try:
                    with time_limit(10):
                        a.update()
                except Exception as e:  # noqa
                    ctx.disagree("step", dict(spec=s, update=_k + 1), "raised %r" % (e,), "an update")
                    break
                obs = dict(x=a.x.copy(), resid=float(a.residual), lamda2=float(a.lamda2))
                op = "newton"
                lines.append(ln)
                meta.append((cls, s, _k, obs, op))
                ln, op = ln.replace("C15 newton ", "C15 newtonG ", 1), "newtonG"   # the generated machine, judged by the same margin
            lines.append(ln)
            meta.append((cls, s, _k, obs, op))
    bad, only_resid = {c: 0 for c in STEP_CLASSES}, {c: True for c in STEP_CLASSES}
    margin_skip = False
    for ln, (cls, s, k, obs, op), rep in zip(lines, meta, ctx.driver(lines)):
        ctx.case(ln, sample=dict(line=ln[:160], reply=rep[:100]) if ctx.evaluations % 41 == 0 else None)
        if op == "newtonG" and margin_skip:   # the preceding `newton` line of the same update was a near tie
            continue
        ctx.count("step:%s:%s:%s" % (cls, op, s.get("fam") or s.get("nfam")) + (
            ":%s:%s" % (s["acc"], "array" if s["arr"] else "scalar") if op == "pdhgG" else "")
            + (":beta=%s" % s["beta"] if op == "newton" else ""))
        if not rep.startswith("ok "):
            bad[cls] += 1
            only_resid[cls] = False
            ctx.disagree("step", dict(spec=s, update=k + 1), "state", rep)
            continue
        m = _kv(rep)
        if op == "newton":
            margin_skip = float(Fraction(m["margin"])) < 1e-6 * (1 + abs(float(Fraction(m["lamda2"]))))
        if op == "newton" and margin_skip:
            ctx.count("step:NewtonsMethod:near-tie-skipped")   # the float and the exact line-search test may differ
            continue
        if op == "newtonG" and m.get("raised") != "0":
            bad[cls] += 1
            only_resid[cls] = False
            ctx.disagree("step", dict(spec=s, update=k + 1), "an update without exception", rep)
            continue
        if op in ("gmG", "newtonG") and m.get("iter") != "1":
            bad[cls] += 1
            only_resid[cls] = False
            ctx.disagree("step", dict(spec=s, update=k + 1), "iter=1 after one generated Alg.update from 0", rep)
            continue
        if op == "newton":
            ctx.count("step:NewtonsMethod:backtracks=%s" % ("0" if m["alpha"] == "1" else ">0"))
        diffs = []
        for f, v in obs.items():
            if v is None:
                continue
            if f in ("resid2", "resid", "lamda2", "t"):
                w = float(Fraction(m[f]))
                if abs(v - w) > 1e-9 * (1 + abs(w)):
                    diffs.append("%s real=%r model=%r" % (f, v, w))
                    if f == "lamda2":
                        only_resid[cls] = False
            elif f in ("tau", "sigma"):
                w, kind = _stepvec(m[f])
                if w.shape != v.shape or not np.all(np.abs(v - w) <= 1e-9 * (1 + np.abs(w))):
                    diffs.append("%s real=%s model=%s" % (f, v.tolist(), w.tolist()))
                    only_resid[cls] = False
            else:
                w = _vec(m[f])
                if w.shape != np.ravel(v).shape or not np.all(np.abs(np.ravel(v) - w) <= 1e-9 * (1 + np.max(np.abs(w), initial=0))):
                    diffs.append("%s real=%s model=%s" % (f, np.ravel(v).tolist(), w.tolist()))
                    only_resid[cls] = False
        if diffs:
            bad[cls] += 1
            ctx.disagree("step", dict(spec=s, update=k + 1), diffs, "Lean C15.%s" % STEP_MODEL[op])
    return bad, only_resid



# ---- (d) the GENERATED machines (Gen/C15Mach.lean) against the real classes ---------------------
def _fq(v):
    f = Fraction(v)
    return str(f.numerator) if f.denominator == 1 else "%d/%d" % (f.numerator, f.denominator)


def _fql(v):
    return ",".join(_fq(z) for z in v) if len(v) else "-"


def _obj(vals):
    a = np.empty(len(vals), dtype=object)
    a[:] = [Fraction(v) for v in vals]
    return a


class _NormRecorder:
    """stands in for `SDMM.device`: numpy with `linalg.norm` recorded (the arguments are kept alive so that their identities
    stay distinct)"""

    class _LA:
        def __init__(self, rec):
            self._rec = rec

        def norm(self, v, *a, **k):
            r = np.linalg.norm(v, *a, **k)
            self._rec.append((v, float(r)))
            return r

        def __getattr__(self, n):
            return getattr(np.linalg, n)

    class _XP:
        def __init__(self, rec):
            self.linalg = _NormRecorder._LA(rec)

        def __getattr__(self, n):
            return getattr(np, n)

    def __init__(self):
        self.calls = []
        self.xp = _NormRecorder._XP(self.calls)

    def __enter__(self):
        return self

    def __exit__(self, *a):
        return False


def mach_stream(ctx, n_inst):
    """ADMM / AugmentedLagrangianMethod / AltMin: the REAL classes on numpy object arrays of Fractions (exact rational
    arithmetic in the real code) stepped against the generated machines, equality of every state entry after every update;
    SDMM: the real class stepped, the norms its stopping block computes are recorded and fed to the generated block."""
    from sigpy import alg as SA
    rng = ctx.rng
    lines, meta = [], []
    F = Fraction
    for _ in range(n_inst):
        kind = rng.choice(["ADMM", "ADMM", "AugmentedLagrangianMethod", "AugmentedLagrangianMethod", "AltMin", "SDMM", "SDMM"])
        n = rng.randint(1, 3)
        rq = lambda: F(rng.randint(-6, 6), rng.choice([1, 2, 3, 4]))  # noqa: E731
        nupd = rng.randint(1, 3)
        if kind == "ADMM":
            c0, c = _obj([rq() for _ in range(n)]), _obj([rq() if rng.random() < 0.5 else 0 for _ in range(n)])
            x, z, u = (_obj([rq() for _ in range(n)]) for _ in range(3))
            px, qz = [rq() for _ in range(3)], [rq() for _ in range(2)]
            lam, ca, cb = abs(rq()), rq(), rq()

            def mx(x=x, z=z, u=u, c0=c0, px=px):
                x[:] = px[0] * c0 + px[1] * z + px[2] * u

            def mz(x=x, z=z, u=u, qz=qz, lam=lam):
                w = qz[0] * x + qz[1] * u
                z[:] = [(t - lam if t > lam else (t + lam if t < -lam else F(0))) for t in w]
            a = SA.ADMM(mx, mz, x, z, u, lambda v, ca=ca: ca * v, lambda v, cb=cb: cb * v, c, max_iter=nupd + 1)
            ln0 = "C15 admm c0=%s x=%s z=%s u=%s px=%s qz=%s lam=%s a=%s b=%s c=%s" % (
                _fql(c0), _fql(x), _fql(z), _fql(u), _fql(px), _fql(qz), _fq(lam), _fq(ca), _fq(cb), _fql(c))
            for k in range(1, nupd + 1):
                a.update()
                lines.append(ln0 + " k=%d" % k)
                meta.append((kind, "ok iter=%d x=%s z=%s u=%s" % (a.iter, _fql(a.x), _fql(a.z), _fql(a.u))))
        elif kind == "AugmentedLagrangianMethod":
            c0 = _obj([rq() for _ in range(n)])
            x, u, v = (_obj([rq() for _ in range(n)]) for _ in range(3))
            u[:] = [abs(t) for t in u]
            px = [rq() for _ in range(3)]
            mu = abs(rq()) + F(1, 4)
            gk, hk = rng.choice(["none", "aff"]), rng.choice(["none", "aff"])
            g1, g0, h1, h0 = rq(), rq(), rq(), rq()

            def minL(x=x, u=u, v=v, c0=c0, px=px):
                x[:] = px[0] * c0 + px[1] * u + px[2] * v
            a = SA.AugmentedLagrangianMethod(minL, (lambda t, g1=g1, g0=g0: g1 * t + g0) if gk == "aff" else None,
                                             (lambda t, h1=h1, h0=h0: h1 * t + h0) if hk == "aff" else None, x, u, v, mu,
                                             max_iter=nupd + 1)
            ln0 = "C15 alm c0=%s x=%s u=%s v=%s px=%s g=%s h=%s mu=%s" % (
                _fql(c0), _fql(x), _fql(u), _fql(v), _fql(px), ("aff:%s:%s" % (_fq(g1), _fq(g0))) if gk == "aff" else "none",
                ("aff:%s:%s" % (_fq(h1), _fq(h0))) if hk == "aff" else "none", _fq(mu))
            for k in range(1, nupd + 1):
                a.update()
                lines.append(ln0 + " k=%d" % k)
                meta.append((kind, "ok iter=%d x=%s u=%s v=%s" % (a.iter, _fql(a.x), _fql(a.u), _fql(a.v))))
        elif kind == "AltMin":
            va, vb = _obj([rq() for _ in range(n)]), _obj([rq() for _ in range(n)])
            m1, m2 = [rq(), rq()], [rq(), rq()]

            def f1(va=va, vb=vb, m1=m1):
                va[:] = m1[0] * vb + m1[1]

            def f2(va=va, vb=vb, m2=m2):
                vb[:] = m2[0] * va + m2[1]
            a = SA.AltMin(f1, f2, max_iter=nupd + 1)
            ln0 = "C15 altmin a=%s b=%s m1=%s m2=%s" % (_fql(va), _fql(vb), _fql(m1), _fql(m2))
            for k in range(1, nupd + 1):
                a.update()
                lines.append(ln0 + " k=%d" % k)
                meta.append((kind, "ok iter=%d a=%s b=%s" % (a.iter, _fql(va), _fql(vb))))
        else:
            inst = make(rng, "SDMM", 6, dict(cls="SDMM", max_iter=6, seed=rng.randint(0, 2 ** 31),
                                             eps_pri=rng.choice([0, 1e-5, 0.25]), eps_dual=rng.choice([0, 1e-2, 0.25])))
            a, sp_ = inst["alg"], inst["spec"]
            rec = _NormRecorder()
            a.device = rec
            nblk = len(a.L) + (a.c_norm is not None) + (a.c_max is not None)
            for k in range(1, nupd + 1):
                del rec.calls[:]
                try:
                    with np.errstate(all="ignore"):
                        a.update()
                except Exception as e:  # noqa
                    ctx.disagree("mach", dict(spec=sp_, update=k), "raised %r" % (e,), "an update")
                    break
                order, vals = [], {}
                for arr, val in rec.calls:
                    if id(arr) not in vals:
                        order.append(id(arr))
                    vals[id(arr)] = val
                last = [vals[i] for i in order[len(order) - 2 * nblk:]] if nblk else []
                if len(last) != 2 * nblk or any(not math.isfinite(t) for t in last):
                    ctx.disagree("mach", dict(spec=sp_, update=k), "%d norm arguments recorded" % len(order), "%d" % (2 * nblk))
                    break
                pairs = ["%s:%s" % (fr(last[2 * i]), fr(last[2 * i + 1])) for i in range(nblk)]
                nl = len(a.L)
                rest = pairs[nl:]
                nrm = rest.pop(0) if a.c_norm is not None else "none"
                mxp = rest.pop(0) if a.c_max is not None else "none"
                lines.append("C15 sdmmstop epspri=%s epsdual=%s rs=%s norm=%s max=%s" % (
                    fr(a.eps_pri), fr(a.eps_dual), ",".join(pairs[:nl]) or "-", nrm, mxp))
                meta.append((kind, "ok stop=%d" % int(bool(a.stop))))
    bad = {k: 0 for k in ("ADMM", "AugmentedLagrangianMethod", "AltMin", "SDMM")}
    for ln, (kind, want), rep in zip(lines, meta, ctx.driver(lines)):
        ctx.case(ln, sample=dict(line=ln[:160], reply=rep[:100]) if ctx.evaluations % 37 == 0 else None)
        ctx.count("mach:%s" % kind)
        if rep != want:
            bad[kind] += 1
            ctx.disagree("mach", dict(line=ln), want, rep)
    return bad


def correspond(ctx):
    ctx.rule = ("trace: (class, small random problem, max_iter in {0,1,2,5}, random interleaving of done()/update() with "
                "max_iter+2 updates) -> counter after each update and verdict of each done() vs the Lean counter machine "
                "with the generated _done; apprun: App.run vs Lean runLoop; step: one update of PDHG (constant theta / "
                "gamma_primal / gamma_dual, scalar / array steps: x,u,x_ext,tau,sigma,resid^2), GradientMethod (x,z,resid^2), "
                "NewtonsMethod with line search on a separable quartic (x, lamda2, residual; cases whose line-search test is "
                "within 1e-6 of a tie are skipped) vs the Lean transcription in exact rationals at 1e-9, and the same GradientMethod / "
                "NewtonsMethod updates vs the GENERATED machines (gmG / newtonG); mach: the real ADMM / AugmentedLagrangianMethod / "
                "AltMin on numpy object arrays of random Fractions (affine callbacks, soft threshold, g/h None or affine) vs the "
                "generated machines, exact equality of every state entry after each of 1-3 updates; the real SDMM stepped with its "
                "linalg.norm calls recorded, generated stopping block vs self.stop; distinct by protocol line; every case performs "
                "at least one call")
    q = ctx.tier == "quick"
    a = gen_c15.analyse()
    gs = a["classes"]["GerchbergSaxton"]["self_incr"]
    ctx.oblige("bridge:C15.GerchbergSaxton.selfIncr", "translate", gs == 0,
               "GerchbergSaxton._update itself adds %d to self.iter (hypothesis `hgs` of loop_bound_GerchbergSaxton) "
               "explained-by:%s" % (gs, KEY_GS))
    bad = trace_stream(ctx, 150 if q else 1200)
    ctx.oblige("correspondence:C15.trace", "correspondence", bad == 0,
               "%d counter/done traces differ from the Lean counter machine%s" % (bad, (" explained-by:" + KEY_GS) if gs != 0 else ""))
    bad = app_stream(ctx, 60 if q else 400)
    ctx.oblige("correspondence:C15.apprun", "correspondence", bad == 0,
               "%d App.run loops differ from Lean runLoop%s" % (bad, (" explained-by:" + KEY_GS) if gs != 0 else ""))
    bad, only_resid = step_stream(ctx, 60 if q else 400)
    for cls, key in (("PrimalDualHybridGradient", KEY_PDHG), ("GradientMethod", KEY_GM), ("NewtonsMethod", "C15:NewtonsMethod:early-stop")):
        ctx.oblige("correspondence:C15.step.%s" % cls, "correspondence", bad[cls] == 0,
                   "%d updates differ from the Lean transcription%s" % (
                       bad[cls], (" (only in the residual fed to _done) explained-by:" + key) if bad[cls] and only_resid[cls] else ""))
    badm = mach_stream(ctx, 60 if q else 400)
    for kind, n_bad in badm.items():
        ctx.oblige("correspondence:C15.mach.%s" % kind, "correspondence", n_bad == 0,
                   "%d updates of the real %s differ from the generated machine (Gen.C15M)%s" % (
                       n_bad, kind, " [SDMM: the generated stopping block on the recorded norms]" if kind == "SDMM" else ""))
    ctx.assumptions += [
        "PDHG: every branch of the step-size block and scalar or array steps (pdhgUpdateG = C13's generated pdStep + the "
        "generated residual formulas); NewtonsMethod: beta = 1 and the backtracking line search (newtonUpdateLS, loop with "
        "fuel; the statement order of NewtonsMethod._update is transcribed, only its residual formula is generated)",
        "array steps enter early_stop_fixed_pdhg_general as positive operators (C13.StepOp) and the prox maps through "
        "their characterisation in the step-weighted inner product (C13.IsProxW)",
        "generated machines (Gen/C15Mach.lean): callbacks of AltMin / ADMM / AugmentedLagrangianMethod are transformers of the class's "
        "data record that leave the counter alone; arrays are values except where the source aliases them (object model of "
        "gen_c15m); GerchbergSaxton's inner solver is C12's generated ConjugateGradient with value semantics for x",
        "SDMM: counter/_done logic, run-time traces and the generated STOPPING BLOCK of _update (sdmm_stop_iff_partial) only; the "
        "rest of SDMM._update (prox_muf with its inner CG, the aliasing `v = self.x`, `z_old = self.z`) is not modelled",
        "power_le_bound takes an operator bound L; that the least bound of a Hermitian PSD operator is its largest "
        "eigenvalue (spectral theorem) is not re-proved, the search oracle checks max_eig <= lambda_max numerically",
    ]


# ---- the property's own oracle -----------------------------------------------------------------
def key_for(cls, spec, what):
    if what == "counter" and cls == "GerchbergSaxton":
        return KEY_GS
    if what == "early-stop" and cls == "SDMM":
        # the recorded finding is the configuration WITHOUT any effective constraint block (no L block or only all-zero L matrices, no c_norm / c_max): nothing is tested there;
        # an early stop at a non-fixed point with constraint blocks (the repaired z_old alias) keeps the general key
        inert = spec.get("inert", spec.get("nL") == 0 and spec.get("c_norm") is None)
        return KEY_SDMM + ":no-constraint-blocks" if inert else KEY_SDMM
    if what == "early-stop" and cls == "PrimalDualHybridGradient":
        return KEY_PDHG
    if what == "early-stop" and cls == "GradientMethod" and spec.get("accel"):
        return KEY_GM
    return "C15:%s:%s" % (cls, what)


def check_instance(ctx, cls, max_iter, spec, origin, use_app=False):
    """canonical loop (or App.run) on a fresh instance; returns True when the statement holds"""
    import sigpy as sp
    rng = ctx.rng
    inst = make(rng, cls, max_iter, spec)
    a, spec = inst["alg"], inst["spec"]
    case = dict(cls=cls, max_iter=max_iter, spec=spec, use_app=use_app)
    ok = True

    def bad(what, msg, obs=None, exp=None):
        nonlocal ok
        ok = False
        ctx.fail(key_for(cls, spec, what), msg, case, observed=obs, expected=exp, origin=origin)

    n_upd, eigs = 0, []
    early = None
    with np.errstate(all="ignore"), time_limit(10):
        try:
            if use_app:
                orig = a.update
                cnt = dict(n=0)

                def upd():
                    orig()
                    cnt["n"] += 1
                    if cnt["n"] > 4 * max(max_iter, 1) + 8:
                        raise RuntimeError("runaway")
                a.update = upd
                out = sp.app.App(a, show_pbar=False).run()
                n_upd = cnt["n"]
                a.update = orig
            else:
                while not a.done():
                    before = a.iter
                    a.update()
                    n_upd += 1
                    if a.iter != before + 1:
                        bad("counter", "update() advanced the counter by %d" % (a.iter - before), obs=a.iter - before, exp=1)
                        break
                    if cls == "PowerMethod":
                        eigs.append(float(a.max_eig))
                    if n_upd > 4 * max(max_iter, 1) + 8:
                        break
        except RuntimeError as e:
            if isinstance(e.__cause__, TimeoutError):
                bad("loop-bound", "the loop (or one update()) did not terminate: %s" % (e.__cause__,), obs="timeout", exp="<= %d updates" % max(max_iter, 0))
                return False
            n_upd = 10 ** 6
        except TimeoutError as e:
            bad("loop-bound", "the loop (or one update()) did not terminate: %s" % (e,), obs="timeout", exp="<= %d updates" % max(max_iter, 0))
            return False
        except Exception as e:  # noqa
            bad("exception", "raised %r" % (e,))
            return False
        if n_upd > max(max_iter, 0):
            bad("loop-bound", "the loop performed %d updates with max_iter=%d" % (n_upd, max_iter), obs=n_upd, exp="<= %d" % max(max_iter, 0))
        if ok and a.iter != n_upd:
            bad("counter", "after %d updates the counter is %d" % (n_upd, a.iter), obs=a.iter, exp=n_upd)
        # early stop: tol = 0, done() before max_iter
        if ok and a.iter < max_iter and a.done():
            flag = bool(getattr(a, "not_positive_definite", False))
            ctx.count("oracle:early-stop:%s%s" % (cls, (":%s:%s" % (spec.get("acc", "none"), "array" if spec.get("arr") else "scalar"))
                                                 if cls == "PrimalDualHybridGradient" else
                                                 (":%s:beta=%s" % (spec.get("nfam"), spec.get("beta")) if cls == "NewtonsMethod" else "")))
            before = [np.array(v, copy=True) for v in inst["sol"]()]
            if cls in ("AltMin",):
                b = a
            else:
                b = copy.deepcopy(a)
            if not flag:
                try:
                    b.update()
                    after = [np.array(v, copy=True) for v in (inst["sol"]() if b is a else _sol_of(b, cls))]
                    # exact comparison for the incremental methods; GerchbergSaxton's update RE-SOLVES a least-squares
                    # problem (inner CG), which reproduces a fixed point only up to rounding (observed 1 ulp): 1e-10
                    # PDHG with gamma_primal/gamma_dual > 0: the extra update re-evaluates the fixed-point equations with
                    # RESCALED steps; a floating-point fixed point of the previous steps is reproduced only up to rounding
                    # (observed: 1 ulp, e.g. -0.4999999999999999 for -0.5).  Exact arithmetic: early_stop_fixed_pdhg_general.
                    if cls == "GerchbergSaxton" or (cls == "PrimalDualHybridGradient" and spec.get("acc", "none") != "none"):
                        same = all(x.shape == y.shape and np.all(np.abs(x - y) <= 1e-10 * (1 + np.abs(x))) for x, y in zip(before, after))
                    else:
                        same = all(x.shape == y.shape and np.array_equal(x, y) for x, y in zip(before, after))
                    if not same:
                        bad("early-stop", "done() is true after %d < max_iter = %d updates with tol = 0 but one more update() "
                            "changes the solution" % (a.iter, max_iter),
                            obs=[np.ravel(v).tolist() for v in after], exp=[np.ravel(v).tolist() for v in before])
                except Exception as e:  # noqa
                    bad("exception", "extra update raised %r" % (e,))
    if cls == "PowerMethod" and len(eigs) >= 2:
        lmax = float(np.linalg.eigvalsh(inst["M"])[-1])
        for k in range(1, len(eigs)):
            if k >= 2 and eigs[k] < eigs[k - 1] * (1 - 1e-12) - 1e-300:
                bad("power-monotone", "max_eig decreased at update %d" % (k + 1), obs=eigs[k], exp=">= %r" % eigs[k - 1])
            if eigs[k] > lmax * (1 + 1e-12) + 1e-300:
                bad("power-bound", "max_eig exceeds lambda_max at update %d" % (k + 1), obs=eigs[k], exp="<= %r" % lmax)
    return ok


def _sol_of(b, cls):
    if cls == "PrimalDualHybridGradient":
        return [b.x, b.u]
    if cls == "AugmentedLagrangianMethod":
        return [b.x, b.u, b.v]
    if cls == "ADMM":
        return [b.x, b.z, b.u]
    return [b.x]


def check_lls(ctx, spec, origin):
    """LinearLeastSquares(proxg=L1Reg, solver=PDHG, tol=0).run(): returns what the alg holds; early stop only at a fixed point"""
    import sigpy as sp
    r = __import__("random").Random(spec["seed"])
    m, n = spec["m"], spec["n"]
    A = np.array([[float(r.randint(-2, 2)) for _ in range(n)] for _ in range(m)])
    if not A.any():
        A[0, 0] = 1.0
    y = np.array([float(r.randint(1, 3)) for _ in range(m)]).reshape(m, 1)
    lam = spec["lam"]
    app = sp.app.LinearLeastSquares(sp.linop.MatMul((n, 1), A), y, proxg=sp.prox.L1Reg((n, 1), lam),
                                    solver="PrimalDualHybridGradient", sigma=spec["sigma"], tol=0, max_iter=spec["max_iter"],
                                    show_pbar=False)
    out = app.run()
    a = app.alg
    case = dict(cls="LinearLeastSquares", spec=spec)
    ok = True
    if out is not a.x and not np.array_equal(out, a.x):
        ctx.fail("C15:LinearLeastSquares:output", "run() does not return the solution the algorithm holds", case, origin=origin)
        ok = False
    if a.iter > spec["max_iter"]:
        ctx.fail("C15:LinearLeastSquares:loop-bound", "more than max_iter updates", case, observed=a.iter, origin=origin)
        ok = False
    if a.iter < spec["max_iter"]:
        before = [a.x.copy(), a.u.copy()]
        b = copy.deepcopy(a)
        b.update()
        if not (np.array_equal(before[0], b.x) and np.array_equal(before[1], b.u)):
            ctx.fail(KEY_PDHG, "LinearLeastSquares(proxg=L1Reg, solver=PDHG, tol=0).run() stopped after %d < max_iter = %d updates at "
                     "x = %s although one more update() changes the solution" % (a.iter, spec["max_iter"], a.x.tolist()),
                     case, observed=[b.x.tolist(), b.u.tolist()], expected=[v.tolist() for v in before], origin=origin)
            ok = False
    return ok


def search(ctx, budget):
    rng = ctx.rng
    for d in ctx.disagreements[:60]:
        c = d["case"]
        if "spec" in c and c["spec"].get("cls") in RUN_CLASSES:
            check_instance(ctx, c["spec"]["cls"], c["spec"]["max_iter"], c["spec"], "disagreement")
    # pinned instance of the recorded finding C15:SDMM:early-stop:no-constraint-blocks (run in every tier)
    check_instance(ctx, "SDMM", 60, dict(cls="SDMM", max_iter=60, seed=892020169, n=3, nL=0, c_norm=None, lam=1.0, mu=1.0,
                                         eps_pri=0, eps_dual=0, cg=3), "pinned")
    n = int(250 * budget)
    t_before = TIMEOUTS["n"]
    for i in range(n):
        if TIMEOUTS["n"] - t_before >= 4:
            break  # the loop-bound failures are already recorded
        cls = rng.choice(RUN_CLASSES + ["GradientMethod", "PrimalDualHybridGradient"])
        mi = rng.choice([0, 1, 2, 5, 30, 60])
        ctx.case(("oracle", cls, mi, i))
        ctx.count("oracle:%s" % cls)
        check_instance(ctx, cls, mi, None, "search", use_app=(i % 5 == 4))
    # PDHG stalling family under step-size adaptation / array steps; Newton with line search at and away from a solution
    for i in range(int(30 * budget)):
        spec = dict(cls="PrimalDualHybridGradient", max_iter=rng.choice([5, 30]), seed=rng.randint(0, 2 ** 31),
                    fam=rng.choice(["l1-small-sigma", "l1-small-sigma", "box", "none"]), acc=rng.choice(["primal", "dual"]))
        ctx.case(("oracle-pdhg-accel", json.dumps(spec, sort_keys=True)))
        ctx.count("oracle:PrimalDualHybridGradient:%s" % spec["acc"])
        check_instance(ctx, spec["cls"], spec["max_iter"], spec, "search", use_app=(i % 5 == 4))
    # accelerated proximal gradient with a projection prox: the momentum point z and the iterate x must BOTH have stopped
    # moving before done() may be true (family box-momentum of make(): x is clipped on consecutive updates while z moves)
    for i in range(int(40 * budget)):
        spec = dict(cls="GradientMethod", max_iter=rng.choice([30, 60]), seed=rng.randint(0, 2 ** 31),
                    fam=rng.choice(["box-momentum", "box-momentum", "box", "l1"]), accel=True)
        ctx.case(("oracle-gm-accel", json.dumps(spec, sort_keys=True)))
        ctx.count("oracle:GradientMethod:accelerated:%s" % spec["fam"])
        check_instance(ctx, spec["cls"], spec["max_iter"], spec, "search", use_app=(i % 5 == 4))
    for i in range(int(20 * budget)):
        spec = dict(cls="NewtonsMethod", max_iter=rng.choice([5, 30]), seed=rng.randint(0, 2 ** 31),
                    beta=rng.choice([0.5, 0.8]), nfam=rng.choice(["quartic", "quad"]))
        ctx.case(("oracle-newton-ls", json.dumps(spec, sort_keys=True)))
        ctx.count("oracle:NewtonsMethod:line-search")
        check_instance(ctx, spec["cls"], spec["max_iter"], spec, "search")
    for i in range(int(40 * budget)):
        spec = dict(seed=rng.randint(0, 2 ** 31), m=rng.randint(1, 4), n=rng.randint(1, 4), lam=rng.choice([1.0, 2.0, 4.0]),
                    sigma=rng.choice([0.0625, 0.125, 0.25, 1.0]), max_iter=rng.choice([5, 30]))
        ctx.case(("oracle-lls", json.dumps(spec, sort_keys=True)))
        ctx.count("oracle:LinearLeastSquares-PDHG-L1")
        try:
            check_lls(ctx, spec, "search")
        except Exception as e:  # noqa
            ctx.fail("C15:LinearLeastSquares:exception", "raised %r" % (e,), dict(cls="LinearLeastSquares", spec=spec), origin="search")


def replay(path):
    r = json.load(open(path))
    print(json.dumps(r, indent=1)[:3000])
    if r.get("kind") != "failing-input":
        return 0
    c = r["case"]
    ctx = common.Ctx(PROPERTY, "quick", 0)
    if c["cls"] == "LinearLeastSquares":
        ok = check_lls(ctx, c["spec"], "replay")
    else:
        ok = check_instance(ctx, c["cls"], c["max_iter"], c["spec"], "replay", use_app=c.get("use_app", False))
    for f in ctx.failures[:5]:
        print("FAIL", f["key"], f["what"], "observed=", f["observed"], "expected=", f["expected"])
    print("replay:", "property holds on this input" if ok else "property FAILS on this input")
    return 0 if ok else 1
