"""C01 translator plugin: sigpy/linop.py -> lean/SigpyVerif/Gen/LinopAdjoint.lean

What is generated (every run, from /repo's current source), fail-closed (`Unsupported` = broken obligation):

 * `adjLeafGen osh : Leaf α → Expr α` — one match arm per exactly-representable operator class, translated
   from the body of the class's `_adjoint_linop`:
     - `return self`, `return Cls(arg, ..., kw=arg)` with arguments `self.attr`, `not self.attr`,
       `[-v for v in self.attr]` (15 classes);
     - Transpose's `if self.axes is None: .. else: ..` with `None`, `E[::-1]`, `np.argsort(E)`,
       `[E[a] for a in E']`;
     - the plumbing `sum_axes = helper(self.oshape, self.ishape, shape); M = Cls(self.oshape, arr, flag=not
       self.flag); S = Sum(M.oshape, sum_axes); R = Reshape(self.ishape, S.oshape); return R * S * M` of
       Multiply / MatMul / RightMatMul, where `X.oshape` of an operator object `X` is `osh X` (a parameter: the
       model instantiates it with what the operator denotes);
   positional / keyword arguments are bound with the *target class's `__init__` signature read from the source*;
   `self.ishape` / `self.oshape` are resolved to constructor parameters by reading the class's
   `super().__init__(oshape, ishape)` call; other attributes by their `self.x = x` assignment (attributes that are
   normalised in `__init__` are listed in `NORMALISED` with the Lean expression and the source text they must have).
 * `multiplySumTest`, `multiplySumDrop`, `matmulSumTest`, `matmulSumDrop` — the `if` test and the number of
   trailing axes skipped in `_get_multiply_adjoint_sum_axes` / `_get_matmul_adjoint_sum_axes`, and the two helper
   functions built from them.
 * `adjGen osh : Expr α → Expr α` — Conj / Add / Compose / Hstack / Vstack / Diag `_adjoint_linop` rules.
 * `adjOpaque : Opaque α → Opaque α` — FFT↔IFFT, Wavelet↔InverseWavelet, ConvolveData(+Adjoint),
   ConvolveFilter(+Adjoint), NUFFT↔NUFFTAdjoint: class and arguments of the returned operator.
 * `applyGen : Leaf α → Option (Prim α)` — for the fifteen classes whose `_apply` is one call on `input` (or `zeros; out[idx] = input`)
   (`return input`, `input.reshape(..)`, `input.transpose(..)`, `input[..]`, `util.resize/flip/circshift/downsample/
   upsample(input, ..)` with the arguments bound by the util function's signature read from util.py,
   `xp.asarray(xp.sum(input, axis=..))`, `block.array_to_blocks`, `interp.interpolate`): which primitive with which
   attributes.  `with device:` blocks and the assignments `device = backend.get_device(input)`, `xp = device.xp`,
   `x = backend.to_device(self.x, device)` are looked through; anything else is `Unsupported`.
 * `finiteDifference negOne ishape axes : Option (Expr α)` — the tree `FiniteDifference` builds
   (Identity, Circshift, Reshape, `-`, `*`, Vstack(axis=0)), `axes` being the result of `util._normalize_axes`.

Props/C01Gen.lean proves `adjLeaf = adjLeafGen`, `adj = adjGen`, `multiplySumAxes = Gen…`, … so an edit of any of
these source lines changes a definition the kernel re-checks against the proved model.
"""
import ast

from harness.translate import gen as G
from harness.translate import py2lean as T

U = T.Unsupported


def _src(n):
    return ast.unparse(n)


# ---- schema: Python class -> Leaf constructor ------------------------------------------------------
# params: [(python __init__ parameter, [lean fields])] in Leaf-constructor field order
LEAF = {
    "Identity": ("identity", [("shape", ["shape"])]),
    "Reshape": ("reshape", [("oshape", ["oshape"]), ("ishape", ["ishape"])]),
    "Transpose": ("transpose", [("ishape", ["ishape"]), ("axes", ["axes"])]),
    "Resize": ("resize", [("oshape", ["oshape"]), ("ishape", ["ishape"]), ("ishift", ["ishift"]), ("oshift", ["oshift"])]),
    "Flip": ("flip", [("shape", ["shape"]), ("axes", ["axes"])]),
    "Circshift": ("circshift", [("shape", ["shape"]), ("shift", ["shift"]), ("axes", ["axes"])]),
    "Downsample": ("downsample", [("ishape", ["ishape"]), ("factors", ["factors"]), ("shift", ["shift"])]),
    "Upsample": ("upsample", [("oshape", ["oshape"]), ("factors", ["factors"]), ("shift", ["shift"])]),
    "Sum": ("sum", [("ishape", ["ishape"]), ("axes", ["axes"])]),
    "Tile": ("tile", [("oshape", ["oshape"]), ("axes", ["axes"])]),
    "Slice": ("slice", [("ishape", ["ishape"]), ("idx", ["idx"])]),
    "Embed": ("embed", [("oshape", ["oshape"]), ("idx", ["idx"])]),
    "Multiply": ("multiply", [("ishape", ["ishape"]), ("mult", ["mshape", "mult"]), ("conj", ["cj"])]),
    "MatMul": ("matmul", [("ishape", ["ishape"]), ("mat", ["mshape", "mat"]), ("adjoint", ["adjoint"])]),
    "RightMatMul": ("rmatmul", [("ishape", ["ishape"]), ("mat", ["mshape", "mat"]), ("adjoint", ["adjoint"])]),
    "ArrayToBlocks": ("a2b", [("ishape", ["ishape"]), ("blk_shape", ["blk_shape"]), ("blk_strides", ["blk_strides"])]),
    "BlocksToArray": ("b2a", [("oshape", ["oshape"]), ("blk_shape", ["blk_shape"]), ("blk_strides", ["blk_strides"])]),
    # kernel: the Leaf models the spline kernel only; the argument must be passed through unchanged
    "Interpolate": ("interp", [("ishape", ["ishape"]), ("coord", ["pts", "coord"]), ("kernel", []), ("width", ["width"]), ("param", ["param"])]),
    "Gridding": ("gridding", [("oshape", ["oshape"]), ("coord", ["pts", "coord"]), ("kernel", []), ("width", ["width"]), ("param", ["param"])]),
}
# Leaf-constructor field order when it differs from the __init__ parameter order: none (checked below by construction)

# attributes whose value after __init__ is not the raw parameter: attr -> (required source of the assignment, lean)
NORMALISED = {
    ("Sum", "axes"): ("tuple((i % len(ishape) for i in axes))", ["(C01.normAxes axes ishape.length)"]),
    ("Tile", "axes"): ("tuple((a % len(oshape) for a in axes))", ["(C01.normAxes axes oshape.length)"]),
    # Downsample / Upsample: `shift=None` is replaced by zeros before `self.shift = shift`; the Leaf carries the
    # list (the harness passes the zeros), so `self.shift` is the field
    # Multiply: self.mshape is `[1]` for a scalar, `mult.shape` otherwise: the Leaf's `mshape` field
    ("Multiply", "mshape"): (None, ["mshape"]),
}

OPAQUE = {
    "FFT": ("fft", ["shape", "axes", "center"]),
    "IFFT": ("ifft", ["shape", "axes", "center"]),
    "Wavelet": ("wavelet", ["ishape", "axes", "wave_name", "level"]),
    "InverseWavelet": ("iwavelet", ["oshape", "axes", "wave_name", "level"]),
    "ConvolveData": ("convData", ["data_shape", "filt", "mode", "strides", "multi_channel"]),
    "ConvolveDataAdjoint": ("convDataAdj", ["data_shape", "filt", "mode", "strides", "multi_channel"]),
    "ConvolveFilter": ("convFilt", ["filt_shape", "data", "mode", "strides", "multi_channel"]),
    "ConvolveFilterAdjoint": ("convFiltAdj", ["filt_shape", "data", "mode", "strides", "multi_channel"]),
    "NUFFT": ("nufft", ["ishape", "coord", "oversamp", "width", "toeplitz"]),
    "NUFFTAdjoint": ("nufftAdj", ["oshape", "coord", "oversamp", "width"]),
}


def _lean_id(n):
    return T.nm(n)


class _Cls:
    """what the source says about one class: __init__ parameters, self.ishape/self.oshape origin, attributes"""

    def __init__(self, tree, name):
        self.name = name
        self.node = T.find_function(tree, name)
        self.init = T.find_function(tree, name + ".__init__")
        a = self.init.args
        if a.vararg or a.kwarg or a.kwonlyargs or a.posonlyargs:
            raise U("%s.__init__: unsupported signature" % name)
        self.params = [x.arg for x in a.args][1:]
        self.adj = T.find_function(tree, name + "._adjoint_linop")
        if [x.arg for x in self.adj.args.args] != ["self"]:
            raise U("%s._adjoint_linop signature" % name)
        # super().__init__(oshape_expr, ishape_expr)
        self.super_args = None
        for n in ast.walk(self.init):
            if isinstance(n, ast.Call) and isinstance(n.func, ast.Attribute) and n.func.attr == "__init__" \
                    and isinstance(n.func.value, ast.Call) and _src(n.func.value.func) == "super":
                if self.super_args is not None or n.keywords or len(n.args) != 2:
                    raise U("%s.__init__: super().__init__ call" % name)
                self.super_args = n.args
        if self.super_args is None:
            raise U("%s.__init__: no super().__init__(oshape, ishape)" % name)
        # self.x = <expr> assignments (top level or nested): attr -> [value nodes]
        self.assigns = {}
        for n in ast.walk(self.init):
            if isinstance(n, ast.Assign):
                for t in n.targets:
                    if isinstance(t, ast.Attribute) and isinstance(t.value, ast.Name) and t.value.id == "self":
                        self.assigns.setdefault(t.attr, []).append(n.value)

    def attr_param(self, attr):
        """the __init__ parameter `self.<attr>` holds, or raise"""
        if attr in ("oshape", "ishape"):
            node = self.super_args[0 if attr == "oshape" else 1]
            if isinstance(node, ast.Name) and node.id in self.params:
                return node.id
            raise U("%s: self.%s is not a constructor parameter (%s)" % (self.name, attr, _src(node)))
        vals = self.assigns.get(attr, [])
        if len(vals) == 1 and isinstance(vals[0], ast.Name) and vals[0].id in self.params and vals[0].id == attr:
            return attr
        raise U("%s: self.%s is not assigned from the parameter of the same name" % (self.name, attr))


def _bind(cls, call):
    """bind the arguments of `Cls(...)` to Cls.__init__ parameter names (defaults are not filled in)"""
    if len(call.args) > len(cls.params):
        raise U("too many arguments for %s" % cls.name)
    out = dict(zip(cls.params, call.args))
    for k in call.keywords:
        if k.arg is None or k.arg not in cls.params or k.arg in out:
            raise U("bad keyword %s for %s" % (k.arg, cls.name))
        out[k.arg] = k.value
    return out


class _Tr:
    """argument-expression translator for one source class (Leaf schema)"""

    def __init__(self, classes, cname, env=None):
        self.classes, self.cname, self.cls = classes, cname, classes[cname]
        self.fields = dict((p, f) for p, f in LEAF[cname][1])
        self.env = env if env is not None else {}  # local names -> [lean]

    def attr(self, a):
        key = (self.cname, a)
        if key in NORMALISED:
            want, lean = NORMALISED[key]
            vals = self.cls.assigns.get(a, [])
            if want is not None and (len(vals) != 1 or _src(vals[0]) != want):
                raise U("%s: self.%s = %s (expected %s)" % (self.cname, a, [_src(v) for v in vals], want))
            if want is None and len(vals) == 0:
                raise U("%s: self.%s never assigned" % (self.cname, a))
            return lean
        p = self.cls.attr_param(a)
        if p not in self.fields:
            raise U("%s: parameter %s has no Leaf field" % (self.cname, p))
        return [_lean_id(f) for f in self.fields[p]]

    def tr(self, e):
        """-> list of Lean field expressions"""
        if isinstance(e, ast.Attribute) and isinstance(e.value, ast.Name) and e.value.id == "self":
            return self.attr(e.attr)
        if isinstance(e, ast.Attribute) and e.attr == "shape" and isinstance(e.value, ast.Attribute) \
                and isinstance(e.value.value, ast.Name) and e.value.value.id == "self":
            got = self.attr(e.value.attr)  # self.mat.shape -> the shape field of the array parameter
            if len(got) != 2:
                raise U("%s: .shape of a non-array attribute" % self.cname)
            return [got[0]]
        if isinstance(e, ast.Name) and e.id in self.env:
            return self.env[e.id]
        if isinstance(e, ast.Constant) and e.value is None:
            return ["none"]
        if isinstance(e, ast.UnaryOp) and isinstance(e.op, ast.Not):
            (x,) = self.tr(e.operand)
            return ["(!%s)" % x]
        if isinstance(e, ast.ListComp) and len(e.generators) == 1 and not e.generators[0].ifs \
                and isinstance(e.generators[0].target, ast.Name):
            v = e.generators[0].target.id
            (it,) = self.tr(e.generators[0].iter)
            if isinstance(e.elt, ast.UnaryOp) and isinstance(e.elt.op, ast.USub) and isinstance(e.elt.operand, ast.Name) \
                    and e.elt.operand.id == v:
                return ["(%s.map fun %s => -%s)" % (it, v, v)]
            if isinstance(e.elt, ast.Subscript) and isinstance(e.elt.slice, ast.Name) and e.elt.slice.id == v:
                (base,) = self.tr(e.elt.value)
                return ["(%s.map fun %s => C01.getI %s %s.toNat)" % (it, v, base, v)]
            raise U("list comprehension %s" % _src(e))
        if isinstance(e, ast.Subscript) and isinstance(e.slice, ast.Slice) and e.slice.lower is None \
                and e.slice.upper is None and _src(e.slice.step or ast.Constant(1)) == "-1":
            (base,) = self.tr(e.value)
            return ["%s.reverse" % base]
        if isinstance(e, ast.Call) and _src(e.func) == "np.argsort" and len(e.args) == 1 and not e.keywords:
            (x,) = self.tr(e.args[0])
            return ["(C01.argsortInv %s)" % x]
        raise U("%s._adjoint_linop: expression %s" % (self.cname, _src(e)))

    def ctor(self, call, wrap=None):
        """`Cls(args)` -> Lean leaf term `(.ctor f1 f2 ..)`; wrap(param, leans) may post-process"""
        if not (isinstance(call, ast.Call) and isinstance(call.func, ast.Name) and call.func.id in LEAF):
            raise U("%s._adjoint_linop: %s is not a modelled constructor call" % (self.cname, _src(call)))
        tgt = call.func.id
        tcls = self.classes[tgt]
        lean_ctor, schema = LEAF[tgt]
        if [p for p, _ in schema] != tcls.params:
            raise U("%s.__init__ parameters %s differ from the schema %s" % (tgt, tcls.params, [p for p, _ in schema]))
        bound = _bind(tcls, call)
        parts = []
        for p, fs in schema:
            if p not in bound:
                raise U("%s._adjoint_linop: argument %s of %s left to its default" % (self.cname, p, tgt))
            leans = self.tr(bound[p])
            if wrap:
                leans = wrap(tgt, p, leans)
            if len(leans) != len(fs):
                raise U("%s._adjoint_linop: argument %s of %s has arity %d, expected %d" % (
                    self.cname, p, tgt, len(leans), len(fs)))
            parts += leans
        return "(.%s %s)" % (lean_ctor, " ".join(parts))


def _pattern(cname):
    lean_ctor, schema = LEAF[cname]
    return ".%s %s" % (lean_ctor, " ".join(_lean_id(f) for _, fs in schema for f in fs))


def _self_leaf(cname):
    return "(%s)" % _pattern(cname)


def _simple_arm(classes, cname):
    fn = classes[cname].adj
    body = [s for s in fn.body if not (isinstance(s, ast.Expr) and isinstance(s.value, ast.Constant))]
    tr = _Tr(classes, cname)
    if len(body) == 1 and isinstance(body[0], ast.Return):
        v = body[0].value
        if isinstance(v, ast.Name) and v.id == "self":
            return ".leaf %s" % _self_leaf(cname)
        return ".leaf %s" % tr.ctor(v)
    raise U("%s._adjoint_linop: not a single return" % cname)


def _transpose_arm(classes):
    """if self.axes is None: a = e1; b = e2  else: a = e3; b = e4 ; return Transpose(b, axes=a)"""
    cname = "Transpose"
    cls = classes[cname]
    body = cls.adj.body
    if len(body) != 2 or not isinstance(body[0], ast.If) or not isinstance(body[1], ast.Return):
        raise U("Transpose._adjoint_linop: shape of the body")
    test = body[0].test
    if _src(test) != "self.axes is None":
        raise U("Transpose._adjoint_linop: test %s" % _src(test))
    # self.axes after __init__: None stays None; otherwise tuple(a % len(ishape) for a in axes)
    init_src = " ; ".join(_src(s) for s in cls.init.body if not isinstance(s, ast.Expr))
    want = "if axes is not None:\n    axes = tuple((a % len(ishape) for a in axes))"
    stmts = [_src(s) for s in cls.init.body]
    if want not in stmts or "self.axes = axes" not in stmts or stmts.index(want) > stmts.index("self.axes = axes"):
        raise U("Transpose.__init__: normalisation of axes changed: %s" % init_src)

    def branch(stmts, axes_lean):
        env = {}
        tr = _Tr(classes, cname, env)
        tr.attr_orig = tr.attr
        tr.attr = lambda a: [axes_lean] if a == "axes" else tr.attr_orig(a)
        for s in stmts:
            if not (isinstance(s, ast.Assign) and len(s.targets) == 1 and isinstance(s.targets[0], ast.Name)):
                raise U("Transpose._adjoint_linop: statement %s" % _src(s))
            env[s.targets[0].id] = tr.tr(s.value)
        return tr

    t_none = branch(body[0].body, "none")
    t_some = branch(body[0].orelse, "(C01.normAxes a ishape.length)")
    call = body[1].value
    none_term = t_none.ctor(call)
    some_term = t_some.ctor(call, wrap=lambda tgt, p, leans: ["(some %s)" % leans[0]] if p == "axes" else leans)
    return "match axes with\n      | none => .leaf %s\n      | some a => .leaf %s" % (none_term, some_term)


def _plumbing_arm(classes, cname, helper_lean):
    cls = classes[cname]
    body = cls.adj.body
    if len(body) != 5:
        raise U("%s._adjoint_linop: expected 5 statements" % cname)
    tr = _Tr(classes, cname)

    def assign(s, name):
        if not (isinstance(s, ast.Assign) and len(s.targets) == 1 and isinstance(s.targets[0], ast.Name)
                and s.targets[0].id == name):
            raise U("%s._adjoint_linop: expected `%s = ...`, got %s" % (cname, name, _src(s)))
        return s.value

    # sum_axes = helper(self.oshape, self.ishape, shape)
    v = assign(body[0], "sum_axes")
    if not (isinstance(v, ast.Call) and isinstance(v.func, ast.Name) and v.func.id in helper_lean and not v.keywords
            and len(v.args) == 3):
        raise U("%s._adjoint_linop: sum_axes = %s" % (cname, _src(v)))
    helper = helper_lean[v.func.id]
    self_leaf = _self_leaf(cname)

    def obj_or_attr(e, objs):
        """self.oshape -> osh self ; X.oshape -> osh X ; other -> tr"""
        if isinstance(e, ast.Attribute) and e.attr == "oshape" and isinstance(e.value, ast.Name):
            if e.value.id == "self":
                return ["(osh %s)" % self_leaf]
            if e.value.id in objs:
                return ["(osh %s)" % objs[e.value.id]]
        if isinstance(e, ast.Name) and e.id == "sum_axes":
            return ["sumAxes"]
        return tr.tr(e)

    objs = {}
    hargs = [obj_or_attr(a, objs) for a in v.args]
    if any(len(a) != 1 for a in hargs):
        raise U("%s._adjoint_linop: helper arguments" % cname)
    sum_axes = "(%s %s)" % (helper, " ".join(a[0] for a in hargs))

    def ctor_with_objs(call):
        t2 = _Tr(classes, cname)
        t2.tr_orig = t2.tr
        t2.tr = lambda e: obj_or_attr(e, objs) if (isinstance(e, ast.Attribute) and e.attr == "oshape"
                                                   and isinstance(e.value, ast.Name)) or \
            (isinstance(e, ast.Name) and e.id == "sum_axes") else t2.tr_orig(e)
        return t2.ctor(call)

    objs["M"] = ctor_with_objs(assign(body[1], "M"))
    objs["S"] = ctor_with_objs(assign(body[2], "S"))
    objs["R"] = ctor_with_objs(assign(body[3], "R"))
    ret = body[4]
    def chain(e):  # `R * S * M` in any association (Compose flattens nested products)
        if isinstance(e, ast.BinOp) and isinstance(e.op, ast.Mult):
            return chain(e.left) + chain(e.right)
        if isinstance(e, ast.Name):
            return [e.id]
        raise U("%s._adjoint_linop: return %s" % (cname, _src(e)))

    if not (isinstance(ret, ast.Return) and ret.value is not None and chain(ret.value) == ["R", "S", "M"]):
        raise U("%s._adjoint_linop: return %s" % (cname, _src(ret)))
    return ("let sumAxes := %s\n      let M : Leaf α := %s\n      let S : Leaf α := %s\n      let R : Leaf α := %s\n"
            "      -- `R * S * M`: Compose flattens nested products (`_combine_compose_linops`); the model nests to the right\n"
            "      .comp (.leaf R) (.comp (.leaf S) (.leaf M))") % (sum_axes, objs["M"], objs["S"], objs["R"])


def _sum_axes_helper(tree, py, lean):
    """for i, m, o, d in zip(ie[sl], me[sl], oshape[sl], range(max_ndim - k)): if TEST: sum_axes.append(d)"""
    fn = T.find_function(tree, py)
    if [a.arg for a in fn.args.args] != ["oshape", "ishape", "mshape"]:
        raise U("%s signature" % py)
    want_head = ["ishape_exp, mshape_exp = util._expand_shapes(ishape, mshape)", "max_ndim = max(len(ishape), len(mshape))",
                 "sum_axes = []"]
    body = [s for s in fn.body if not (isinstance(s, ast.Expr) and isinstance(s.value, ast.Constant))]
    if [_src(s) for s in body[:3]] != want_head or len(body) != 5 or _src(body[4]) != "return sum_axes":
        raise U("%s: body changed" % py)
    loop = body[3]
    if not (isinstance(loop, ast.For) and not loop.orelse and _src(loop.target) == "(i, m, o, d)"
            and isinstance(loop.iter, ast.Call) and _src(loop.iter.func) == "zip" and len(loop.iter.args) == 4):
        raise U("%s: loop header" % py)
    drops = []
    for a, base in zip(loop.iter.args[:3], ["ishape_exp", "mshape_exp", "oshape"]):
        if isinstance(a, ast.Name) and a.id == base:
            drops.append(0)
        elif isinstance(a, ast.Subscript) and _src(a.value) == base and isinstance(a.slice, ast.Slice) \
                and a.slice.lower is None and a.slice.step is None and isinstance(a.slice.upper, ast.UnaryOp) \
                and isinstance(a.slice.upper.op, ast.USub) and isinstance(a.slice.upper.operand, ast.Constant) \
                and isinstance(a.slice.upper.operand.value, int):
            drops.append(a.slice.upper.operand.value)
        else:
            raise U("%s: zip argument %s" % (py, _src(a)))
    r = loop.iter.args[3]
    if _src(r) == "range(max_ndim)":
        drops.append(0)
    elif isinstance(r, ast.Call) and _src(r.func) == "range" and len(r.args) == 1 and isinstance(r.args[0], ast.BinOp) \
            and isinstance(r.args[0].op, ast.Sub) and _src(r.args[0].left) == "max_ndim" \
            and isinstance(r.args[0].right, ast.Constant) and isinstance(r.args[0].right.value, int):
        drops.append(r.args[0].right.value)
    else:
        raise U("%s: range %s" % (py, _src(r)))
    if len(set(drops)) != 1:
        raise U("%s: the four zipped sequences skip different numbers of trailing axes: %s" % (py, drops))
    if len(loop.body) != 1 or not isinstance(loop.body[0], ast.If) or loop.body[0].orelse \
            or [_src(s) for s in loop.body[0].body] != ["sum_axes.append(d)"]:
        raise U("%s: loop body" % py)
    test = T.Expr({"i": T.INT, "m": T.INT, "o": T.INT, "d": T.INT}).cond(loop.body[0].test)
    return (
        "/-- generated from `%s`: the test under which axis `d` is appended -/\n"
        "def %sTest (i m o d : Int) : Bool := decide %s\n\n"
        "/-- generated from `%s`: number of trailing axes the zip skips -/\n"
        "def %sDrop : Nat := %d\n\n"
        "/-- generated from `%s` -/\n"
        "def %s (oshape ishape mshape : List Int) : List Int :=\n"
        "  let ie := (C09.expandShapes ishape mshape).1\n  let me := (C09.expandShapes ishape mshape).2\n"
        "  (List.range (ie.length - %sDrop)).filterMap fun d =>\n"
        "    if %sTest (C01.getI ie d) (C01.getI me d) (C01.getI oshape d) (d : Int) then some (d : Int) else none\n"
    ) % (py, lean, test, py, lean, drops[0], py, lean + "Axes", lean, lean)


def _tree_rules(tree):
    """Conj / Add / Compose / Hstack / Vstack / Diag"""
    def ret(cname):
        fn = T.find_function(tree, cname + "._adjoint_linop")
        body = [s for s in fn.body if not (isinstance(s, ast.Expr) and isinstance(s.value, ast.Constant))]
        if len(body) != 1 or not isinstance(body[0], ast.Return) or not isinstance(body[0].value, ast.Call):
            raise U("%s._adjoint_linop: not a single return of a call" % cname)
        return body[0].value

    def hlist(cname, node):
        """[x.H for x in self.linops] -> False ; [x.H for x in self.linops[::-1]] -> True (reversed)"""
        if not (isinstance(node, ast.ListComp) and len(node.generators) == 1 and not node.generators[0].ifs
                and isinstance(node.generators[0].target, ast.Name)):
            raise U("%s._adjoint_linop: %s" % (cname, _src(node)))
        v = node.generators[0].target.id
        if _src(node.elt) != v + ".H":
            raise U("%s._adjoint_linop: element %s" % (cname, _src(node.elt)))
        it = _src(node.generators[0].iter)
        if it == "self.linops":
            return False
        if it == "self.linops[::-1]":
            return True
        raise U("%s._adjoint_linop: iterates over %s" % (cname, it))

    arms = []
    c = ret("Conj")
    if _src(c) != "Conj(self.A.H)":
        raise U("Conj._adjoint_linop: %s" % _src(c))
    arms.append("  | .conj a => .conj (adjGen osh a)")
    ctor = {"Add": "add", "Compose": "comp", "Hstack": "hstack", "Vstack": "vstack", "Diag": "diag"}
    axes_of = {"Hstack": ["axis"], "Vstack": ["axis"], "Diag": ["oaxis", "iaxis"], "Add": [], "Compose": []}
    pat = {"Add": ".add a b", "Compose": ".comp a b", "Hstack": ".hstack axis a b", "Vstack": ".vstack axis a b",
           "Diag": ".diag oaxis iaxis a b"}
    for cname in ["Add", "Compose", "Hstack", "Vstack", "Diag"]:
        c = ret(cname)
        if not (isinstance(c.func, ast.Name) and c.func.id in ctor and len(c.args) == 1):
            raise U("%s._adjoint_linop: %s" % (cname, _src(c)))
        tgt = c.func.id
        rev = hlist(cname, c.args[0])
        kws = {}
        for k in c.keywords:
            if not (isinstance(k.value, ast.Attribute) and _src(k.value.value) == "self" and k.value.attr in axes_of[cname]):
                raise U("%s._adjoint_linop: keyword %s" % (cname, _src(k.value)))
            kws[k.arg] = k.value.attr
        if sorted(kws) != sorted(axes_of[tgt]):
            raise U("%s._adjoint_linop: keywords %s for %s" % (cname, sorted(kws), tgt))
        ops = "(adjGen osh b) (adjGen osh a)" if rev else "(adjGen osh a) (adjGen osh b)"
        arms.append("  | %s => .%s %s%s" % (pat[cname], ctor[tgt], "".join(kws[a] + " " for a in axes_of[tgt]), ops))
    return arms


def _opaque(tree):
    arms = []
    classes = {}
    for cname in OPAQUE:
        classes[cname] = _Cls(tree, cname)
        if classes[cname].params != OPAQUE[cname][1]:
            raise U("%s.__init__ parameters %s differ from the schema %s" % (cname, classes[cname].params, OPAQUE[cname][1]))
    for cname, (lean_ctor, params) in OPAQUE.items():
        cls = classes[cname]
        body = [s for s in cls.adj.body if not (isinstance(s, ast.Expr) and isinstance(s.value, ast.Constant))]
        if len(body) != 1 or not isinstance(body[0], ast.Return) or not isinstance(body[0].value, ast.Call) \
                or not isinstance(body[0].value.func, ast.Name) or body[0].value.func.id not in OPAQUE:
            raise U("%s._adjoint_linop: not `return OpaqueClass(...)`" % cname)
        call = body[0].value
        tgt = call.func.id
        bound = _bind(classes[tgt], call)
        parts = []
        for p in OPAQUE[tgt][1]:
            if p not in bound:
                # a Boolean default of the target's __init__ is written out; anything else is not translated
                a = classes[tgt].init.args
                dflt = dict(zip([x.arg for x in a.args][len(a.args) - len(a.defaults):], a.defaults)).get(p)
                if isinstance(dflt, ast.Constant) and isinstance(dflt.value, bool):
                    parts.append("true" if dflt.value else "false")
                    continue
                raise U("%s._adjoint_linop: argument %s of %s left to its default" % (cname, p, tgt))
            e = bound[p]
            if not (isinstance(e, ast.Attribute) and _src(e.value) == "self"):
                raise U("%s._adjoint_linop: argument %s" % (cname, _src(e)))
            parts.append(_lean_id(cls.attr_param(e.attr)))
        arms.append("  | .%s %s => .%s %s" % (lean_ctor, " ".join(_lean_id(p) for p in params), OPAQUE[tgt][0], " ".join(parts)))
    return arms


def _finite_difference(tree):
    fn = T.find_function(tree, "FiniteDifference")
    if [a.arg for a in fn.args.args] != ["ishape", "axes"]:
        raise U("FiniteDifference signature")
    body = [s for s in fn.body if not (isinstance(s, ast.Expr) and isinstance(s.value, ast.Constant))]
    want = ["Id = Identity(ishape)", "ndim = len(ishape)", "axes = util._normalize_axes(axes, ndim)", "linops = []"]
    if [_src(s) for s in body[:4]] != want or len(body) != 7:
        raise U("FiniteDifference: prologue changed")
    loop, g, ret = body[4], body[5], body[6]
    if not (isinstance(loop, ast.For) and _src(loop.target) == "i" and _src(loop.iter) == "axes" and not loop.orelse):
        raise U("FiniteDifference: loop header")
    env = {"Id": ("op", ".leaf (.identity ishape)", "ishape"), "ishape": ("list", "ishape"), "i": ("int", "i")}

    def lst(e):
        if isinstance(e, ast.Name) and e.id in env and env[e.id][0] == "list":
            return env[e.id][1]
        if isinstance(e, ast.Call) and _src(e.func) == "list" and len(e.args) == 1:
            return lst(e.args[0])
        if isinstance(e, ast.List):
            parts = []
            for x in e.elts:
                if isinstance(x, ast.Constant) and isinstance(x.value, int):
                    parts.append(str(x.value))
                elif isinstance(x, ast.Name) and x.id in env and env[x.id][0] == "int":
                    parts.append(env[x.id][1])
                else:
                    raise U("FiniteDifference: list element %s" % _src(x))
            return "[%s]" % ", ".join(parts)
        if isinstance(e, ast.BinOp) and isinstance(e.op, ast.Add):
            return "(%s ++ %s)" % (lst(e.left), lst(e.right))
        raise U("FiniteDifference: list %s" % _src(e))

    def op(e):
        """-> (lean Expr term, lean oshape)"""
        if isinstance(e, ast.Name) and e.id in env and env[e.id][0] == "op":
            return env[e.id][1], env[e.id][2]
        if isinstance(e, ast.Call) and isinstance(e.func, ast.Name):
            c = e.func.id
            kw = dict((k.arg, k.value) for k in e.keywords)
            if c == "Identity" and len(e.args) == 1 and not kw:
                s = lst(e.args[0])
                return ".leaf (.identity %s)" % s, s
            if c == "Circshift" and len(e.args) == 2 and set(kw) == {"axes"}:
                s = lst(e.args[0])
                return ".leaf (.circshift %s %s (some %s))" % (s, lst(e.args[1]), lst(kw["axes"])), s
            if c == "Reshape" and len(e.args) == 2 and not kw:
                o = lst(e.args[0])
                return ".leaf (.reshape %s %s)" % (o, lst(e.args[1])), o
            raise U("FiniteDifference: constructor %s" % _src(e))
        if isinstance(e, ast.BinOp) and isinstance(e.op, ast.Sub):
            (a, sa), (b, sb) = op(e.left), op(e.right)
            # Linop.__sub__: self + (-1) * other ; (-1) * B = Multiply(B.oshape, -1) * B
            return "(.add (%s) (.comp (.leaf (.multiply %s [1] [negOne] false)) (%s)))" % (a, sb, b), sa
        if isinstance(e, ast.BinOp) and isinstance(e.op, ast.Mult):
            (a, sa), (b, _) = op(e.left), op(e.right)
            return "(.comp (%s) (%s))" % (a, b), sa
        raise U("FiniteDifference: operator expression %s" % _src(e))

    elem = None
    for s in loop.body:
        if isinstance(s, ast.Assign) and len(s.targets) == 1 and isinstance(s.targets[0], ast.Name):
            t, sh = op(s.value)
            env[s.targets[0].id] = ("op", t, sh)
        elif isinstance(s, ast.Expr) and isinstance(s.value, ast.Call) and _src(s.value.func) == "linops.append" \
                and len(s.value.args) == 1 and elem is None:
            elem = op(s.value.args[0])[0]
        else:
            raise U("FiniteDifference: loop statement %s" % _src(s))
    if elem is None:
        raise U("FiniteDifference: nothing appended")
    if not (isinstance(g, ast.Assign) and _src(g.targets[0]) == "G" and isinstance(g.value, ast.Call)
            and _src(g.value.func) == "Vstack" and len(g.value.args) == 1 and _src(g.value.args[0]) == "linops"
            and len(g.value.keywords) == 1 and g.value.keywords[0].arg == "axis"
            and isinstance(g.value.keywords[0].value, ast.Constant) and isinstance(g.value.keywords[0].value.value, int)):
        raise U("FiniteDifference: %s" % _src(g))
    if _src(ret) != "return G":
        raise U("FiniteDifference: %s" % _src(ret))
    axis = g.value.keywords[0].value.value
    # the Sub rule above is what Linop.__sub__ / __neg__ / __rmul__ do: check them
    lin = {"__sub__": "return self.__add__(-input)", "__neg__": "return -1 * self"}
    for m, w in lin.items():
        b = [s for s in T.find_function(tree, "Linop." + m).body if not (isinstance(s, ast.Expr) and isinstance(s.value, ast.Constant))]
        if [_src(s) for s in b] != [w]:
            raise U("Linop.%s changed: %s" % (m, [_src(s) for s in b]))
    return (
        "/-- generated from `FiniteDifference`: `axes` is the value of `util._normalize_axes(axes, ndim)` -/\n"
        "def finiteDifference {α : Type} (negOne : α) (ishape axes : List Int) : Option (Expr α) :=\n"
        "  C01.vstackList (some %d) (axes.map fun i =>\n    %s)\n" % (axis, elem))


# ---- `_apply` bodies ---------------------------------------------------------------------------------
APPLY_CLASSES = ["Identity", "Reshape", "Transpose", "Resize", "Flip", "Circshift", "Downsample", "Upsample", "Sum",
                 "Slice", "Embed", "ArrayToBlocks", "BlocksToArray", "Interpolate", "Gridding", "MatMul", "RightMatMul"]
UTIL_PRIMS = {"resize": ("resize", ["oshape", "ishift", "oshift"]), "flip": ("flip", ["axes"]),
              "circshift": ("circshift", ["shifts", "axes"]), "downsample": ("downsample", ["factors", "shift"]),
              "upsample": ("upsample", ["oshape", "factors", "shift"])}


def _apply_return(cname, fn):
    """the single `return` of an `_apply` body, looking through device plumbing; aliases {name: self.attr}"""
    if [a.arg for a in fn.args.args] != ["self", "input"]:
        raise U("%s._apply signature" % cname)
    rets, alias = [], {}

    def walk(stmts):
        for st in stmts:
            if isinstance(st, ast.Expr) and isinstance(st.value, ast.Constant):
                continue
            if isinstance(st, ast.Return):
                rets.append(st.value)
            elif isinstance(st, ast.With):
                for it in st.items:
                    if it.optional_vars is not None or _src(it.context_expr) not in ("device", "backend.get_device(input)"):
                        raise U("%s._apply: with %s" % (cname, _src(it.context_expr)))
                walk(st.body)
            elif isinstance(st, ast.Assign) and len(st.targets) == 1 and isinstance(st.targets[0], ast.Name):
                t, v = st.targets[0].id, _src(st.value)
                if (t, v) in (("device", "backend.get_device(input)"), ("xp", "device.xp")):
                    continue
                if isinstance(st.value, ast.Call) and _src(st.value.func) == "backend.to_device" and len(st.value.args) == 2 \
                        and _src(st.value.args[1]) == "device" and isinstance(st.value.args[0], ast.Attribute) \
                        and _src(st.value.args[0].value) == "self":
                    alias[t] = st.value.args[0]
                    continue
                raise U("%s._apply: statement %s" % (cname, _src(st)))
            else:
                raise U("%s._apply: statement %s" % (cname, _src(st)))

    walk(fn.body)
    if len(rets) != 1 or rets[0] is None:
        raise U("%s._apply: expected exactly one return" % cname)
    return rets[0], alias


def _matmul_apply(classes, cname, fn):
    """mat = to_device(self.mat); with device: [if self.FLAG: mat = xp.conj(mat).swapaxes(-1, -2)]; return
    xp.matmul(mat, input) | xp.matmul(input, mat)"""
    flat = []

    def walk(stmts):
        for st in stmts:
            if isinstance(st, ast.Expr) and isinstance(st.value, ast.Constant):
                continue
            if isinstance(st, ast.With):
                if [(_src(i.context_expr), i.optional_vars) for i in st.items] != [("device", None)]:
                    raise U("%s._apply: with" % cname)
                walk(st.body)
            elif isinstance(st, ast.Assign) and _src(st) in ("device = backend.get_device(input)", "xp = device.xp"):
                continue
            else:
                flat.append(st)

    walk(fn.body)
    tr = _Tr(classes, cname)
    if len(flat) != 3 or _src(flat[0]) != "mat = backend.to_device(self.mat, device)":
        raise U("%s._apply: %s" % (cname, [_src(x) for x in flat]))
    msh, mat = tr.attr("mat")
    cond = flat[1]
    if not (isinstance(cond, ast.If) and not cond.orelse and isinstance(cond.test, ast.Attribute)
            and _src(cond.test.value) == "self" and [_src(x) for x in cond.body] == ["mat = xp.conj(mat).swapaxes(-1, -2)"]):
        raise U("%s._apply: %s" % (cname, _src(cond)))
    (flag,) = tr.attr(cond.test.attr)
    ret = _src(flat[2])
    if ret == "return xp.matmul(mat, input)":
        right = "false"
    elif ret == "return xp.matmul(input, mat)":
        right = "true"
    else:
        raise U("%s._apply: %s" % (cname, ret))
    return ".matmul %s %s %s %s" % (right, msh, mat, flag)


def _apply_arm(tree, util_tree, classes, cname):
    cls = classes[cname]
    fn_apply = T.find_function(tree, cname + "._apply")
    body = [x for x in fn_apply.body if not (isinstance(x, ast.Expr) and isinstance(x.value, ast.Constant))]
    if len(body) == 3 and [_src(x) for x in body[::2]] == ["output = np.zeros(self.oshape, dtype=input.dtype)", "return output"] \
            and isinstance(body[1], ast.Assign) and len(body[1].targets) == 1 and isinstance(body[1].targets[0], ast.Subscript) \
            and _src(body[1].targets[0].value) == "output" and _src(body[1].value) == "input":
        # zeros(oshape); out[idx] = input; return out
        t0 = _Tr(classes, cname)
        (osh,), (idx,) = t0.attr("oshape"), t0.tr(body[1].targets[0].slice)
        return ".setitemZeros %s %s" % (osh, idx)
    if cname in ("MatMul", "RightMatMul"):
        return _matmul_apply(classes, cname, fn_apply)
    ret, alias = _apply_return(cname, fn_apply)
    tr = _Tr(classes, cname)
    if cname == "Transpose":
        # self.axes: None stays None, a tuple is normalised in __init__ (source pinned as for _adjoint_linop)
        stmts = [_src(x) for x in cls.init.body]
        want = "if axes is not None:\n    axes = tuple((a % len(ishape) for a in axes))"
        if want not in stmts or "self.axes = axes" not in stmts or stmts.index(want) > stmts.index("self.axes = axes"):
            raise U("Transpose.__init__: normalisation of axes changed")
        orig = tr.attr
        tr.attr = lambda a: ["(axes.map fun a => C01.normAxes a ishape.length)"] if a == "axes" else orig(a)
    for name, node in alias.items():
        tr.env[name] = tr.tr(node)

    def is_input(e):
        return isinstance(e, ast.Name) and e.id == "input"

    def one(e):
        r = tr.tr(e)
        if len(r) != 1:
            raise U("%s._apply: argument %s" % (cname, _src(e)))
        return r[0]

    if is_input(ret):
        return ".ret"
    if isinstance(ret, ast.Subscript) and is_input(ret.value):
        return ".getitem %s" % one(ret.slice)
    if isinstance(ret, ast.Call) and isinstance(ret.func, ast.Attribute) and is_input(ret.func.value) \
            and ret.func.attr in ("reshape", "transpose") and len(ret.args) == 1 and not ret.keywords:
        return ".%s %s" % (ret.func.attr, one(ret.args[0]))
    if isinstance(ret, ast.Call) and _src(ret.func) == "xp.asarray" and len(ret.args) == 1 and not ret.keywords:
        inner = ret.args[0]
        if isinstance(inner, ast.Call) and _src(inner.func) == "xp.sum" and len(inner.args) == 1 and is_input(inner.args[0]) \
                and [k.arg for k in inner.keywords] == ["axis"]:
            return ".sum %s" % one(inner.keywords[0].value)
    if isinstance(ret, ast.Call) and isinstance(ret.func, ast.Attribute) and isinstance(ret.func.value, ast.Name) \
            and ret.args and is_input(ret.args[0]):
        mod, fname = ret.func.value.id, ret.func.attr
        if mod == "util" and fname in UTIL_PRIMS:
            lean, want_params = UTIL_PRIMS[fname]
            ufn = T.find_function(util_tree, fname)
            params = [a.arg for a in ufn.args.args]
            if params != ["input"] + want_params:
                raise U("util.%s signature %s" % (fname, params))
            if len(ret.args) > len(params):
                raise U("%s._apply: too many arguments" % cname)
            bound = dict(zip(params, ret.args))
            for k in ret.keywords:
                if k.arg not in params or k.arg in bound:
                    raise U("%s._apply: keyword %s" % (cname, k.arg))
                bound[k.arg] = k.value
            missing = [q for q in want_params if q not in bound]
            if missing:
                raise U("%s._apply: %s of util.%s left to its default" % (cname, missing, fname))
            return ".%s %s" % (lean, " ".join(one(bound[q]) for q in want_params))
        if mod == "block" and fname == "array_to_blocks" and len(ret.args) == 3 and not ret.keywords:
            return ".arrayToBlocks %s %s" % (one(ret.args[1]), one(ret.args[2]))
        if mod == "block" and fname == "blocks_to_array" and len(ret.args) == 4 and not ret.keywords:
            return ".blocksToArray %s %s %s" % (one(ret.args[1]), one(ret.args[2]), one(ret.args[3]))
        if mod == "interp" and fname == "gridding" and len(ret.args) == 3 and \
                sorted(k.arg for k in ret.keywords) == ["kernel", "param", "width"]:
            kw = dict((k.arg, k.value) for k in ret.keywords)
            if tr.tr(kw["kernel"]) != []:
                raise U("Gridding._apply: kernel argument %s" % _src(kw["kernel"]))
            c = tr.tr(ret.args[1])
            if len(c) != 2:
                raise U("Gridding._apply: coord argument")
            return ".gridding %s %s %s %s %s" % (one(ret.args[2]), c[0], c[1], one(kw["width"]), one(kw["param"]))
        if mod == "interp" and fname == "interpolate" and len(ret.args) == 2 and \
                sorted(k.arg for k in ret.keywords) == ["kernel", "param", "width"]:
            kw = dict((k.arg, k.value) for k in ret.keywords)
            if tr.tr(kw["kernel"]) != []:
                raise U("Interpolate._apply: kernel argument %s" % _src(kw["kernel"]))
            c = tr.tr(ret.args[1])
            if len(c) != 2:
                raise U("Interpolate._apply: coord argument")
            return ".interpolate %s %s %s %s" % (c[0], c[1], one(kw["width"]), one(kw["param"]))
    raise U("%s._apply: return %s" % (cname, _src(ret)))


def _apply_table(tree, classes):
    util_tree = G._parse("sigpy/util.py")
    arms = []
    for cname in APPLY_CLASSES:
        src = " ; ".join(_src(x) for x in T.find_function(tree, cname + "._apply").body).replace("\n", " ")
        arms.append("  -- %s._apply: %s\n  | %s => some (%s)" % (cname, src[:150], _pattern(cname),
                                                              _apply_arm(tree, util_tree, classes, cname)))
    return ("/-- generated from the `_apply` bodies that are a single call on `input`: the primitive and its arguments -/\n"
            "def applyGen {α : Type} : Leaf α → Option (Prim α)\n" + "\n".join(arms) + "\n  | _ => none\n")


def gen_linop_adjoint(ctx=None):
    tree = G._parse("sigpy/linop.py")
    classes = dict((c, _Cls(tree, c)) for c in LEAF)
    for cname, (_, schema) in LEAF.items():
        if [p for p, _ in schema] != classes[cname].params:
            raise U("%s.__init__ parameters %s differ from the schema" % (cname, classes[cname].params))
    out = ["/- GENERATED by harness/translate/gen_c01.py from sigpy/linop.py — do not edit; regenerated on every check. -/\n"
           "import SigpyVerif.Model.C01\nimport SigpyVerif.Model.C01Ext\nset_option linter.unusedVariables false\n"
           "namespace SigpyVerif.Gen.LinopAdjoint\nopen SigpyVerif SigpyVerif.C01\n"]
    out.append(_sum_axes_helper(tree, "_get_multiply_adjoint_sum_axes", "multiplySum"))
    out.append(_sum_axes_helper(tree, "_get_matmul_adjoint_sum_axes", "matmulSum"))
    helper_lean = {"_get_multiply_adjoint_sum_axes": "multiplySumAxes", "_get_matmul_adjoint_sum_axes": "matmulSumAxes"}
    arms = []
    for cname in LEAF:
        if cname == "Transpose":
            arm = _transpose_arm(classes)
        elif cname in ("Multiply", "MatMul", "RightMatMul"):
            arm = _plumbing_arm(classes, cname, helper_lean)
        else:
            arm = _simple_arm(classes, cname)
        src = " ; ".join(_src(s) for s in classes[cname].adj.body).replace("\n", " ")
        arms.append("  -- %s._adjoint_linop: %s\n  | %s =>\n      %s" % (cname, src[:160], _pattern(cname), arm))
    out.append("/-- generated from the `_adjoint_linop` method of every exactly-representable class; `osh X` is the\n"
               "    `oshape` attribute of the operator object `X` -/\n"
               "def adjLeafGen {α : Type} (osh : Leaf α → List Int) : Leaf α → Expr α\n" + "\n".join(arms) +
               "\n  -- not a sigpy class: a pair of entry lists (Model/C01.lean)\n"
               "  | .ext t oshape ishape E E' => .leaf (.ext t ishape oshape E' E)\n")
    out.append("/-- generated from the `_adjoint_linop` methods of Conj / Add / Compose / Hstack / Vstack / Diag\n"
               "    (binary nodes stand for the two-operand lists) -/\n"
               "def adjGen {α : Type} (osh : Leaf α → List Int) : Expr α → Expr α\n"
               "  | .leaf l => adjLeafGen osh l\n" + "\n".join(_tree_rules(tree)) + "\n")
    out.append("/-- generated from the `_adjoint_linop` methods of the classes without an exact entry model: class and\n"
               "    constructor arguments of the operator returned -/\n"
               "def adjOpaque {α : Type} : Opaque α → Opaque α\n" + "\n".join(_opaque(tree)) + "\n")
    out.append(_apply_table(tree, classes))
    out.append(_finite_difference(tree))
    out.append("end SigpyVerif.Gen.LinopAdjoint\n")
    return "\n".join(out)


GENERATORS = {"LinopAdjoint": gen_linop_adjoint}
