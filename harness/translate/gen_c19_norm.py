"""AST normalisation passes for the C19 translator (harness/translate/gen_c19.py).

Purpose: behaviour-preserving respellings of the anchored sigpy code must produce THE SAME generated Lean
definitions (or definitions the ring/omega-normalised bridging lemmas still accept), while every semantic change
still changes what is generated, and everything outside the accepted subset is still `Unsupported` (a broken
obligation, never a pass).  Every pass is a semantics-preserving rewrite of the Python AST under explicit side
conditions that are checked; when a side condition cannot be established the code is left as it is (the strict
matcher downstream then rejects it) or `Unsupported` is raised.

Passes (all work on a deep copy of the function; /repo is never touched):
  * `inline_helpers(tree, fn)`  calls `f(..)` of a small module-level function of the same file are replaced by its
    return expression: the helper body must be straight-line (`name = pure expr`, tuple assignments of such, one
    final `return expr`), arguments are bound against the callee's signature (positional / keyword / defaults),
    must be pure (they may be evaluated several times), recursion is refused, the helper name must have exactly
    one binding in the module and the globals it reads must not be shadowed in the caller;
  * `norm_calls(fn)`  keyword arguments of a few numpy functions with a known signature -> positional; `x[i,]` -> `x[i]`;
  * `norm_ifs(fn)`  `if c: pass else: B` -> `if not c: B`; negations pushed inwards (De Morgan, flipped comparisons;
    the order of the operands of and/or is kept: short-circuit evaluation);
  * `inline_temps(fn, keep)`  a name outside `keep` that is bound exactly once, by `name = pure expr`, and only read
    later in the same block is substituted into its uses (single-assignment temporaries, loop-invariant hoists),
    provided nothing it reads can change between the binding and the last use (no rebinding of a name it reads, no
    subscript / attribute / augmented store, no non-pure statement in between), and provided dropping the
    unconditional evaluation cannot drop an exception (a use at the same nesting level, or a total expression).
Comparison helpers: `lin` (integer-linear normal form: commuted / re-associated index expressions), `canon`
(canonical text modulo commutativity of `+`/`*`, slice defaults, linear index expressions, mirrored comparisons),
`iter_norm` (`range(n)`, `range(0, n, 1)`, `xp.arange(n)`; `reversed(range(n))`, `range(n - 1, -1, -1)`),
`guard_ge` (an integer guard as `linear form >= 0`; only there `not (a < b)` is read as `a >= b`: NaN).
"""
import ast
import copy

from harness.translate import py2lean as T

U = T.Unsupported

XPN = ("xp", "np")

# numpy functions regarded as pure (no mutation of their arguments, no global state); anything else is not pure
PURE_NP = {"abs", "absolute", "angle", "arange", "arctan2", "array", "asarray", "column_stack", "conj", "conjugate", "cos",
           "exp", "expand_dims", "imag", "isinf", "multiply", "negative", "ones", "real", "repeat", "reshape", "shape", "sin",
           "size", "sqrt", "sum", "transpose", "zeros", "stack", "dot", "matmul", "power", "square", "add", "subtract",
           "divide", "log", "max", "min", "flip", "squeeze", "ravel", "atleast_1d", "atleast_2d", "ndim"}
PURE_NP_CONST = {"pi", "complex128", "complex64", "float64", "float32", "newaxis", "inf"}
PURE_BUILTIN = {"int", "float", "complex", "len", "abs", "range", "reversed", "min", "max", "tuple"}
PURE_METHODS = {"astype", "conj", "conjugate", "flatten", "copy", "transpose", "ravel"}
PURE_ATTRS = {"shape", "ndim", "size", "real", "imag", "T", "dtype"}

# positional signatures used to turn keyword arguments into positional ones (leading parameters only)
NP_SIG = {"sum": ["a", "axis"], "expand_dims": ["a", "axis"], "size": ["a", "axis"], "zeros": ["shape", "dtype"],
          "ones": ["shape", "dtype"], "conj": ["x"], "cos": ["x"], "sin": ["x"], "exp": ["x"], "abs": ["x"], "angle": ["z"],
          "multiply": ["x1", "x2"], "negative": ["x"], "sqrt": ["x"], "shape": ["a"], "arctan2": ["x1", "x2"]}


def np_func(call):
    """`xp.f` / `np.f` -> 'f', else None"""
    f = call.func
    if isinstance(f, ast.Attribute) and isinstance(f.value, ast.Name) and f.value.id in XPN:
        return f.attr
    return None


def pure(e, extra_calls=()):
    """no side effect, no dependence on anything but the values of the names it reads"""
    if e is None:
        return True
    if isinstance(e, (ast.Constant, ast.Name)):
        return True
    if isinstance(e, ast.Attribute):
        if isinstance(e.value, ast.Name) and e.value.id in XPN:
            return e.attr in PURE_NP_CONST or e.attr in PURE_NP
        return e.attr in PURE_ATTRS and pure(e.value, extra_calls)
    if isinstance(e, ast.Subscript):
        return pure(e.value, extra_calls) and pure(e.slice, extra_calls)
    if isinstance(e, ast.Slice):
        return pure(e.lower, extra_calls) and pure(e.upper, extra_calls) and pure(e.step, extra_calls)
    if isinstance(e, (ast.Tuple, ast.List)):
        return all(pure(x, extra_calls) for x in e.elts)
    if isinstance(e, ast.UnaryOp):
        return pure(e.operand, extra_calls)
    if isinstance(e, ast.BinOp):
        return pure(e.left, extra_calls) and pure(e.right, extra_calls)
    if isinstance(e, ast.BoolOp):
        return all(pure(x, extra_calls) for x in e.values)
    if isinstance(e, ast.Compare):
        return pure(e.left, extra_calls) and all(pure(x, extra_calls) for x in e.comparators)
    if isinstance(e, ast.IfExp):
        return pure(e.test, extra_calls) and pure(e.body, extra_calls) and pure(e.orelse, extra_calls)
    if isinstance(e, ast.Call):
        if any(k.arg is None or k.arg == "out" for k in e.keywords) or any(isinstance(a, ast.Starred) for a in e.args):
            return False
        if not (all(pure(a, extra_calls) for a in e.args) and all(pure(k.value, extra_calls) for k in e.keywords)):
            return False
        f = np_func(e)
        if f is not None:
            return f in PURE_NP
        if isinstance(e.func, ast.Name):
            return e.func.id in PURE_BUILTIN or e.func.id in extra_calls
        if isinstance(e.func, ast.Attribute) and e.func.attr in PURE_METHODS:
            return pure(e.func.value, extra_calls)
        return False
    return False


def total(e):
    """evaluation cannot raise: constants and + - * of them, division by a non-zero literal"""
    if isinstance(e, ast.Constant):
        return isinstance(e.value, (int, float, complex)) and not isinstance(e.value, bool)
    if isinstance(e, ast.UnaryOp) and isinstance(e.op, (ast.USub, ast.UAdd)):
        return total(e.operand)
    if isinstance(e, ast.BinOp):
        if isinstance(e.op, (ast.Add, ast.Sub, ast.Mult)):
            return total(e.left) and total(e.right)
        if isinstance(e.op, ast.Div):
            return total(e.left) and isinstance(e.right, ast.Constant) and isinstance(e.right.value, (int, float)) \
                and not isinstance(e.right.value, bool) and e.right.value != 0
    return False


def loads(node, name):
    return [n for n in ast.walk(node) if isinstance(n, ast.Name) and n.id == name and isinstance(n.ctx, ast.Load)]


def free_names(e):
    return {n.id for n in ast.walk(e) if isinstance(n, ast.Name)}


class _Subst(ast.NodeTransformer):
    def __init__(self, env):
        self.env = env

    def visit_Name(self, n):
        if isinstance(n.ctx, ast.Load) and n.id in self.env:
            return copy.deepcopy(self.env[n.id])
        return n


def subst(e, env):
    return ast.fix_missing_locations(_Subst(env).visit(copy.deepcopy(e)))


# ------------------------------------------------------------------------------------------------ helper inlining
def _module_bindings(tree, name):
    """number of bindings of `name` anywhere outside function bodies + defs of that name"""
    k = 0
    for n in ast.walk(tree):
        if isinstance(n, (ast.FunctionDef, ast.AsyncFunctionDef, ast.ClassDef)) and n.name == name:
            k += 1
        elif isinstance(n, (ast.Import, ast.ImportFrom)):
            k += sum(1 for a in n.names if (a.asname or a.name.split(".")[0]) == name)
        elif isinstance(n, ast.Global) and name in n.names:
            k += 1
    # stores at module level (not inside a function)
    def top(stmts):
        c = 0
        for s in stmts:
            if isinstance(s, (ast.FunctionDef, ast.AsyncFunctionDef, ast.ClassDef)):
                continue
            for x in ast.walk(s):
                if isinstance(x, ast.Name) and x.id == name and isinstance(x.ctx, (ast.Store, ast.Del)):
                    c += 1
        return c
    return k + top(tree.body)


def stored_names(fn):
    """every name bound anywhere in the function (assignment, for/with target, augmented, parameters, del, import)"""
    out = {a.arg for a in fn.args.args + fn.args.kwonlyargs + fn.args.posonlyargs}
    if fn.args.vararg:
        out.add(fn.args.vararg.arg)
    if fn.args.kwarg:
        out.add(fn.args.kwarg.arg)
    for n in ast.walk(fn):
        if isinstance(n, ast.Name) and isinstance(n.ctx, (ast.Store, ast.Del)):
            out.add(n.id)
        elif isinstance(n, (ast.Import, ast.ImportFrom)):
            out |= {(a.asname or a.name.split(".")[0]) for a in n.names}
        elif isinstance(n, (ast.FunctionDef, ast.ClassDef)) and n is not fn:
            out.add(n.name)
    return out


def helper_expr(tree, fname, args, keywords, caller_bound, stack):
    """the return expression of module-level `fname` applied to the given argument ASTs"""
    if fname in stack:
        raise U("helper `%s` is recursive" % fname)
    defs = [n for n in tree.body if isinstance(n, ast.FunctionDef) and n.name == fname]
    if len(defs) != 1 or _module_bindings(tree, fname) != 1:
        raise U("helper `%s` does not have exactly one module-level definition" % fname)
    h = defs[0]
    a = h.args
    if h.decorator_list or a.vararg or a.kwarg or a.posonlyargs or a.kwonlyargs:
        raise U("helper `%s`: decorators / *args / **kwargs / keyword-only parameters" % fname)
    params = [x.arg for x in a.args]
    if len(args) > len(params) or any(isinstance(x, ast.Starred) for x in args):
        raise U("helper `%s`: too many / starred positional arguments" % fname)
    env = {}
    for p, x in zip(params, args):
        env[p] = x
    for k in keywords:
        if k.arg is None or k.arg not in params or k.arg in env:
            raise U("helper `%s`: keyword argument `%s` does not resolve against its signature" % (fname, k.arg))
        env[k.arg] = k.value
    nd = len(a.defaults)
    for p, d in zip(params[len(params) - nd:], a.defaults):
        if p not in env:
            if not (isinstance(d, ast.Constant) or total(d)):
                raise U("helper `%s`: default of `%s` is not a literal" % (fname, p))
            env[p] = d
    missing = [p for p in params if p not in env]
    if missing:
        raise U("helper `%s`: arguments %s missing" % (fname, missing))
    for p, x in env.items():
        if not pure(x):
            raise U("helper `%s`: argument for `%s` is not a pure expression" % (fname, p))
    body = [s for s in h.body if not (isinstance(s, ast.Expr) and isinstance(s.value, ast.Constant))]
    if not body or not isinstance(body[-1], ast.Return) or body[-1].value is None:
        raise U("helper `%s`: body does not end in `return <expr>`" % fname)
    local = set(params)
    glob = set()

    def ev(e):
        e = _inline_calls(tree, copy.deepcopy(e), caller_bound, stack + [fname])
        if not pure(e):
            raise U("helper `%s`: expression `%s` is outside the pure subset" % (fname, ast.unparse(e)[:60]))
        for n in free_names(e):
            if n not in local:
                glob.add(n)
        return subst(e, env)

    for s in body[:-1]:
        if not (isinstance(s, ast.Assign) and len(s.targets) == 1):
            raise U("helper `%s`: statement `%s` is outside the straight-line subset" % (fname, ast.unparse(s)[:60]))
        t = s.targets[0]
        if isinstance(t, ast.Name):
            v = ev(s.value)
            env[t.id] = v
            local.add(t.id)
        elif isinstance(t, ast.Tuple) and isinstance(s.value, ast.Tuple) and len(t.elts) == len(s.value.elts) \
                and all(isinstance(x, ast.Name) for x in t.elts) and len({x.id for x in t.elts}) == len(t.elts):
            vs = [ev(x) for x in s.value.elts]
            for x, v in zip(t.elts, vs):
                env[x.id] = v
                local.add(x.id)
        else:
            raise U("helper `%s`: assignment target `%s`" % (fname, ast.unparse(t)[:40]))
    res = ev(body[-1].value)
    # a module global the helper reads must mean the same thing at the call site
    shadow = {g for g in glob if g in caller_bound}
    if shadow:
        raise U("helper `%s` reads the globals %s, which the caller rebinds" % (fname, sorted(shadow)))
    return res


class _Inline(ast.NodeTransformer):
    def __init__(self, tree, caller_bound, stack):
        self.tree, self.caller_bound, self.stack = tree, caller_bound, stack
        self.modfuncs = {n.name for n in tree.body if isinstance(n, ast.FunctionDef)}

    def visit_Call(self, c):
        self.generic_visit(c)
        if isinstance(c.func, ast.Name) and c.func.id in self.modfuncs and c.func.id not in self.caller_bound:
            return helper_expr(self.tree, c.func.id, c.args, c.keywords, self.caller_bound, self.stack)
        return c


def _inline_calls(tree, node, caller_bound, stack):
    return ast.fix_missing_locations(_Inline(tree, caller_bound, stack).visit(node))


def inline_helpers(tree, fn):
    """replace calls of same-file module-level helpers in `fn` (a copy) by their return expression"""
    bound = stored_names(fn)
    return _inline_calls(tree, fn, bound, [fn.name])


# ------------------------------------------------------------------------------------------------ calls / subscripts
class _NormCalls(ast.NodeTransformer):
    def visit_Call(self, c):
        self.generic_visit(c)
        f = np_func(c)
        if f in NP_SIG and c.keywords and not any(isinstance(a, ast.Starred) for a in c.args):
            sig = NP_SIG[f]
            args, kws = list(c.args), list(c.keywords)
            while len(args) < len(sig):
                nxt = [k for k in kws if k.arg == sig[len(args)]]
                if len(nxt) != 1:
                    break
                args.append(nxt[0].value)
                kws.remove(nxt[0])
            c.args, c.keywords = args, kws
        return c

    def visit_Subscript(self, s):
        self.generic_visit(s)
        if isinstance(s.slice, ast.Tuple) and len(s.slice.elts) == 1 and not isinstance(s.slice.elts[0], ast.Starred):
            s.slice = s.slice.elts[0]      # x[i,] is x[i]
        return s


def norm_calls(fn):
    return ast.fix_missing_locations(_NormCalls().visit(fn))


# ------------------------------------------------------------------------------------------------ guards
# `not (a == b)` is `a != b` etc. for every operand type python's own objects / numpy scalars have (NaN included);
# `not (a < b)` is `a >= b` only for integers (NaN!): flipped only where the caller knows the operands are ints
FLIP = {ast.Eq: ast.NotEq, ast.NotEq: ast.Eq, ast.Is: ast.IsNot, ast.IsNot: ast.Is, ast.In: ast.NotIn, ast.NotIn: ast.In}
FLIP_INT = dict(FLIP)
FLIP_INT.update({ast.Lt: ast.GtE, ast.LtE: ast.Gt, ast.Gt: ast.LtE, ast.GtE: ast.Lt})


def negate(t, ints=False):
    """logical negation with the negation pushed inwards (De Morgan); operand order of and/or kept"""
    flip = FLIP_INT if ints else FLIP
    if isinstance(t, ast.UnaryOp) and isinstance(t.op, ast.Not):
        return nnf(t.operand, ints)
    if isinstance(t, ast.BoolOp):
        return ast.BoolOp(op=ast.Or() if isinstance(t.op, ast.And) else ast.And(), values=[negate(v, ints) for v in t.values])
    if isinstance(t, ast.Compare) and len(t.ops) == 1 and type(t.ops[0]) in flip:
        return ast.Compare(left=t.left, ops=[flip[type(t.ops[0])]()], comparators=t.comparators)
    return ast.UnaryOp(op=ast.Not(), operand=t)


def nnf(t, ints=False):
    if isinstance(t, ast.UnaryOp) and isinstance(t.op, ast.Not):
        return negate(t.operand, ints)
    if isinstance(t, ast.BoolOp):
        return ast.BoolOp(op=t.op, values=[nnf(v, ints) for v in t.values])
    return t


class _NormIfs(ast.NodeTransformer):
    def visit_If(self, s):
        self.generic_visit(s)
        if s.body and all(isinstance(x, ast.Pass) for x in s.body) and s.orelse:
            s.test, s.body, s.orelse = negate(s.test), s.orelse, []
        else:
            s.test = nnf(s.test)
        if s.orelse and all(isinstance(x, ast.Pass) for x in s.orelse):
            s.orelse = []
        return s


def norm_ifs(fn):
    return ast.fix_missing_locations(_NormIfs().visit(fn))


# ------------------------------------------------------------------------------------------------ temporaries
def _blocks(node):
    """every statement list below node"""
    for n in ast.walk(node):
        for f in ("body", "orelse", "finalbody"):
            b = getattr(n, f, None)
            if isinstance(b, list) and b and isinstance(b[0], ast.stmt):
                yield b
        if isinstance(n, ast.Try):
            for h in n.handlers:
                yield h.body


def _stmt_exprs_pure(s):
    """a statement between the binding and the last use: only rebinding of plain names by pure expressions,
    tests / iterables pure; no subscript / attribute / augmented store, no expression statement, no nested def"""
    for n in ast.walk(s):
        if isinstance(n, (ast.AugAssign, ast.Delete, ast.FunctionDef, ast.Lambda, ast.ClassDef, ast.Global, ast.Nonlocal,
                          ast.Try, ast.Raise, ast.While, ast.ListComp, ast.GeneratorExp, ast.SetComp, ast.DictComp,
                          ast.With, ast.Return, ast.Break, ast.Continue, ast.Import, ast.ImportFrom, ast.Yield, ast.Await)):
            return False
        if isinstance(n, ast.Expr) and not isinstance(n.value, ast.Constant):
            return False
        if isinstance(n, ast.Assign):
            for t in n.targets:
                for x in ast.walk(t):
                    if isinstance(x, (ast.Subscript, ast.Attribute, ast.Starred)):
                        return False
            if not pure(n.value):
                return False
        if isinstance(n, ast.If) and not pure(n.test):
            return False
        if isinstance(n, ast.For) and not (pure(n.iter) and not n.orelse):
            return False
    return True


def _store_names(s):
    return {n.id for n in ast.walk(s) if isinstance(n, ast.Name) and isinstance(n.ctx, (ast.Store, ast.Del))}


def _find_temp(fn, keep):
    params = {a.arg for a in fn.args.args}
    count = {}
    for n in ast.walk(fn):
        if isinstance(n, ast.Name) and isinstance(n.ctx, (ast.Store, ast.Del)):
            count[n.id] = count.get(n.id, 0) + 1
    nested = set()
    for n in ast.walk(fn):
        if n is not fn and isinstance(n, (ast.FunctionDef, ast.Lambda, ast.ListComp, ast.GeneratorExp, ast.SetComp, ast.DictComp)):
            nested |= free_names(n)
    for blk in _blocks(fn):
        for k, s in enumerate(blk):
            if not (isinstance(s, ast.Assign) and len(s.targets) == 1 and isinstance(s.targets[0], ast.Name)):
                continue
            t = s.targets[0].id
            if t in keep or t in params or t in XPN or count.get(t) != 1 or t in nested or not pure(s.value):
                continue
            if t in free_names(s.value):
                continue
            allu = loads(fn, t)
            later = [(j, len(loads(x, t))) for j, x in enumerate(blk) if j > k and loads(x, t)]
            if not allu or sum(c for _, c in later) != len(allu):
                continue            # unused, or used outside the rest of its own block
            last = later[-1][0]
            fv = free_names(s.value)
            between = blk[k + 1:last + 1]
            # the statement with the last use may itself rebind what the value reads only if it is a plain
            # assignment (the right-hand side is evaluated before the store)
            ok = True
            for j, x in enumerate(between):
                is_last = (k + 1 + j == last)
                if isinstance(x, ast.With):
                    ok = False
                    break
                if not _stmt_exprs_pure(x):
                    ok = False
                    break
                st = _store_names(x)
                if st & fv:
                    if is_last and isinstance(x, ast.Assign) and all(
                            isinstance(y, ast.Name) or (isinstance(y, ast.Tuple) and all(isinstance(z, ast.Name) for z in y.elts))
                            for y in x.targets):
                        continue
                    ok = False
                    break
            if not ok:
                continue
            # dropping the unconditional evaluation must not drop an exception: a use that is evaluated
            # unconditionally at the same level (plain assignment / test of an if / iterable of a for), or total
            def top_use(x):
                if isinstance(x, ast.Assign):
                    return bool(loads(x, t))
                if isinstance(x, ast.If):
                    return bool(loads(x.test, t))
                if isinstance(x, ast.For):
                    return bool(loads(x.iter, t))
                return False
            if not (total(s.value) or any(top_use(blk[j]) for j, _ in later)):
                continue
            return blk, k, t, s.value
    return None


def inline_temps(fn, keep):
    """substitute single-assignment temporaries whose name is not in `keep` (see the module docstring)"""
    for _ in range(64):
        hit = _find_temp(fn, set(keep))
        if hit is None:
            return fn
        blk, k, t, val = hit
        rest = blk[k + 1:]
        del blk[k:]
        for x in rest:
            blk.append(_Subst({t: val}).visit(x))
        ast.fix_missing_locations(fn)
    raise U("%s: temporaries do not normalise" % fn.name)


# ------------------------------------------------------------------------------------------------ linear forms / canon
def lin(e):
    """integer-linear normal form ({atom: coef}, const) of an index expression, or None"""
    if isinstance(e, ast.Constant):
        if isinstance(e.value, int) and not isinstance(e.value, bool):
            return ({}, e.value)
        return None
    if isinstance(e, ast.Name):
        return ({e.id: 1}, 0)
    if isinstance(e, ast.UnaryOp) and isinstance(e.op, (ast.USub, ast.UAdd)):
        r = lin(e.operand)
        if r is None:
            return None
        sg = -1 if isinstance(e.op, ast.USub) else 1
        return ({k: sg * v for k, v in r[0].items()}, sg * r[1])
    if isinstance(e, ast.BinOp) and isinstance(e.op, (ast.Add, ast.Sub)):
        a, b = lin(e.left), lin(e.right)
        if a is None or b is None:
            return None
        sg = -1 if isinstance(e.op, ast.Sub) else 1
        d = dict(a[0])
        for k, v in b[0].items():
            d[k] = d.get(k, 0) + sg * v
        return ({k: v for k, v in d.items() if v != 0}, a[1] + sg * b[1])
    if isinstance(e, ast.BinOp) and isinstance(e.op, ast.Mult):
        a, b = lin(e.left), lin(e.right)
        if a is None or b is None:
            return None
        if not a[0]:
            a, b = b, a
        if b[0]:
            return ({"⟨%s⟩" % canon(e): 1}, 0)
        return ({k: v * b[1] for k, v in a[0].items() if v * b[1] != 0}, a[1] * b[1])
    if isinstance(e, (ast.BinOp, ast.Call, ast.Subscript, ast.Attribute)):
        return ({"⟨%s⟩" % canon(e): 1}, 0)
    return None


def lin_str(l):
    d, c = l
    parts = ["%d*%s" % (d[k], k) for k in sorted(d)]
    return "{" + "+".join(parts + [str(c)]) + "}"


def icanon(e):
    """canonical text of an integer (index / range) expression"""
    if e is None:
        return ""
    l = lin(e)
    return lin_str(l) if l is not None else canon(e)


MIRROR = {ast.Gt: ast.Lt, ast.GtE: ast.LtE}


def canon(e):
    """canonical text of an expression / statement modulo: operand order of + and *, slice defaults (`0:`,
    `:1`), linear index expressions inside subscripts and range(..), `a > b` / `b < a`."""
    if e is None:
        return "None"
    if isinstance(e, list):
        return "[" + "; ".join(canon(x) for x in e) + "]"
    if isinstance(e, ast.Name):
        return e.id
    if isinstance(e, ast.Constant):
        return repr(e.value)
    if isinstance(e, ast.BinOp):
        a, b = canon(e.left), canon(e.right)
        if isinstance(e.op, (ast.Add, ast.Mult)) and not any(isinstance(x, (ast.List, ast.Tuple, ast.JoinedStr)) or (
                isinstance(x, ast.Constant) and isinstance(x.value, (str, bytes))) for x in (e.left, e.right)):
            a, b = sorted((a, b))
        return "(%s %s %s)" % (a, type(e.op).__name__, b)
    if isinstance(e, ast.Subscript):
        idx = e.slice.elts if isinstance(e.slice, ast.Tuple) else [e.slice]
        return "%s[%s]" % (canon(e.value), ", ".join(canon(i) if isinstance(i, ast.Slice) else icanon(i) for i in idx))
    if isinstance(e, ast.Slice):
        lo = "" if e.lower is None or lin(e.lower) == ({}, 0) else icanon(e.lower)
        st = "" if e.step is None or lin(e.step) == ({}, 1) else icanon(e.step)
        return "%s:%s:%s" % (lo, icanon(e.upper), st)
    if isinstance(e, ast.Call) and isinstance(e.func, ast.Name) and e.func.id == "range" and not e.keywords:
        return "range(%s)" % ", ".join(icanon(a) for a in e.args)
    if isinstance(e, ast.Compare) and len(e.ops) == 1 and type(e.ops[0]) in MIRROR:
        return canon(ast.Compare(left=e.comparators[0], ops=[MIRROR[type(e.ops[0])]()], comparators=[e.left]))
    if isinstance(e, ast.AST):
        parts = []
        for f, v in ast.iter_fields(e):
            if f in ("ctx", "type_comment", "kind", "lineno", "col_offset", "end_lineno", "end_col_offset"):
                continue
            parts.append("%s=%s" % (f, canon(v)))
        return "%s(%s)" % (type(e).__name__, ", ".join(parts))
    return repr(e)


def canon_text(text, mode="eval"):
    t = ast.parse(text, mode=mode)
    return canon(norm_calls(t).body)


def iter_norm(it):
    """("up", n) one pass 0, 1, …, n-1;  ("down", n) one pass n-1, …, 0;  otherwise ("other", canon)"""
    def rng(c):
        if isinstance(c, ast.Call) and not c.keywords and isinstance(c.func, ast.Name) and c.func.id == "range":
            return c.args
        return None

    def up(args):
        if len(args) == 1:
            return args[0]
        if len(args) in (2, 3) and lin(args[0]) == ({}, 0) and (len(args) == 2 or lin(args[2]) == ({}, 1)):
            return args[1]
        return None
    a = rng(it)
    if a is not None:
        n = up(a)
        if n is not None:
            return ("up", icanon(n))
        if len(a) == 3 and lin(a[2]) == ({}, -1) and lin(a[1]) == ({}, -1) and lin(a[0]) is not None:
            d, c = lin(a[0])
            return ("down", lin_str((d, c + 1)))
    if isinstance(it, ast.Call) and not it.keywords and np_func(it) == "arange" and len(it.args) == 1:
        return ("up", icanon(it.args[0]))
    if isinstance(it, ast.Call) and not it.keywords and isinstance(it.func, ast.Name) and it.func.id == "reversed" \
            and len(it.args) == 1 and rng(it.args[0]) is not None:
        n = up(rng(it.args[0]))
        if n is not None:
            return ("down", icanon(n))
    return ("other", canon(it))


def guard_ge(t):
    """a comparison of INTEGER expressions (the caller knows: loop counters, sizes) as `linear form >= 0`, or None"""
    t = nnf(t, ints=True)
    if not (isinstance(t, ast.Compare) and len(t.ops) == 1):
        return None
    a, b = lin(t.left), lin(t.comparators[0])
    if a is None or b is None:
        return None

    def sub(x, y, c):
        d = dict(x[0])
        for k, v in y[0].items():
            d[k] = d.get(k, 0) - v
        return ({k: v for k, v in d.items() if v != 0}, x[1] - y[1] + c)
    op = type(t.ops[0])
    if op is ast.Gt:
        return lin_str(sub(a, b, -1))
    if op is ast.GtE:
        return lin_str(sub(a, b, 0))
    if op is ast.Lt:
        return lin_str(sub(b, a, -1))
    if op is ast.LtE:
        return lin_str(sub(b, a, 0))
    return None


def normalise(tree, fn, keep):
    """all passes, on a copy"""
    fn = copy.deepcopy(fn)
    fn = inline_helpers(tree, fn)
    fn = norm_calls(fn)
    fn = norm_ifs(fn)
    fn = inline_temps(fn, keep)
    return fn
