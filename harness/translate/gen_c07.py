"""Translator passes of properties C07 / C06 (plugin of harness/translate/gen.py).

InterpKernels   sigpy/interp.py `_spline_kernel`: a function whose body is an if/elif/else tree of
                `return <expr>` over the rationals  ->  `Gen.splineKernel (x order : Rat) : Rat`.
                (`_kaiser_bessel_kernel` needs sqrt/exp: it is NOT translated; it is checked against
                scipy.special.i0 by the C07 search oracle and used as-is by the correspondence.)
InterpWrappers  sigpy/interp.py `interpolate` / `gridding` (the Python wrappers around the numba loop nests): every
                statement of their bodies -> one `let` of `Gen.interpolateW` / `Gen.griddingW` (shapes as `List Int`
                with Python slice / index / repetition semantics of Model/C07Py.lean, the `np.isscalar` branches as a
                `match` on `Bc`, the dispatch `TABLE[kernel][ndim - 1]` as `pyGet?` into `Gen.interpolateTable` /
                `Gen.griddingTable`, which list the loop nests returned by `_get_interpolate` / `_get_gridding`).
NufftFormulas   sigpy/fourier.py: the integer / rational formulas of the nufft pipeline
                (`_get_oversamp_shape`, `_scale_coord`, `_apodize` centre and grid length, the two
                normalisations and the `width**ndim` division of `nufft` / `nufft_adjoint`).

Everything outside the subset raises `Unsupported` -> broken obligation, never a pass.
"""
import ast
import copy

from harness.translate import py2lean as T
from harness.translate.gen import HEADER, _parse

U = T.Unsupported


# ---- InterpKernels ----------------------------------------------------------------------------
def _ret_tree(stmts, ex, ind):
    """statements of the form  if c: <tree> [elif/else <tree>] / return e  -> Lean Rat expression.
    Falling off the end is Python's `return None`: rendered as 0 and recorded in `falls`."""
    pad = "  " * ind
    stmts = [s for s in stmts if not (isinstance(s, ast.Expr) and isinstance(s.value, ast.Constant))]
    if not stmts:
        ex.falls += 1
        return pad + "(0 : Rat) /- falls off the end: Python returns None -/"
    s, rest = stmts[0], stmts[1:]
    if isinstance(s, ast.Return):
        if s.value is None:
            raise U("bare return")
        v, t = ex.tr(s.value)
        return pad + T._cast(v, t, T.RAT)
    if isinstance(s, ast.If):
        c = ex.cond(s.test)
        th = _ret_tree(s.body, ex, ind + 1)
        # code after an `if` whose body always returns is the else branch
        if s.orelse and rest:
            if not _always_returns(s.orelse) or not _always_returns(s.body):
                raise U("if/else followed by code")
            raise U("unreachable code after if/else")
        if s.orelse:
            el = _ret_tree(s.orelse, ex, ind + 1)
        else:
            if not _always_returns(s.body):
                raise U("if body may fall through")
            el = _ret_tree(rest, ex, ind + 1)
        return "%sif %s then\n%s\n%selse\n%s" % (pad, c, th, pad, el)
    raise U("statement %s" % ast.dump(s)[:80])


def _always_returns(stmts):
    for s in stmts:
        if isinstance(s, ast.Return):
            return True
        if isinstance(s, ast.If) and s.orelse and _always_returns(s.body) and _always_returns(s.orelse):
            return True
    return False


def gen_interp_kernels(ctx=None):
    tree = _parse("sigpy/interp.py")
    fn = T.find_function(tree, "_spline_kernel")
    got = [a.arg for a in fn.args.args]
    if got != ["x", "order"]:
        raise U("_spline_kernel signature changed: %s" % got)
    ex = T.Expr({"x": T.RAT, "order": T.RAT})
    ex.falls = 0
    body = _ret_tree(fn.body, ex, 1)
    out = [HEADER % "sigpy/interp.py"]
    out.append("/-- generated from `_spline_kernel` (`order` is passed as a float by the callers: `param[-d]`) -/\n"
               "def splineKernel (x order : Rat) : Rat :=\n%s\n" % body)
    # which kernel function each kernel name is bound to in _get_interpolate / _get_gridding
    for outer in ("_get_interpolate", "_get_gridding"):
        f = T.find_function(tree, outer)
        binds = {}
        for n in f.body:
            if isinstance(n, ast.If):
                cur = n
                while isinstance(cur, ast.If):
                    t = cur.test
                    if not (isinstance(t, ast.Compare) and isinstance(t.left, ast.Name) and t.left.id == "kernel"
                            and len(t.ops) == 1 and isinstance(t.ops[0], ast.Eq)
                            and isinstance(t.comparators[0], ast.Constant)):
                        raise U("%s kernel dispatch" % outer)
                    a = cur.body[0]
                    if not (len(cur.body) == 1 and isinstance(a, ast.Assign) and isinstance(a.value, ast.Name)
                            and isinstance(a.targets[0], ast.Name) and a.targets[0].id == "kernel"):
                        raise U("%s kernel dispatch body" % outer)
                    binds[t.comparators[0].value] = a.value.id
                    cur = cur.orelse[0] if len(cur.orelse) == 1 else None
                break
        if binds != {"spline": "_spline_kernel", "kaiser_bessel": "_kaiser_bessel_kernel"}:
            raise U("%s binds kernels %s" % (outer, binds))
    out.append("/-- `_get_interpolate` and `_get_gridding` both bind 'spline' to `_spline_kernel` and\n"
               "    'kaiser_bessel' to `_kaiser_bessel_kernel` (checked by the translator) -/\n"
               "def kernelDispatchChecked : Bool := true\n")
    out.append("end SigpyVerif.Gen\n")
    return "\n".join(out)


# ---- NufftFormulas ----------------------------------------------------------------------------
class _Subst(ast.NodeTransformer):
    """replace selected sub-expressions by names"""

    def __init__(self, table):
        self.table = table  # list of (predicate(node) -> bool, name)

    def visit(self, node):
        for pred, name in self.table:
            if pred(node):
                return ast.Name(id=name, ctx=ast.Load())
        return self.generic_visit(node)


def _is_sub(node, arr, idx=None):
    return (isinstance(node, ast.Subscript) and isinstance(node.value, ast.Name) and node.value.id == arr
            and (idx is None or (isinstance(node.slice, ast.Name) and node.slice.id == idx)))


def _is_prod_of(node, arr):
    """util.prod(<arr>[-ndim:]) or util.prod(<arr>.shape[-ndim:])"""
    if not (isinstance(node, ast.Call) and isinstance(node.func, ast.Attribute) and node.func.attr == "prod"
            and isinstance(node.func.value, ast.Name) and node.func.value.id == "util" and len(node.args) == 1):
        return False
    a = node.args[0]
    if not isinstance(a, ast.Subscript):
        return False
    sl = a.slice
    if not (isinstance(sl, ast.Slice) and sl.upper is None and sl.step is None
            and isinstance(sl.lower, ast.UnaryOp) and isinstance(sl.lower.op, ast.USub)
            and isinstance(sl.lower.operand, ast.Name) and sl.lower.operand.id == "ndim"):
        return False
    v = a.value
    if isinstance(v, ast.Name):
        return v.id == arr
    return isinstance(v, ast.Attribute) and v.attr == "shape" and isinstance(v.value, ast.Name) and v.value.id + ".shape" == arr


class _GExpr:
    """expressions over a generic scalar type α (core classes only) with an abstract `sqrt`:
    names, int constants, + - * /, `e ** 0.5` -> sqrt e, `e ** ndim` -> e ^ ndim (ndim : Nat)."""

    def __init__(self, ints, scalars, nats):
        self.ints, self.scalars, self.nats = set(ints), set(scalars), set(nats)
        self.uses_sqrt = False

    def tr(self, e):
        if isinstance(e, ast.Name):
            if e.id in self.ints:
                return "((%s : Int) : α)" % e.id
            if e.id in self.scalars:
                return e.id
            raise U("unknown name %s" % e.id)
        if isinstance(e, ast.Constant) and isinstance(e.value, int) and not isinstance(e.value, bool):
            return "((%d : Int) : α)" % e.value
        if isinstance(e, ast.BinOp):
            if isinstance(e.op, ast.Pow):
                if isinstance(e.right, ast.Constant) and e.right.value == 0.5:
                    self.uses_sqrt = True
                    return "(sqrt %s)" % self.tr(e.left)
                if isinstance(e.right, ast.Name) and e.right.id in self.nats:
                    return "(%s ^ %s)" % (self.tr(e.left), e.right.id)
                raise U("power %s" % ast.dump(e.right)[:40])
            sym = {ast.Add: "+", ast.Sub: "-", ast.Mult: "*", ast.Div: "/"}.get(type(e.op))
            if sym is None:
                raise U("operator %s" % type(e.op).__name__)
            return "(%s %s %s)" % (self.tr(e.left), sym, self.tr(e.right))
        raise U("expression %s" % ast.dump(e)[:80])


def _aug_on(fn, target, op):
    """all `target <op>= value` statements of fn, in order"""
    out = []
    for n in ast.walk(fn):
        if isinstance(n, ast.AugAssign) and isinstance(n.op, op) and isinstance(n.target, ast.Name) \
                and n.target.id == target:
            out.append(n)
    out.sort(key=lambda n: n.lineno)
    return out


def _call_kw(fn, attr):
    """keyword dict of the unique call `<x>.<attr>(...)` in fn"""
    calls = [n for n in ast.walk(fn) if isinstance(n, ast.Call) and isinstance(n.func, ast.Attribute)
             and n.func.attr == attr]
    if len(calls) != 1:
        raise U("expected exactly one call of %s in %s" % (attr, fn.name))
    c = calls[0]
    return c, {k.arg: k.value for k in c.keywords}


def gen_nufft_formulas(ctx=None):
    tree = _parse("sigpy/fourier.py")
    out = [HEADER % "sigpy/fourier.py"]
    # `ceil` must be math.ceil
    if not any(isinstance(n, ast.ImportFrom) and n.module == "math" and any(a.name == "ceil" and a.asname is None for a in n.names)
               for n in tree.body):
        raise U("`from math import ceil` not found")
    ceil = {"ceil": None}

    class E(T.Expr):
        def e_Call(self, e):
            if isinstance(e.func, ast.Name) and e.func.id == "ceil" and len(e.args) == 1:
                s, t = self.tr(e.args[0])
                return ("(Rat.ceil %s)" % T._cast(s, t, T.RAT), T.INT)
            return super().e_Call(e)

    def rat_or_int(node, env):
        return E(env).tr(node)

    # _get_oversamp_shape: list(shape)[:-ndim] + [ceil(oversamp * i) for i in shape[-ndim:]]
    fn = T.find_function(tree, "_get_oversamp_shape")
    if [a.arg for a in fn.args.args] != ["shape", "ndim", "oversamp"]:
        raise U("_get_oversamp_shape signature")
    ret = [n for n in fn.body if isinstance(n, ast.Return)]
    if len(ret) != 1 or not (isinstance(ret[0].value, ast.BinOp) and isinstance(ret[0].value.op, ast.Add)):
        raise U("_get_oversamp_shape body")
    lhs, comp = ret[0].value.left, ret[0].value.right
    if ast.unparse(lhs) != "list(shape)[:-ndim]":
        raise U("_get_oversamp_shape batch part: %s" % ast.unparse(lhs))
    elt, names, it = T.listcomp_elt(comp)
    if ast.unparse(it) != "shape[-ndim:]" or names != ["i"]:
        raise U("_get_oversamp_shape comprehension over %s" % ast.unparse(it))
    s, t = rat_or_int(elt, {"oversamp": T.RAT, "i": T.INT})
    if t != T.INT:
        raise U("oversampled length is not an int")
    out.append("/-- generated from `_get_oversamp_shape`: one transform axis (batch axes are copied) -/\n"
               "def oversampLen (oversamp : Rat) (i : Int) : Int := %s\n" % s)

    # _scale_coord
    fn = T.find_function(tree, "_scale_coord")
    if [a.arg for a in fn.args.args] != ["coord", "shape", "oversamp"]:
        raise U("_scale_coord signature")
    loops = [n for n in fn.body if isinstance(n, ast.For)]
    if len(loops) != 1 or ast.unparse(loops[0].iter) != "range(-ndim, 0)" or loops[0].target.id != "i":
        raise U("_scale_coord loop")
    body = loops[0].body
    sub = _Subst([(lambda n: _is_sub(n, "shape", "i"), "n")])
    vals = {}
    stmts = []
    for st in body:
        if isinstance(st, ast.Assign) and isinstance(st.targets[0], ast.Name):
            vals[st.targets[0].id] = sub.visit(copy.deepcopy(st.value))
        elif isinstance(st, ast.AugAssign):
            stmts.append((type(st.op).__name__, ast.unparse(st.target), ast.unparse(st.value)))
        else:
            raise U("_scale_coord statement")
    if stmts != [("Mult", "output[..., i]", "scale"), ("Add", "output[..., i]", "shift")]:
        raise U("_scale_coord update sequence %s" % stmts)
    if ast.unparse(T.find_assign(fn, "output")) != "coord.copy()":
        raise U("_scale_coord output init")
    env = {"oversamp": T.RAT, "n": T.INT}
    s, t = rat_or_int(vals["scale"], env)
    out.append("/-- generated from `_scale_coord`: `scale` for an axis of length `n` -/\n"
               "def scaleFactor (oversamp : Rat) (n : Int) : Rat := %s\n" % T._cast(s, t, T.RAT))
    s, t = rat_or_int(vals["shift"], env)
    out.append("/-- generated from `_scale_coord`: `shift` for an axis of length `n` -/\n"
               "def scaleShift (oversamp : Rat) (n : Int) : %s := %s\n" % ("Int" if t == T.INT else "Rat", s))
    out.append("def scaleShiftIsInt : Bool := %s\n" % ("true" if t == T.INT else "false"))
    out.append("/-- generated from `_scale_coord`: `output[..., i] *= scale; output[..., i] += shift` -/\n"
               "def scaleCoord (oversamp : Rat) (n : Int) (c : Rat) : Rat :=\n"
               "  c * scaleFactor oversamp n + %s\n" % ("((scaleShift oversamp n : Int) : Rat)" if t == T.INT else "scaleShift oversamp n"))

    # _apodize: os_i and the centre subtracted from idx
    fn = T.find_function(tree, "_apodize")
    if [a.arg for a in fn.args.args] != ["input", "ndim", "oversamp", "width", "beta"]:
        raise U("_apodize signature")
    if ast.unparse(T.find_assign(fn, "i")) != "output.shape[a]":
        raise U("_apodize axis length")
    s, t = rat_or_int(T.find_assign(fn, "os_i"), {"oversamp": T.RAT, "i": T.INT})
    if t != T.INT:
        raise U("os_i not an int")
    out.append("/-- generated from `_apodize`: `os_i` -/\ndef apodOsLen (oversamp : Rat) (i : Int) : Int := %s\n" % s)
    apod = T.find_assign(fn, "apod")
    cen = [n for n in ast.walk(apod) if isinstance(n, ast.BinOp) and isinstance(n.op, ast.Sub)
           and isinstance(n.left, ast.Name) and n.left.id == "idx"]
    if len(cen) != 1:
        raise U("_apodize centre not found")
    s, t = rat_or_int(cen[0].right, {"i": T.INT})
    if t != T.INT:
        raise U("_apodize centre not an int")
    out.append("/-- generated from `_apodize`: the index subtracted from `idx` (apodisation centre) -/\n"
               "def apodCentre (i : Int) : Int := %s\n" % s)
    # the argument of the apodisation function: (pi * width * (idx - centre) / os_i); record its shape
    want = "(beta ** 2 - (np.pi * width * (idx - %s) / os_i) ** 2) ** 0.5" % ast.unparse(cen[0].right)
    if ast.unparse(apod) != want:
        raise U("_apodize formula changed: %s" % ast.unparse(apod))
    augs = [(type(n.op).__name__, ast.unparse(n.target), ast.unparse(n.value)) for n in ast.walk(fn) if isinstance(n, ast.AugAssign)]
    if augs != [("Div", "apod", "xp.sinh(apod)"), ("Mult", "output", "apod.reshape([i] + [1] * (-a - 1))")]:
        raise U("_apodize updates changed: %s" % augs)
    out.append("/-- `_apodize` multiplies axis `a` by `a/sinh(a)`, `a = sqrt(beta^2 - (pi*width*(idx - centre)/os_i)^2)`\n"
               "    (shape of the formula checked syntactically by the translator; real-valued for real beta) -/\n"
               "def apodFormulaChecked : Bool := true\n")

    # nufft / nufft_adjoint normalisations
    gen_hdr = "{α : Type} [Add α] [Sub α] [Mul α] [Div α] [IntCast α] [HPow α Nat α] (sqrt : α → α)"
    for fname, lean in (("nufft", "Fwd"), ("nufft_adjoint", "Adj")):
        fn = T.find_function(tree, fname)
        shp = "input.shape" if fname == "nufft" else "oshape"
        sub = _Subst([(lambda n, shp=shp: _is_prod_of(n, shp), "prodN"),
                      (lambda n: _is_prod_of(n, "os_shape"), "prodOs")])
        divs = _aug_on(fn, "output", ast.Div)
        muls = _aug_on(fn, "output", ast.Mult)
        g = _GExpr(ints=["prodN", "prodOs"], scalars=["width"], nats=["ndim"])
        if fname == "nufft":
            if len(divs) != 2 or muls:
                raise U("nufft scalings changed")
            a = g.tr(sub.visit(copy.deepcopy(divs[0].value)))
            b = g.tr(sub.visit(copy.deepcopy(divs[1].value)))
            out.append("/-- generated from `nufft`: `output /= <this>` before zero-padding -/\n"
                       "def nufftFwdDiv %s (prodN : Int) : α := %s\n" % (gen_hdr, a))
            out.append("/-- generated from `nufft`: `output /= <this>` after interpolation -/\n"
                       "def nufftFwdWidthDiv %s (width : α) (ndim : Nat) : α := %s\n" % (gen_hdr, b))
        else:
            if len(divs) != 1 or len(muls) != 1:
                raise U("nufft_adjoint scalings changed")
            b = g.tr(sub.visit(copy.deepcopy(divs[0].value)))
            a = g.tr(sub.visit(copy.deepcopy(muls[0].value)))
            out.append("/-- generated from `nufft_adjoint`: `output /= <this>` after gridding -/\n"
                       "def nufftAdjWidthDiv %s (width : α) (ndim : Nat) : α := %s\n" % (gen_hdr, b))
            out.append("/-- generated from `nufft_adjoint`: `output *= <this>` after cropping -/\n"
                       "def nufftAdjMul %s (prodOs prodN : Int) : α := %s\n" % (gen_hdr, a))
        # beta
        beta = ast.unparse(T.find_assign(fn, "beta"))
        if beta != "np.pi * ((width / oversamp * (oversamp - 0.5)) ** 2 - 0.8) ** 0.5":
            raise U("%s beta formula changed: %s" % (fname, beta))
        # what is passed to interpolate / gridding
        call, kw = _call_kw(fn, "interpolate" if fname == "nufft" else "gridding")
        passed = {k: ast.unparse(v) for k, v in kw.items()}
        if passed != {"kernel": "'kaiser_bessel'", "width": "width", "param": "beta"}:
            raise U("%s passes %s to the interpolation" % (fname, passed))
        # stage order (names of the calls that rebind `output`, in order)
        stages = []
        for n in fn.body:
            if isinstance(n, ast.Assign) and isinstance(n.targets[0], ast.Name) and n.targets[0].id in ("output", "coord") \
                    and isinstance(n.value, ast.Call):
                stages.append(ast.unparse(n.value))
            elif isinstance(n, ast.Expr) and isinstance(n.value, ast.Call):
                stages.append(ast.unparse(n.value))
            elif isinstance(n, ast.AugAssign):
                stages.append(ast.unparse(n))
        if fname == "nufft":
            want = ["input.copy()", "_apodize(output, ndim, oversamp, width, beta)",
                    "output /= util.prod(input.shape[-ndim:]) ** 0.5", "util.resize(output, os_shape)",
                    "fft(output, axes=range(-ndim, 0), norm=None)", "_scale_coord(coord, input.shape, oversamp)",
                    "interp.interpolate(output, coord, kernel='kaiser_bessel', width=width, param=beta)",
                    "output /= width ** ndim"]
        else:
            want = ["_scale_coord(coord, oshape, oversamp)",
                    "interp.gridding(input, coord, os_shape, kernel='kaiser_bessel', width=width, param=beta)",
                    "output /= width ** ndim", "ifft(output, axes=range(-ndim, 0), norm=None)",
                    "util.resize(output, oshape)",
                    "output *= util.prod(os_shape[-ndim:]) / util.prod(oshape[-ndim:]) ** 0.5",
                    "_apodize(output, ndim, oversamp, width, beta)"]
        if stages != want:
            raise U("%s stage sequence changed: %s" % (fname, stages))
        os_shape = ast.unparse(T.find_assign(fn, "os_shape"))
        if os_shape != "_get_oversamp_shape(%s, ndim, oversamp)" % shp:
            raise U("%s os_shape: %s" % (fname, os_shape))
    out.append("/-- stage order, arguments handed to interpolate/gridding (`width=width, param=beta`), the beta\n"
               "    formula and `os_shape` of `nufft` and `nufft_adjoint` were checked syntactically -/\n"
               "def nufftPipelineChecked : Bool := true\n")
    out.append("end SigpyVerif.Gen\n")
    return "\n".join(out)


# ---- InterpWrappers ---------------------------------------------------------------------------
# The Python wrappers `interpolate` / `gridding`: every statement of their bodies is translated, in
# source order, into one `let` of a Lean `Option` do-block (`none` = Python raises):
#
#   n = <int expr>                         let n : Int := ..        (`L[k]` at top level: `let n ← pyGet? L k`)
#   s = <shape expr>                       let s : List Int := ..
#   xp = backend.get_array_module(input)   (backend selection: only the `xp == np` branch is modelled)
#   isreal = np.issubdtype(..)             (used by the cupy branch only; the name stays unknown to the translator)
#   A = A.reshape(<shape expr>)            let A_shape := <new>   + the pair (old, new) recorded in `reshapes`
#   output = xp.zeros(<shape expr>, dtype=input.dtype)      let output_shape := ..   (zero-initialised buffer)
#   if np.isscalar(P): P = xp.array(<list expr>, coord.dtype) else: P = xp.array(P, coord.dtype)
#                                          let P : List Rat := match P with | .scalar P => .. | .perAxis P => ..
#   if xp == np: TABLE[kernel][<int expr>](output, input, coord, width, param) else: <cupy, not modelled>
#                                          let (nest, acc) ← pyGet? (<table of loop nests>) <int expr>; entries := nest ..
#   return output.reshape(<shape expr>)    resultShape
#
# shape / list expressions: `X.shape`, names, `list(e)`, `tuple(e)`, `e[a:b]`, `[e1, .., en]`, `e + e`,
# `e * n`, `n * e`;  int expressions: py2lean's subset + `util.prod(e)`, `len(e)`.
# The table `TABLE[kernel]` is resolved through the module-level `TABLE[kernel] = _get_X(kernel)` and the
# `return f1, f2, f3` of `_get_X`.  Anything else raises `Unsupported`.
ILIST, RLIST, BC = "ilist", "rlist", "bc"
_NESTS = dict([("_interpolate%d" % d, "interp%d" % d) for d in (1, 2, 3)] + [("_gridding%d" % d, "grid%d" % d) for d in (1, 2, 3)])

W_HEADER = ("/- GENERATED by harness/translate/gen_c07.py from %s — do not edit; regenerated on every check. -/\n"
            "import SigpyVerif.Model.Py\nimport SigpyVerif.Model.Apply\nimport SigpyVerif.Model.C07Py\nimport SigpyVerif.Gen.Interp\n"
            "set_option linter.unusedVariables false\nnamespace SigpyVerif.Gen\nopen SigpyVerif SigpyVerif.C07\n\n")


class _WExpr(T.Expr):
    """int expressions of the wrappers; `self.types` maps names to INT | RAT | ILIST | RLIST | BC,
    `self.arrays_w` is the set of array names (whose `.shape` is the Lean variable `<name>_shape`)."""

    def __init__(self, types, arrays_w):
        super().__init__({})
        self.types, self.arrays_w = types, arrays_w

    def e_Name(self, e):
        t = self.types.get(e.id)
        if t in (T.INT, T.RAT):
            return (T.nm(e.id), t)
        raise U("name %s is not a scalar here (%s)" % (e.id, t))

    def e_Call(self, e):
        f = e.func
        if isinstance(f, ast.Attribute) and f.attr == "prod" and isinstance(f.value, ast.Name) and f.value.id == "util" \
                and len(e.args) == 1 and not e.keywords:
            return ("(shapeProd %s)" % self.lst(e.args[0], T.INT), T.INT)
        if isinstance(f, ast.Name) and f.id == "len" and len(e.args) == 1 and not e.keywords:
            return ("((%s).length : Int)" % self.lst(e.args[0], None), T.INT)
        if isinstance(f, ast.Name) and f.id == "int" and len(e.args) == 1:
            return super().e_Call(e)
        raise U("call %s" % ast.unparse(e)[:60])

    def e_Subscript(self, e):
        raise U("subscript inside an expression: %s" % ast.unparse(e)[:60])

    def int_(self, e):
        s, t = self.tr(e)
        if t != T.INT:
            raise U("not an int: %s" % ast.unparse(e)[:60])
        return s

    def lst(self, e, want):
        """list-valued expression -> Lean `List Int` (want=INT) / `List Rat` (want=RAT) / either (None)"""
        lt = {T.INT: ILIST, T.RAT: RLIST}
        if isinstance(e, ast.Attribute) and e.attr == "shape" and isinstance(e.value, ast.Name) and e.value.id in self.arrays_w:
            if want == T.RAT:
                raise U("shape used as a list of floats")
            return e.value.id + "_shape"
        if isinstance(e, ast.Name):
            t = self.types.get(e.id)
            if t in (ILIST, RLIST) and (want is None or t == lt[want]):
                return T.nm(e.id)
            raise U("name %s is not a %s list here (%s)" % (e.id, want, t))
        if isinstance(e, ast.Call) and isinstance(e.func, ast.Name) and e.func.id in ("list", "tuple") \
                and len(e.args) == 1 and not e.keywords:
            return self.lst(e.args[0], want)
        if isinstance(e, (ast.List, ast.Tuple)):
            if want is None:
                raise U("list literal of unknown element type")
            els = []
            for x in e.elts:
                s, t = self.tr(x)
                els.append(T._cast(s, t, want))
            return "[" + ", ".join(els) + "]"
        if isinstance(e, ast.BinOp) and isinstance(e.op, ast.Add):
            return "(%s ++ %s)" % (self.lst(e.left, want), self.lst(e.right, want))
        if isinstance(e, ast.BinOp) and isinstance(e.op, ast.Mult):
            for l, n in ((e.left, e.right), (e.right, e.left)):
                try:
                    ns = self.int_(n)
                except U:
                    continue
                return "(pyRepeat %s %s)" % (self.lst(l, want), ns)
            raise U("list repetition %s" % ast.unparse(e)[:60])
        if isinstance(e, ast.Subscript) and isinstance(e.slice, ast.Slice):
            sl = e.slice
            if sl.step is not None:
                raise U("slice step")
            base = self.lst(e.value, want)
            if sl.lower is None and sl.upper is None:
                return base
            if sl.lower is None:
                return "(pySliceTo %s %s)" % (base, self.int_(sl.upper))
            if sl.upper is None:
                return "(pySliceFrom %s %s)" % (base, self.int_(sl.lower))
            return "(pySlice %s %s %s)" % (base, self.int_(sl.lower), self.int_(sl.upper))
        raise U("list expression %s" % ast.unparse(e)[:80])


def _is_call(e, owner, attr):
    return (isinstance(e, ast.Call) and isinstance(e.func, ast.Attribute) and e.func.attr == attr
            and isinstance(e.func.value, ast.Name) and e.func.value.id == owner)


def _nest_table(tree, table):
    """`TABLE[kernel] = _get_X(kernel)` at module level (inside `for kernel in KERNELS`) and the
    `return f1, f2, ..` of `_get_X` -> [Lean loop-nest names]"""
    getter = None
    for n in tree.body:
        if isinstance(n, ast.For) and isinstance(n.target, ast.Name) and n.target.id == "kernel" \
                and isinstance(n.iter, ast.Name) and n.iter.id == "KERNELS":
            for st in n.body:
                if isinstance(st, ast.Assign) and len(st.targets) == 1 and ast.unparse(st.targets[0]) == "%s[kernel]" % table:
                    v = st.value
                    if not (isinstance(v, ast.Call) and isinstance(v.func, ast.Name) and len(v.args) == 1
                            and isinstance(v.args[0], ast.Name) and v.args[0].id == "kernel" and not v.keywords):
                        raise U("%s[kernel] = %s" % (table, ast.unparse(v)))
                    if getter is not None:
                        raise U("%s[kernel] assigned twice" % table)
                    getter = v.func.id
    inits = [n for n in tree.body if isinstance(n, ast.Assign) and ast.unparse(n.targets[0]) == table]
    if getter is None or len(inits) != 1 or ast.unparse(inits[0].value) != "{}":
        raise U("kernel table %s not found / not initialised as {}" % table)
    others = [n for n in ast.walk(tree) if isinstance(n, (ast.Assign, ast.AugAssign, ast.Delete))
              and any(isinstance(t, ast.Subscript) and isinstance(t.value, ast.Name) and t.value.id == table
                      for t in (n.targets if hasattr(n, "targets") else [n.target]))]
    if len(others) != 1:
        raise U("%s is modified in %d places" % (table, len(others)))
    fn = T.find_function(tree, getter)
    rets = [n for n in fn.body if isinstance(n, ast.Return)]
    if len(rets) != 1 or fn.body[-1] is not rets[0] or not isinstance(rets[0].value, ast.Tuple):
        raise U("%s does not end in `return f1, f2, ..`" % getter)
    names = []
    inner = {n.name for n in fn.body if isinstance(n, ast.FunctionDef)}
    for x in rets[0].value.elts:
        if not (isinstance(x, ast.Name) and x.id in _NESTS and x.id in inner):
            raise U("%s returns %s" % (getter, ast.unparse(x)))
        names.append(_NESTS[x.id])
    return getter, names


def _wrapper(tree, fname, lean, args, table_name):
    """translate one wrapper; returns Lean source"""
    fn = T.find_function(tree, fname)
    got = [a.arg for a in fn.args.args]
    if got != args or fn.args.vararg or fn.args.kwarg or fn.args.kwonlyargs:
        raise U("%s signature changed: %s" % (fname, got))
    types = {"width": BC, "param": BC}
    arrays_w = {"input", "coord"}
    if "shape" in args:
        types["shape"] = ILIST
    ex = _WExpr(types, arrays_w)
    zeroed, skipped, xp_ok = set(), set(), False
    lets, reshapes = [], []
    call = None
    result = None
    body = [s for s in fn.body if not (isinstance(s, ast.Expr) and isinstance(s.value, ast.Constant))]
    for k, st in enumerate(body):
        if result is not None:
            raise U("%s: code after return" % fname)
        if isinstance(st, ast.Return):
            v = st.value
            if not (_is_call(v, "output", "reshape") and len(v.args) == 1 and not v.keywords and "output" in zeroed and call):
                raise U("%s returns %s" % (fname, ast.unparse(v) if v else None))
            new = ex.lst(v.args[0], T.INT)
            result = new
            reshapes.append("(output_shape, %s)" % new)
            continue
        if isinstance(st, ast.Assign) and len(st.targets) == 1 and isinstance(st.targets[0], ast.Name):
            tgt, v = st.targets[0].id, st.value
            if call is not None and (tgt in arrays_w or tgt in ("xp", "isreal") or types.get(tgt) in (BC, RLIST)):
                raise U("%s: array / argument rebound after the kernel call: %s" % (fname, ast.unparse(st)[:80]))
            if tgt == "xp":
                if ast.unparse(v) != "backend.get_array_module(input)":
                    raise U("xp = %s" % ast.unparse(v))
                xp_ok = True
                continue
            if tgt == "isreal" and _is_call(v, "np", "issubdtype"):
                skipped.add(tgt)   # stays unknown to the translator: any modelled use raises Unsupported
                continue
            if tgt in arrays_w and _is_call(v, tgt, "reshape") and len(v.args) == 1 and not v.keywords:
                new = ex.lst(v.args[0], T.INT)
                r = "r%d" % len(reshapes)
                lets.append("let %s : List Int × List Int := (%s_shape, %s)" % (r, tgt, new))
                lets.append("let %s_shape : List Int := %s.2" % (tgt, r))
                reshapes.append(r)
                continue
            if tgt == "output" and _is_call(v, "xp", "zeros") and xp_ok and len(v.args) == 1 \
                    and [(kw.arg, ast.unparse(kw.value)) for kw in v.keywords] == [("dtype", "input.dtype")]:
                lets.append("let output_shape : List Int := %s" % ex.lst(v.args[0], T.INT))
                arrays_w.add("output")
                zeroed.add("output")
                continue
            if tgt in arrays_w or tgt in types and types[tgt] in (BC, RLIST) or tgt in ("np", "util", "backend", "kernel"):
                raise U("%s: assignment %s" % (fname, ast.unparse(st)[:80]))
            # plain int / shape definitions
            if isinstance(v, ast.Subscript) and not isinstance(v.slice, (ast.Slice, ast.Tuple)):
                lets.append("let %s : Int ← pyGet? %s %s" % (T.nm(tgt), ex.lst(v.value, T.INT), ex.int_(v.slice)))
                types[tgt] = T.INT
                continue
            try:
                s = ex.int_(v)
                lets.append("let %s : Int := %s" % (T.nm(tgt), s))
                types[tgt] = T.INT
            except U as e_int:
                try:
                    s = ex.lst(v, T.INT)
                except U as e_lst:
                    raise U("%s: `%s` is neither an int (%s) nor a shape (%s)" % (fname, ast.unparse(st)[:80], e_int, e_lst))
                lets.append("let %s : List Int := %s" % (T.nm(tgt), s))
                types[tgt] = ILIST
            continue
        if isinstance(st, ast.If) and _is_call(st.test, "np", "isscalar") and len(st.test.args) == 1 \
                and isinstance(st.test.args[0], ast.Name):
            P = st.test.args[0].id
            if types.get(P) != BC or call is not None:
                raise U("%s: np.isscalar(%s)" % (fname, P))
            branches = []
            for br, ty in ((st.body, T.RAT), (st.orelse, RLIST)):
                if not (len(br) == 1 and isinstance(br[0], ast.Assign) and ast.unparse(br[0].targets[0]) == P
                        and _is_call(br[0].value, "xp", "array") and xp_ok and len(br[0].value.args) == 2
                        and not br[0].value.keywords and ast.unparse(br[0].value.args[1]) == "coord.dtype"):
                    raise U("%s: broadcasting branch of %s: %s" % (fname, P, ast.unparse(br[0])[:80] if br else "missing"))
                types[P] = ty
                branches.append(ex.lst(br[0].value.args[0], T.RAT))
            types[P] = RLIST
            lets.append("let %s : List Rat := match %s with\n    | .scalar %s => %s\n    | .perAxis %s => %s" % (
                P, P, P, branches[0], P, branches[1]))
            continue
        if isinstance(st, ast.If) and ast.unparse(st.test) == "xp == np" and xp_ok and call is None:
            if len(st.body) != 1 or not (isinstance(st.body[0], ast.Expr) and isinstance(st.body[0].value, ast.Call)):
                raise U("%s: numpy branch is not a single kernel call" % fname)
            c = st.body[0].value
            f = c.func
            if not (isinstance(f, ast.Subscript) and isinstance(f.value, ast.Subscript) and isinstance(f.value.value, ast.Name)
                    and isinstance(f.value.slice, ast.Name) and f.value.slice.id == "kernel"
                    and not isinstance(f.slice, (ast.Slice, ast.Tuple))) or c.keywords:
                raise U("%s: kernel call %s" % (fname, ast.unparse(c)[:80]))
            if f.value.value.id != table_name:
                raise U("%s dispatches through %s, expected %s" % (fname, f.value.value.id, table_name))
            a = [x.id if isinstance(x, ast.Name) else None for x in c.args]
            if len(a) != 5 or None in a:
                raise U("%s: kernel call arguments %s" % (fname, ast.unparse(c)[:80]))
            # loop nest signature (checked by gen_interp): (output, input, coord, width, param)
            if a[0] not in zeroed or a[1] != "input" or a[2] != "coord" or a[1] not in arrays_w:
                raise U("%s: kernel call must write a zero-initialised buffer, read `input`, use `coord`: %s" % (fname, a))
            if types.get(a[3]) != RLIST or types.get(a[4]) != RLIST:
                raise U("%s: width/param handed to the kernel before broadcasting: %s" % (fname, a))
            idx = ex.int_(f.slice)
            call = (idx, a)
            lets.append("let sel ← pyGet? (%sTable kernel) %s" % (lean, idx))
            lets.append("let entries : List (Upd Rat) := sel.1 (shapeFn %s_shape) (shapeFn %s_shape) (shapeFn %s_shape) "
                        "(arr2 %s_shape %s) (idx1 %s) (idx1 %s)" % (a[0], a[1], a[2], a[2], a[2], a[3], a[4]))
            lets.append("let kernel_oshape : List Int := %s_shape" % a[0])
            lets.append("let kernel_ishape : List Int := %s_shape" % a[1])
            continue
        raise U("%s: statement %s" % (fname, ast.unparse(st)[:100]))
    if result is None or call is None:
        raise U("%s: no kernel call / return found" % fname)
    if types.get("ndim") != T.INT:
        raise U("%s: ndim is not defined" % fname)
    getter, nests = _nest_table(tree, table_name)
    out = []
    out.append("/-- generated from `%s` (`return %s`) and the module-level `%s[kernel] = %s(kernel)`:\n"
               "    the tuple `%s[kernel]` of loop nests with their update kinds -/\n"
               "def %sTable (kernel : Rat → Rat → Rat) : List (LoopNest × Bool) :=\n  [%s]\n" % (
                   getter, ", ".join(k for k, v in _NESTS.items() if v in nests), table_name, getter, table_name, lean,
                   ", ".join("(%s kernel, %s_accumulates)" % (n, n) for n in nests)))
    params = "(input_shape coord_shape : List Int)" + (" (shape : List Int)" if "shape" in args else "")
    out.append("/-- generated from `%s`, statement by statement (numpy branch `xp == np`); `none` = Python raises -/\n"
               "def %sW (kernel : Rat → Rat → Rat) %s (coord : List Rat)\n    (width param : Bc) : Option Wrapped := do\n  %s\n"
               "  some { ndim := ndim, oshape := kernel_oshape, ishape := kernel_ishape, entries := entries, acc := sel.2,\n"
               "         reshapes := [%s], resultShape := %s }\n" % (
                   fname, lean, params, "\n  ".join(lets), ", ".join(reshapes), result))
    return "\n".join(out)


def gen_interp_wrappers(ctx=None):
    tree = _parse("sigpy/interp.py")
    out = [W_HEADER % "sigpy/interp.py"]
    out.append(_wrapper(tree, "interpolate", "interpolate", ["input", "coord", "kernel", "width", "param"], "_interpolate"))
    out.append(_wrapper(tree, "gridding", "gridding", ["input", "coord", "shape", "kernel", "width", "param"], "_gridding"))
    out.append("end SigpyVerif.Gen\n")
    return "\n".join(out)


GENERATORS = {
    "InterpKernels": gen_interp_kernels,
    "NufftFormulas": gen_nufft_formulas,
    "InterpWrappers": gen_interp_wrappers,
}
