"""Translator passes of properties C07 / C06 (plugin of harness/translate/gen.py).

InterpKernels   sigpy/interp.py `_spline_kernel`: a function whose body is an if/elif/else tree of
                `return <expr>` over the rationals  ->  `Gen.splineKernel (x order : Rat) : Rat`.
                (`_kaiser_bessel_kernel` needs sqrt/exp: it is NOT translated; it is checked against
                scipy.special.i0 by the C07 search oracle and used as-is by the correspondence.)
NufftFormulas   sigpy/fourier.py: the integer / rational formulas of the nufft pipeline
                (`_get_oversamp_shape`, `_scale_coord`, `_apodize` centre and grid length, the two
                normalisations and the `width**ndim` division of `nufft` / `nufft_adjoint`).

Everything outside the subset raises `Unsupported` -> broken obligation, never a pass.
"""
import ast
import copy

from harness.translate import py2lean as T
from harness.translate.gen import HEADER, _parse

U = T.Unsupported


# ---- InterpKernels ----------------------------------------------------------------------------
def _ret_tree(stmts, ex, ind):
    """statements of the form  if c: <tree> [elif/else <tree>] / return e  -> Lean Rat expression.
    Falling off the end is Python's `return None`: rendered as 0 and recorded in `falls`."""
    pad = "  " * ind
    stmts = [s for s in stmts if not (isinstance(s, ast.Expr) and isinstance(s.value, ast.Constant))]
    if not stmts:
        ex.falls += 1
        return pad + "(0 : Rat) /- falls off the end: Python returns None -/"
    s, rest = stmts[0], stmts[1:]
    if isinstance(s, ast.Return):
        if s.value is None:
            raise U("bare return")
        v, t = ex.tr(s.value)
        return pad + T._cast(v, t, T.RAT)
    if isinstance(s, ast.If):
        c = ex.cond(s.test)
        th = _ret_tree(s.body, ex, ind + 1)
        # code after an `if` whose body always returns is the else branch
        if s.orelse and rest:
            if not _always_returns(s.orelse) or not _always_returns(s.body):
                raise U("if/else followed by code")
            raise U("unreachable code after if/else")
        if s.orelse:
            el = _ret_tree(s.orelse, ex, ind + 1)
        else:
            if not _always_returns(s.body):
                raise U("if body may fall through")
            el = _ret_tree(rest, ex, ind + 1)
        return "%sif %s then\n%s\n%selse\n%s" % (pad, c, th, pad, el)
    raise U("statement %s" % ast.dump(s)[:80])


def _always_returns(stmts):
    for s in stmts:
        if isinstance(s, ast.Return):
            return True
        if isinstance(s, ast.If) and s.orelse and _always_returns(s.body) and _always_returns(s.orelse):
            return True
    return False


def gen_interp_kernels(ctx=None):
    tree = _parse("sigpy/interp.py")
    fn = T.find_function(tree, "_spline_kernel")
    got = [a.arg for a in fn.args.args]
    if got != ["x", "order"]:
        raise U("_spline_kernel signature changed: %s" % got)
    ex = T.Expr({"x": T.RAT, "order": T.RAT})
    ex.falls = 0
    body = _ret_tree(fn.body, ex, 1)
    out = [HEADER % "sigpy/interp.py"]
    out.append("/-- generated from `_spline_kernel` (`order` is passed as a float by the callers: `param[-d]`) -/\n"
               "def splineKernel (x order : Rat) : Rat :=\n%s\n" % body)
    # which kernel function each kernel name is bound to in _get_interpolate / _get_gridding
    for outer in ("_get_interpolate", "_get_gridding"):
        f = T.find_function(tree, outer)
        binds = {}
        for n in f.body:
            if isinstance(n, ast.If):
                cur = n
                while isinstance(cur, ast.If):
                    t = cur.test
                    if not (isinstance(t, ast.Compare) and isinstance(t.left, ast.Name) and t.left.id == "kernel"
                            and len(t.ops) == 1 and isinstance(t.ops[0], ast.Eq)
                            and isinstance(t.comparators[0], ast.Constant)):
                        raise U("%s kernel dispatch" % outer)
                    a = cur.body[0]
                    if not (len(cur.body) == 1 and isinstance(a, ast.Assign) and isinstance(a.value, ast.Name)
                            and isinstance(a.targets[0], ast.Name) and a.targets[0].id == "kernel"):
                        raise U("%s kernel dispatch body" % outer)
                    binds[t.comparators[0].value] = a.value.id
                    cur = cur.orelse[0] if len(cur.orelse) == 1 else None
                break
        if binds != {"spline": "_spline_kernel", "kaiser_bessel": "_kaiser_bessel_kernel"}:
            raise U("%s binds kernels %s" % (outer, binds))
    out.append("/-- `_get_interpolate` and `_get_gridding` both bind 'spline' to `_spline_kernel` and\n"
               "    'kaiser_bessel' to `_kaiser_bessel_kernel` (checked by the translator) -/\n"
               "def kernelDispatchChecked : Bool := true\n")
    out.append("end SigpyVerif.Gen\n")
    return "\n".join(out)


# ---- NufftFormulas ----------------------------------------------------------------------------
class _Subst(ast.NodeTransformer):
    """replace selected sub-expressions by names"""

    def __init__(self, table):
        self.table = table  # list of (predicate(node) -> bool, name)

    def visit(self, node):
        for pred, name in self.table:
            if pred(node):
                return ast.Name(id=name, ctx=ast.Load())
        return self.generic_visit(node)


def _is_sub(node, arr, idx=None):
    return (isinstance(node, ast.Subscript) and isinstance(node.value, ast.Name) and node.value.id == arr
            and (idx is None or (isinstance(node.slice, ast.Name) and node.slice.id == idx)))


def _is_prod_of(node, arr):
    """util.prod(<arr>[-ndim:]) or util.prod(<arr>.shape[-ndim:])"""
    if not (isinstance(node, ast.Call) and isinstance(node.func, ast.Attribute) and node.func.attr == "prod"
            and isinstance(node.func.value, ast.Name) and node.func.value.id == "util" and len(node.args) == 1):
        return False
    a = node.args[0]
    if not isinstance(a, ast.Subscript):
        return False
    sl = a.slice
    if not (isinstance(sl, ast.Slice) and sl.upper is None and sl.step is None
            and isinstance(sl.lower, ast.UnaryOp) and isinstance(sl.lower.op, ast.USub)
            and isinstance(sl.lower.operand, ast.Name) and sl.lower.operand.id == "ndim"):
        return False
    v = a.value
    if isinstance(v, ast.Name):
        return v.id == arr
    return isinstance(v, ast.Attribute) and v.attr == "shape" and isinstance(v.value, ast.Name) and v.value.id + ".shape" == arr


class _GExpr:
    """expressions over a generic scalar type α (core classes only) with an abstract `sqrt`:
    names, int constants, + - * /, `e ** 0.5` -> sqrt e, `e ** ndim` -> e ^ ndim (ndim : Nat)."""

    def __init__(self, ints, scalars, nats):
        self.ints, self.scalars, self.nats = set(ints), set(scalars), set(nats)
        self.uses_sqrt = False

    def tr(self, e):
        if isinstance(e, ast.Name):
            if e.id in self.ints:
                return "((%s : Int) : α)" % e.id
            if e.id in self.scalars:
                return e.id
            raise U("unknown name %s" % e.id)
        if isinstance(e, ast.Constant) and isinstance(e.value, int) and not isinstance(e.value, bool):
            return "((%d : Int) : α)" % e.value
        if isinstance(e, ast.BinOp):
            if isinstance(e.op, ast.Pow):
                if isinstance(e.right, ast.Constant) and e.right.value == 0.5:
                    self.uses_sqrt = True
                    return "(sqrt %s)" % self.tr(e.left)
                if isinstance(e.right, ast.Name) and e.right.id in self.nats:
                    return "(%s ^ %s)" % (self.tr(e.left), e.right.id)
                raise U("power %s" % ast.dump(e.right)[:40])
            sym = {ast.Add: "+", ast.Sub: "-", ast.Mult: "*", ast.Div: "/"}.get(type(e.op))
            if sym is None:
                raise U("operator %s" % type(e.op).__name__)
            return "(%s %s %s)" % (self.tr(e.left), sym, self.tr(e.right))
        raise U("expression %s" % ast.dump(e)[:80])


def _aug_on(fn, target, op):
    """all `target <op>= value` statements of fn, in order"""
    out = []
    for n in ast.walk(fn):
        if isinstance(n, ast.AugAssign) and isinstance(n.op, op) and isinstance(n.target, ast.Name) \
                and n.target.id == target:
            out.append(n)
    out.sort(key=lambda n: n.lineno)
    return out


def _call_kw(fn, attr):
    """keyword dict of the unique call `<x>.<attr>(...)` in fn"""
    calls = [n for n in ast.walk(fn) if isinstance(n, ast.Call) and isinstance(n.func, ast.Attribute)
             and n.func.attr == attr]
    if len(calls) != 1:
        raise U("expected exactly one call of %s in %s" % (attr, fn.name))
    c = calls[0]
    return c, {k.arg: k.value for k in c.keywords}


def gen_nufft_formulas(ctx=None):
    tree = _parse("sigpy/fourier.py")
    out = [HEADER % "sigpy/fourier.py"]
    # `ceil` must be math.ceil
    if not any(isinstance(n, ast.ImportFrom) and n.module == "math" and any(a.name == "ceil" and a.asname is None for a in n.names)
               for n in tree.body):
        raise U("`from math import ceil` not found")
    ceil = {"ceil": None}

    class E(T.Expr):
        def e_Call(self, e):
            if isinstance(e.func, ast.Name) and e.func.id == "ceil" and len(e.args) == 1:
                s, t = self.tr(e.args[0])
                return ("(Rat.ceil %s)" % T._cast(s, t, T.RAT), T.INT)
            return super().e_Call(e)

    def rat_or_int(node, env):
        return E(env).tr(node)

    # _get_oversamp_shape: list(shape)[:-ndim] + [ceil(oversamp * i) for i in shape[-ndim:]]
    fn = T.find_function(tree, "_get_oversamp_shape")
    if [a.arg for a in fn.args.args] != ["shape", "ndim", "oversamp"]:
        raise U("_get_oversamp_shape signature")
    ret = [n for n in fn.body if isinstance(n, ast.Return)]
    if len(ret) != 1 or not (isinstance(ret[0].value, ast.BinOp) and isinstance(ret[0].value.op, ast.Add)):
        raise U("_get_oversamp_shape body")
    lhs, comp = ret[0].value.left, ret[0].value.right
    if ast.unparse(lhs) != "list(shape)[:-ndim]":
        raise U("_get_oversamp_shape batch part: %s" % ast.unparse(lhs))
    elt, names, it = T.listcomp_elt(comp)
    if ast.unparse(it) != "shape[-ndim:]" or names != ["i"]:
        raise U("_get_oversamp_shape comprehension over %s" % ast.unparse(it))
    s, t = rat_or_int(elt, {"oversamp": T.RAT, "i": T.INT})
    if t != T.INT:
        raise U("oversampled length is not an int")
    out.append("/-- generated from `_get_oversamp_shape`: one transform axis (batch axes are copied) -/\n"
               "def oversampLen (oversamp : Rat) (i : Int) : Int := %s\n" % s)

    # _scale_coord
    fn = T.find_function(tree, "_scale_coord")
    if [a.arg for a in fn.args.args] != ["coord", "shape", "oversamp"]:
        raise U("_scale_coord signature")
    loops = [n for n in fn.body if isinstance(n, ast.For)]
    if len(loops) != 1 or ast.unparse(loops[0].iter) != "range(-ndim, 0)" or loops[0].target.id != "i":
        raise U("_scale_coord loop")
    body = loops[0].body
    sub = _Subst([(lambda n: _is_sub(n, "shape", "i"), "n")])
    vals = {}
    stmts = []
    for st in body:
        if isinstance(st, ast.Assign) and isinstance(st.targets[0], ast.Name):
            vals[st.targets[0].id] = sub.visit(copy.deepcopy(st.value))
        elif isinstance(st, ast.AugAssign):
            stmts.append((type(st.op).__name__, ast.unparse(st.target), ast.unparse(st.value)))
        else:
            raise U("_scale_coord statement")
    if stmts != [("Mult", "output[..., i]", "scale"), ("Add", "output[..., i]", "shift")]:
        raise U("_scale_coord update sequence %s" % stmts)
    if ast.unparse(T.find_assign(fn, "output")) != "coord.copy()":
        raise U("_scale_coord output init")
    env = {"oversamp": T.RAT, "n": T.INT}
    s, t = rat_or_int(vals["scale"], env)
    out.append("/-- generated from `_scale_coord`: `scale` for an axis of length `n` -/\n"
               "def scaleFactor (oversamp : Rat) (n : Int) : Rat := %s\n" % T._cast(s, t, T.RAT))
    s, t = rat_or_int(vals["shift"], env)
    out.append("/-- generated from `_scale_coord`: `shift` for an axis of length `n` -/\n"
               "def scaleShift (oversamp : Rat) (n : Int) : %s := %s\n" % ("Int" if t == T.INT else "Rat", s))
    out.append("def scaleShiftIsInt : Bool := %s\n" % ("true" if t == T.INT else "false"))
    out.append("/-- generated from `_scale_coord`: `output[..., i] *= scale; output[..., i] += shift` -/\n"
               "def scaleCoord (oversamp : Rat) (n : Int) (c : Rat) : Rat :=\n"
               "  c * scaleFactor oversamp n + %s\n" % ("((scaleShift oversamp n : Int) : Rat)" if t == T.INT else "scaleShift oversamp n"))

    # _apodize: os_i and the centre subtracted from idx
    fn = T.find_function(tree, "_apodize")
    if [a.arg for a in fn.args.args] != ["input", "ndim", "oversamp", "width", "beta"]:
        raise U("_apodize signature")
    if ast.unparse(T.find_assign(fn, "i")) != "output.shape[a]":
        raise U("_apodize axis length")
    s, t = rat_or_int(T.find_assign(fn, "os_i"), {"oversamp": T.RAT, "i": T.INT})
    if t != T.INT:
        raise U("os_i not an int")
    out.append("/-- generated from `_apodize`: `os_i` -/\ndef apodOsLen (oversamp : Rat) (i : Int) : Int := %s\n" % s)
    apod = T.find_assign(fn, "apod")
    cen = [n for n in ast.walk(apod) if isinstance(n, ast.BinOp) and isinstance(n.op, ast.Sub)
           and isinstance(n.left, ast.Name) and n.left.id == "idx"]
    if len(cen) != 1:
        raise U("_apodize centre not found")
    s, t = rat_or_int(cen[0].right, {"i": T.INT})
    if t != T.INT:
        raise U("_apodize centre not an int")
    out.append("/-- generated from `_apodize`: the index subtracted from `idx` (apodisation centre) -/\n"
               "def apodCentre (i : Int) : Int := %s\n" % s)
    # the argument of the apodisation function: (pi * width * (idx - centre) / os_i); record its shape
    want = "(beta ** 2 - (np.pi * width * (idx - %s) / os_i) ** 2) ** 0.5" % ast.unparse(cen[0].right)
    if ast.unparse(apod) != want:
        raise U("_apodize formula changed: %s" % ast.unparse(apod))
    augs = [(type(n.op).__name__, ast.unparse(n.target), ast.unparse(n.value)) for n in ast.walk(fn) if isinstance(n, ast.AugAssign)]
    if augs != [("Div", "apod", "xp.sinh(apod)"), ("Mult", "output", "apod.reshape([i] + [1] * (-a - 1))")]:
        raise U("_apodize updates changed: %s" % augs)
    out.append("/-- `_apodize` multiplies axis `a` by `a/sinh(a)`, `a = sqrt(beta^2 - (pi*width*(idx - centre)/os_i)^2)`\n"
               "    (shape of the formula checked syntactically by the translator; real-valued for real beta) -/\n"
               "def apodFormulaChecked : Bool := true\n")

    # nufft / nufft_adjoint normalisations
    gen_hdr = "{α : Type} [Add α] [Sub α] [Mul α] [Div α] [IntCast α] [HPow α Nat α] (sqrt : α → α)"
    for fname, lean in (("nufft", "Fwd"), ("nufft_adjoint", "Adj")):
        fn = T.find_function(tree, fname)
        shp = "input.shape" if fname == "nufft" else "oshape"
        sub = _Subst([(lambda n, shp=shp: _is_prod_of(n, shp), "prodN"),
                      (lambda n: _is_prod_of(n, "os_shape"), "prodOs")])
        divs = _aug_on(fn, "output", ast.Div)
        muls = _aug_on(fn, "output", ast.Mult)
        g = _GExpr(ints=["prodN", "prodOs"], scalars=["width"], nats=["ndim"])
        if fname == "nufft":
            if len(divs) != 2 or muls:
                raise U("nufft scalings changed")
            a = g.tr(sub.visit(copy.deepcopy(divs[0].value)))
            b = g.tr(sub.visit(copy.deepcopy(divs[1].value)))
            out.append("/-- generated from `nufft`: `output /= <this>` before zero-padding -/\n"
                       "def nufftFwdDiv %s (prodN : Int) : α := %s\n" % (gen_hdr, a))
            out.append("/-- generated from `nufft`: `output /= <this>` after interpolation -/\n"
                       "def nufftFwdWidthDiv %s (width : α) (ndim : Nat) : α := %s\n" % (gen_hdr, b))
        else:
            if len(divs) != 1 or len(muls) != 1:
                raise U("nufft_adjoint scalings changed")
            b = g.tr(sub.visit(copy.deepcopy(divs[0].value)))
            a = g.tr(sub.visit(copy.deepcopy(muls[0].value)))
            out.append("/-- generated from `nufft_adjoint`: `output /= <this>` after gridding -/\n"
                       "def nufftAdjWidthDiv %s (width : α) (ndim : Nat) : α := %s\n" % (gen_hdr, b))
            out.append("/-- generated from `nufft_adjoint`: `output *= <this>` after cropping -/\n"
                       "def nufftAdjMul %s (prodOs prodN : Int) : α := %s\n" % (gen_hdr, a))
        # beta
        beta = ast.unparse(T.find_assign(fn, "beta"))
        if beta != "np.pi * ((width / oversamp * (oversamp - 0.5)) ** 2 - 0.8) ** 0.5":
            raise U("%s beta formula changed: %s" % (fname, beta))
        # what is passed to interpolate / gridding
        call, kw = _call_kw(fn, "interpolate" if fname == "nufft" else "gridding")
        passed = {k: ast.unparse(v) for k, v in kw.items()}
        if passed != {"kernel": "'kaiser_bessel'", "width": "width", "param": "beta"}:
            raise U("%s passes %s to the interpolation" % (fname, passed))
        # stage order (names of the calls that rebind `output`, in order)
        stages = []
        for n in fn.body:
            if isinstance(n, ast.Assign) and isinstance(n.targets[0], ast.Name) and n.targets[0].id in ("output", "coord") \
                    and isinstance(n.value, ast.Call):
                stages.append(ast.unparse(n.value))
            elif isinstance(n, ast.Expr) and isinstance(n.value, ast.Call):
                stages.append(ast.unparse(n.value))
            elif isinstance(n, ast.AugAssign):
                stages.append(ast.unparse(n))
        if fname == "nufft":
            want = ["input.copy()", "_apodize(output, ndim, oversamp, width, beta)",
                    "output /= util.prod(input.shape[-ndim:]) ** 0.5", "util.resize(output, os_shape)",
                    "fft(output, axes=range(-ndim, 0), norm=None)", "_scale_coord(coord, input.shape, oversamp)",
                    "interp.interpolate(output, coord, kernel='kaiser_bessel', width=width, param=beta)",
                    "output /= width ** ndim"]
        else:
            want = ["_scale_coord(coord, oshape, oversamp)",
                    "interp.gridding(input, coord, os_shape, kernel='kaiser_bessel', width=width, param=beta)",
                    "output /= width ** ndim", "ifft(output, axes=range(-ndim, 0), norm=None)",
                    "util.resize(output, oshape)",
                    "output *= util.prod(os_shape[-ndim:]) / util.prod(oshape[-ndim:]) ** 0.5",
                    "_apodize(output, ndim, oversamp, width, beta)"]
        if stages != want:
            raise U("%s stage sequence changed: %s" % (fname, stages))
        os_shape = ast.unparse(T.find_assign(fn, "os_shape"))
        if os_shape != "_get_oversamp_shape(%s, ndim, oversamp)" % shp:
            raise U("%s os_shape: %s" % (fname, os_shape))
    out.append("/-- stage order, arguments handed to interpolate/gridding (`width=width, param=beta`), the beta\n"
               "    formula and `os_shape` of `nufft` and `nufft_adjoint` were checked syntactically -/\n"
               "def nufftPipelineChecked : Bool := true\n")
    out.append("end SigpyVerif.Gen\n")
    return "\n".join(out)


GENERATORS = {
    "InterpKernels": gen_interp_kernels,
    "NufftFormulas": gen_nufft_formulas,
}
