"""Translator passes of properties C07 / C06 (plugin of harness/translate/gen.py).

InterpKernels   sigpy/interp.py `_spline_kernel`: a function whose body is an if/elif/else tree of
                `return <expr>` over the rationals  ->  `Gen.splineKernel (x order : Rat) : Rat`.
                (`_kaiser_bessel_kernel` needs sqrt/exp: it is NOT translated; it is checked against
                scipy.special.i0 by the C07 search oracle and used as-is by the correspondence.)
InterpWrappers  sigpy/interp.py `interpolate` / `gridding` (the Python wrappers around the numba loop nests): every
                statement of their bodies -> one `let` of `Gen.interpolateW` / `Gen.griddingW` (shapes as `List Int`
                with Python slice / index / repetition semantics of Model/C07Py.lean, the `np.isscalar` branches as a
                `match` on `Bc`, the dispatch `TABLE[kernel][ndim - 1]` as `pyGet?` into `Gen.interpolateTable` /
                `Gen.griddingTable`, which list the loop nests returned by `_get_interpolate` / `_get_gridding`).
NufftFormulas   sigpy/fourier.py: the integer / rational formulas of the nufft pipeline
                (`_get_oversamp_shape`, `_scale_coord`, `_apodize` centre and grid length, the two
                normalisations and the `width**ndim` division of `nufft` / `nufft_adjoint`).

Everything outside the subset raises `Unsupported` -> broken obligation, never a pass.
"""
import ast
import copy

from harness.translate import normalize as N
from harness.translate import py2lean as T
from harness.translate.gen import HEADER, _parse

U = T.Unsupported


# ---- InterpKernels ----------------------------------------------------------------------------
def _ret_tree(stmts, ex, ind):
    """statements of the form  if c: <tree> [elif/else <tree>] / return e  -> Lean Rat expression.
    Falling off the end is Python's `return None`: rendered as 0 and recorded in `falls`."""
    pad = "  " * ind
    stmts = [s for s in stmts if not (isinstance(s, ast.Expr) and isinstance(s.value, ast.Constant))]
    if not stmts:
        ex.falls += 1
        return pad + "(0 : Rat) /- falls off the end: Python returns None -/"
    s, rest = stmts[0], stmts[1:]
    if isinstance(s, ast.Return):
        if s.value is None:
            raise U("bare return")
        v, t = ex.tr(s.value)
        return pad + T._cast(v, t, T.RAT)
    if isinstance(s, ast.If):
        c = ex.cond(s.test)
        th = _ret_tree(s.body, ex, ind + 1)
        # code after an `if` whose body always returns is the else branch
        if s.orelse and rest:
            if not _always_returns(s.orelse) or not _always_returns(s.body):
                raise U("if/else followed by code")
            raise U("unreachable code after if/else")
        if s.orelse:
            el = _ret_tree(s.orelse, ex, ind + 1)
        else:
            if not _always_returns(s.body):
                raise U("if body may fall through")
            el = _ret_tree(rest, ex, ind + 1)
        return "%sif %s then\n%s\n%selse\n%s" % (pad, c, th, pad, el)
    raise U("statement %s" % ast.dump(s)[:80])


def _always_returns(stmts):
    for s in stmts:
        if isinstance(s, ast.Return):
            return True
        if isinstance(s, ast.If) and s.orelse and _always_returns(s.body) and _always_returns(s.orelse):
            return True
    return False


def gen_interp_kernels(ctx=None):
    tree = _parse("sigpy/interp.py")
    fn = T.find_function(tree, "_spline_kernel")
    got = [a.arg for a in fn.args.args]
    if got != ["x", "order"]:
        raise U("_spline_kernel signature changed: %s" % got)
    ex = T.Expr({"x": T.RAT, "order": T.RAT})
    ex.falls = 0
    fn = N.canon_guards(fn)   # `if not C: A else: B` is read as `if C: B else: A` (ordering comparisons are NOT flipped: NaN)
    body = _ret_tree(fn.body, ex, 1)
    out = [HEADER % "sigpy/interp.py"]
    out.append("/-- generated from `_spline_kernel` (`order` is passed as a float by the callers: `param[-d]`) -/\n"
               "def splineKernel (x order : Rat) : Rat :=\n%s\n" % body)
    # which kernel function each kernel name is bound to in _get_interpolate / _get_gridding
    for outer in ("_get_interpolate", "_get_gridding"):
        f = T.find_function(tree, outer)
        binds = {}
        for n in f.body:
            if isinstance(n, ast.If):
                cur = n
                while isinstance(cur, ast.If):
                    t = cur.test
                    if not (isinstance(t, ast.Compare) and isinstance(t.left, ast.Name) and t.left.id == "kernel"
                            and len(t.ops) == 1 and isinstance(t.ops[0], ast.Eq)
                            and isinstance(t.comparators[0], ast.Constant)):
                        raise U("%s kernel dispatch" % outer)
                    a = cur.body[0]
                    if not (len(cur.body) == 1 and isinstance(a, ast.Assign) and isinstance(a.value, ast.Name)
                            and isinstance(a.targets[0], ast.Name) and a.targets[0].id == "kernel"):
                        raise U("%s kernel dispatch body" % outer)
                    binds[t.comparators[0].value] = a.value.id
                    cur = cur.orelse[0] if len(cur.orelse) == 1 else None
                break
        if binds != {"spline": "_spline_kernel", "kaiser_bessel": "_kaiser_bessel_kernel"}:
            raise U("%s binds kernels %s" % (outer, binds))
    out.append("/-- `_get_interpolate` and `_get_gridding` both bind 'spline' to `_spline_kernel` and\n"
               "    'kaiser_bessel' to `_kaiser_bessel_kernel` (checked by the translator) -/\n"
               "def kernelDispatchChecked : Bool := true\n")
    out.append("end SigpyVerif.Gen\n")
    return "\n".join(out)


# ---- NufftFormulas ----------------------------------------------------------------------------
class _Subst(ast.NodeTransformer):
    """replace selected sub-expressions by names"""

    def __init__(self, table):
        self.table = table  # list of (predicate(node) -> bool, name)

    def visit(self, node):
        for pred, name in self.table:
            if pred(node):
                return ast.Name(id=name, ctx=ast.Load())
        return self.generic_visit(node)


def _is_sub(node, arr, idx=None):
    return (isinstance(node, ast.Subscript) and isinstance(node.value, ast.Name) and node.value.id == arr
            and (idx is None or (isinstance(node.slice, ast.Name) and node.slice.id == idx)))


def _is_prod_of(node, arr):
    """util.prod(<arr>[-ndim:]) or util.prod(<arr>.shape[-ndim:])"""
    if not (isinstance(node, ast.Call) and isinstance(node.func, ast.Attribute) and node.func.attr == "prod"
            and isinstance(node.func.value, ast.Name) and node.func.value.id == "util" and len(node.args) == 1):
        return False
    a = node.args[0]
    if not isinstance(a, ast.Subscript):
        return False
    sl = a.slice
    if not (isinstance(sl, ast.Slice) and sl.upper is None and sl.step is None
            and isinstance(sl.lower, ast.UnaryOp) and isinstance(sl.lower.op, ast.USub)
            and isinstance(sl.lower.operand, ast.Name) and sl.lower.operand.id == "ndim"):
        return False
    v = a.value
    if isinstance(v, ast.Name):
        return v.id == arr
    return isinstance(v, ast.Attribute) and v.attr == "shape" and isinstance(v.value, ast.Name) and v.value.id + ".shape" == arr


class _GExpr:
    """expressions over a generic scalar type α (core classes only) with an abstract `sqrt`:
    names, int constants, + - * /, `e ** 0.5` -> sqrt e, `e ** ndim` -> e ^ ndim (ndim : Nat)."""

    def __init__(self, ints, scalars, nats):
        self.ints, self.scalars, self.nats = set(ints), set(scalars), set(nats)
        self.uses_sqrt = False

    def tr(self, e):
        if isinstance(e, ast.Name):
            if e.id in self.ints:
                return "((%s : Int) : α)" % e.id
            if e.id in self.scalars:
                return e.id
            raise U("unknown name %s" % e.id)
        if isinstance(e, ast.Constant) and isinstance(e.value, int) and not isinstance(e.value, bool):
            return "((%d : Int) : α)" % e.value
        if isinstance(e, ast.BinOp):
            if isinstance(e.op, ast.Pow):
                if isinstance(e.right, ast.Constant) and e.right.value == 0.5:
                    self.uses_sqrt = True
                    return "(sqrt %s)" % self.tr(e.left)
                if isinstance(e.right, ast.Name) and e.right.id in self.nats:
                    return "(%s ^ %s)" % (self.tr(e.left), e.right.id)
                raise U("power %s" % ast.dump(e.right)[:40])
            sym = {ast.Add: "+", ast.Sub: "-", ast.Mult: "*", ast.Div: "/"}.get(type(e.op))
            if sym is None:
                raise U("operator %s" % type(e.op).__name__)
            return "(%s %s %s)" % (self.tr(e.left), sym, self.tr(e.right))
        raise U("expression %s" % ast.dump(e)[:80])


def _aug_on(fn, target, op):
    """all `target <op>= value` statements of fn, in order"""
    out = []
    for n in ast.walk(fn):
        if isinstance(n, ast.AugAssign) and isinstance(n.op, op) and isinstance(n.target, ast.Name) \
                and n.target.id == target:
            out.append(n)
    out.sort(key=lambda n: n.lineno)
    return out


def _call_kw(fn, attr):
    """keyword dict of the unique call `<x>.<attr>(...)` in fn"""
    calls = [n for n in ast.walk(fn) if isinstance(n, ast.Call) and isinstance(n.func, ast.Attribute)
             and n.func.attr == attr]
    if len(calls) != 1:
        raise U("expected exactly one call of %s in %s" % (attr, fn.name))
    c = calls[0]
    return c, {k.arg: k.value for k in c.keywords}


# the spellings the committed Gen/NufftFormulas.lean was generated from: a formula that differs from its reference only by
# the order of the operands of a `*` / `+` or by the grouping of a sum of exact ints (normalize.ac_key) is emitted in the
# reference spelling, so the generated definition - and every theorem about it - is unchanged; any other formula is emitted
# as written (a different definition)
REFS = {"oversampLen": ["ceil(oversamp * i)"], "scale": ["ceil(oversamp * n) / n"], "shift": ["ceil(oversamp * n) // 2"],
        "os_i": ["ceil(oversamp * i)"], "centre": ["i // 2"], "delta": ["m // 2"]}


def oversamp_shape_elt(tree):
    """`_get_oversamp_shape(shape, ndim, oversamp)`: after normalisation (an append loop over `shape[-ndim:]` read as the
    comprehension, single-assignment temporaries inlined, the bound variable named `i`) the body must be
    `return list(shape)[:-ndim] + [<elt> for i in shape[-ndim:]]`; returns <elt> (over `oversamp`, `i`)."""
    fn = T.find_function(tree, "_get_oversamp_shape")
    if [a.arg for a in fn.args.args] != ["shape", "ndim", "oversamp"] or fn.decorator_list:
        raise U("_get_oversamp_shape signature")
    fn, _ = N.loops_to_comps(fn)
    fn, _ = N.inline_temps(fn)
    body = N._nodoc(fn.body)
    if len(body) != 1 or not isinstance(body[0], ast.Return) or not (isinstance(body[0].value, ast.BinOp) and isinstance(body[0].value.op, ast.Add)):
        raise U("_get_oversamp_shape body: %s" % [ast.unparse(x)[:60] for x in body])
    lhs, comp = body[0].value.left, body[0].value.right
    if ast.unparse(lhs) not in ("list(shape)[:-ndim]", "list(shape[:-ndim])"):
        raise U("_get_oversamp_shape batch part: %s" % ast.unparse(lhs))
    elt, names, it = T.listcomp_elt(N.rename_comp(comp, ["i"]))
    if ast.unparse(it) not in ("shape[-ndim:]", "list(shape)[-ndim:]", "list(shape[-ndim:])") or names != ["i"]:
        raise U("_get_oversamp_shape comprehension over %s" % ast.unparse(it))
    if N.loads(elt) - {"oversamp", "i", "ceil"}:
        raise U("_get_oversamp_shape element reads %s" % sorted(N.loads(elt)))
    return N.match_ref(elt, REFS["oversampLen"], ints=("i", ))


def gen_nufft_formulas(ctx=None):
    tree = _parse("sigpy/fourier.py")
    out = [HEADER % "sigpy/fourier.py"]
    # `ceil` must be math.ceil
    if not any(isinstance(n, ast.ImportFrom) and n.module == "math" and any(a.name == "ceil" and a.asname is None for a in n.names)
               for n in tree.body):
        raise U("`from math import ceil` not found")
    ceil = {"ceil": None}

    class E(T.Expr):
        def e_Call(self, e):
            if isinstance(e.func, ast.Name) and e.func.id == "ceil" and len(e.args) == 1:
                s, t = self.tr(e.args[0])
                return ("(Rat.ceil %s)" % T._cast(s, t, T.RAT), T.INT)
            return super().e_Call(e)

    def rat_or_int(node, env):
        return E(env).tr(node)

    # _get_oversamp_shape: list(shape)[:-ndim] + [ceil(oversamp * i) for i in shape[-ndim:]]
    elt = oversamp_shape_elt(tree)
    s, t = rat_or_int(elt, {"oversamp": T.RAT, "i": T.INT})
    if t != T.INT:
        raise U("oversampled length is not an int")
    out.append("/-- generated from `_get_oversamp_shape`: one transform axis (batch axes are copied) -/\n"
               "def oversampLen (oversamp : Rat) (i : Int) : Int := %s\n" % s)

    # _scale_coord
    fn = T.find_function(tree, "_scale_coord")
    if [a.arg for a in fn.args.args] != ["coord", "shape", "oversamp"]:
        raise U("_scale_coord signature")
    # single-assignment temporaries of the loop body (`scale`, `shift`, a shared `os_n = ceil(..)`, ..) are inlined: what is
    # translated is the value multiplied onto / added to `output[..., i]`, however it is named on the way
    fn, _ = N.inline_temps(fn, keep=("output", "ndim"))
    loops = [n for n in fn.body if isinstance(n, ast.For)]
    if len(loops) != 1 or loops[0].orelse or not isinstance(loops[0].target, ast.Name):
        raise U("_scale_coord loop")
    iv = loops[0].target.id
    if ast.unparse(T.find_assign(fn, "ndim")) != "coord.shape[-1]" or N._stores(fn, "ndim") != 1 or N._stores(fn, iv) != 1:
        raise U("_scale_coord ndim / loop variable")
    # any enumeration of the last ndim axes, each once: the body below touches `output[..., i]` only and reads nothing
    # another iteration writes, so the order of the axes does not matter
    _axes_of(loops[0].iter, "_scale_coord loop")
    body = loops[0].body
    sub = _Subst([(lambda n: _is_sub(n, "shape", iv), "n")])
    stmts = []
    for st in body:
        if isinstance(st, ast.AugAssign):
            stmts.append((type(st.op).__name__, ast.unparse(st.target), sub.visit(copy.deepcopy(st.value))))
        else:
            raise U("_scale_coord statement %s" % ast.unparse(st)[:60])
    if [x[:2] for x in stmts] != [("Mult", "output[..., %s]" % iv), ("Add", "output[..., %s]" % iv)]:
        raise U("_scale_coord update sequence %s" % [x[:2] for x in stmts])
    vals = {"scale": N.match_ref(stmts[0][2], REFS["scale"], ints=("n", )), "shift": N.match_ref(stmts[1][2], REFS["shift"], ints=("n", ))}
    for k, v in vals.items():
        if N.loads(v) - {"oversamp", "n", "ceil"}:
            raise U("_scale_coord %s reads %s" % (k, sorted(N.loads(v))))
    # a fresh copy of the coordinates: in coord's own dtype, or in a floating dtype wide enough for integer-typed coordinates
    if ast.unparse(T.find_assign(fn, "output")) not in ("coord.copy()", "coord.astype(np.result_type(coord.dtype, np.float32))",
                                                             "coord.astype(coord.dtype if coord.dtype.kind == 'f' else np.float64)"):
        raise U("_scale_coord output init")
    env = {"oversamp": T.RAT, "n": T.INT}
    s, t = rat_or_int(vals["scale"], env)
    out.append("/-- generated from `_scale_coord`: `scale` for an axis of length `n` -/\n"
               "def scaleFactor (oversamp : Rat) (n : Int) : Rat := %s\n" % T._cast(s, t, T.RAT))
    s, t = rat_or_int(vals["shift"], env)
    out.append("/-- generated from `_scale_coord`: `shift` for an axis of length `n` -/\n"
               "def scaleShift (oversamp : Rat) (n : Int) : %s := %s\n" % ("Int" if t == T.INT else "Rat", s))
    out.append("def scaleShiftIsInt : Bool := %s\n" % ("true" if t == T.INT else "false"))
    out.append("/-- generated from `_scale_coord`: `output[..., i] *= scale; output[..., i] += shift` -/\n"
               "def scaleCoord (oversamp : Rat) (n : Int) (c : Rat) : Rat :=\n"
               "  c * scaleFactor oversamp n + %s\n" % ("((scaleShift oversamp n : Int) : Rat)" if t == T.INT else "scaleShift oversamp n"))

    # _apodize: os_i and the centre subtracted from idx
    fn = T.find_function(tree, "_apodize")
    if [a.arg for a in fn.args.args] != ["input", "ndim", "oversamp", "width", "beta"]:
        raise U("_apodize signature")
    if ast.unparse(T.find_assign(fn, "i")) != "output.shape[a]":
        raise U("_apodize axis length")
    s, t = rat_or_int(N.match_ref(T.find_assign(fn, "os_i"), REFS["os_i"], ints=("i", )), {"oversamp": T.RAT, "i": T.INT})
    if t != T.INT:
        raise U("os_i not an int")
    out.append("/-- generated from `_apodize`: `os_i` -/\ndef apodOsLen (oversamp : Rat) (i : Int) : Int := %s\n" % s)
    apod = T.find_assign(fn, "apod")
    cen = [n for n in ast.walk(apod) if isinstance(n, ast.BinOp) and isinstance(n.op, ast.Sub)
           and isinstance(n.left, ast.Name) and n.left.id == "idx"]
    if len(cen) != 1:
        raise U("_apodize centre not found")
    s, t = rat_or_int(N.match_ref(cen[0].right, REFS["centre"], ints=("i", )), {"i": T.INT})
    if t != T.INT:
        raise U("_apodize centre not an int")
    out.append("/-- generated from `_apodize`: the index subtracted from `idx` (apodisation centre) -/\n"
               "def apodCentre (i : Int) : Int := %s\n" % s)
    # the argument of the apodisation function: (pi * width * (idx - centre) / os_i); record its shape
    want = "(beta ** 2 - (np.pi * width * (idx - %s) / os_i) ** 2) ** 0.5" % ast.unparse(cen[0].right)
    if ast.unparse(apod) != want:
        raise U("_apodize formula changed: %s" % ast.unparse(apod))
    augs = [(type(n.op).__name__, ast.unparse(n.target), ast.unparse(n.value)) for n in ast.walk(fn) if isinstance(n, ast.AugAssign)]
    if augs != [("Div", "apod", "xp.sinh(apod)"), ("Mult", "output", "apod.reshape([i] + [1] * (-a - 1))")]:
        raise U("_apodize updates changed: %s" % augs)
    out.append("/-- `_apodize` multiplies axis `a` by `a/sinh(a)`, `a = sqrt(beta^2 - (pi*width*(idx - centre)/os_i)^2)`\n"
               "    (shape of the formula checked syntactically by the translator; real-valued for real beta) -/\n"
               "def apodFormulaChecked : Bool := true\n")

    # nufft / nufft_adjoint normalisations
    gen_hdr = "{α : Type} [Add α] [Sub α] [Mul α] [Div α] [IntCast α] [HPow α Nat α] (sqrt : α → α)"
    for fname, lean in (("nufft", "Fwd"), ("nufft_adjoint", "Adj")):
        fn = T.find_function(tree, fname)
        shp = "input.shape" if fname == "nufft" else "oshape"
        sub = _Subst([(lambda n, shp=shp: _is_prod_of(n, shp), "prodN"),
                      (lambda n: _is_prod_of(n, "os_shape"), "prodOs")])
        divs = _aug_on(fn, "output", ast.Div)
        muls = _aug_on(fn, "output", ast.Mult)
        g = _GExpr(ints=["prodN", "prodOs"], scalars=["width"], nats=["ndim"])
        if fname == "nufft":
            if len(divs) != 2 or muls:
                raise U("nufft scalings changed")
            a = g.tr(sub.visit(copy.deepcopy(divs[0].value)))
            b = g.tr(sub.visit(copy.deepcopy(divs[1].value)))
            out.append("/-- generated from `nufft`: `output /= <this>` before zero-padding -/\n"
                       "def nufftFwdDiv %s (prodN : Int) : α := %s\n" % (gen_hdr, a))
            out.append("/-- generated from `nufft`: `output /= <this>` after interpolation -/\n"
                       "def nufftFwdWidthDiv %s (width : α) (ndim : Nat) : α := %s\n" % (gen_hdr, b))
        else:
            if len(divs) != 1 or len(muls) != 1:
                raise U("nufft_adjoint scalings changed")
            b = g.tr(sub.visit(copy.deepcopy(divs[0].value)))
            a = g.tr(sub.visit(copy.deepcopy(muls[0].value)))
            out.append("/-- generated from `nufft_adjoint`: `output /= <this>` after gridding -/\n"
                       "def nufftAdjWidthDiv %s (width : α) (ndim : Nat) : α := %s\n" % (gen_hdr, b))
            out.append("/-- generated from `nufft_adjoint`: `output *= <this>` after cropping -/\n"
                       "def nufftAdjMul %s (prodOs prodN : Int) : α := %s\n" % (gen_hdr, a))
        # beta
        beta = ast.unparse(T.find_assign(fn, "beta"))
        if beta != "np.pi * ((width / oversamp * (oversamp - 0.5)) ** 2 - 0.8) ** 0.5":
            raise U("%s beta formula changed: %s" % (fname, beta))
        # what is passed to interpolate / gridding
        call, kw = _call_kw(fn, "interpolate" if fname == "nufft" else "gridding")
        passed = {k: ast.unparse(v) for k, v in kw.items()}
        if passed != {"kernel": "'kaiser_bessel'", "width": "width", "param": "beta"}:
            raise U("%s passes %s to the interpolation" % (fname, passed))
        # stage order (names of the calls that rebind `output`, in order)
        stages = []
        for n in fn.body:
            if isinstance(n, ast.Assign) and isinstance(n.targets[0], ast.Name) and n.targets[0].id in ("output", "coord") \
                    and isinstance(n.value, ast.Call):
                stages.append(ast.unparse(n.value))
            elif isinstance(n, ast.Expr) and isinstance(n.value, ast.Call):
                stages.append(ast.unparse(n.value))
            elif isinstance(n, ast.AugAssign):
                stages.append(ast.unparse(n))
        if fname == "nufft":
            want = ["input.copy()", "_apodize(output, ndim, oversamp, width, beta)",
                    "output /= util.prod(input.shape[-ndim:]) ** 0.5", "util.resize(output, os_shape)",
                    "fft(output, axes=range(-ndim, 0), norm=None)", "_scale_coord(coord, input.shape, oversamp)",
                    "interp.interpolate(output, coord, kernel='kaiser_bessel', width=width, param=beta)",
                    "output /= width ** ndim"]
        else:
            want = ["_scale_coord(coord, oshape, oversamp)",
                    "interp.gridding(input, coord, os_shape, kernel='kaiser_bessel', width=width, param=beta)",
                    "output /= width ** ndim", "ifft(output, axes=range(-ndim, 0), norm=None)",
                    "util.resize(output, oshape)",
                    "output *= util.prod(os_shape[-ndim:]) / util.prod(oshape[-ndim:]) ** 0.5",
                    "_apodize(output, ndim, oversamp, width, beta)"]
        if stages != want:
            raise U("%s stage sequence changed: %s" % (fname, stages))
        os_shape = ast.unparse(T.find_assign(fn, "os_shape"))
        if os_shape != "_get_oversamp_shape(%s, ndim, oversamp)" % shp:
            raise U("%s os_shape: %s" % (fname, os_shape))
    out.append("/-- stage order, arguments handed to interpolate/gridding (`width=width, param=beta`), the beta\n"
               "    formula and `os_shape` of `nufft` and `nufft_adjoint` were checked syntactically -/\n"
               "def nufftPipelineChecked : Bool := true\n")
    _gen_toeplitz(tree, out, E)
    out.append("end SigpyVerif.Gen\n")
    return "\n".join(out)


def check_toeplitz(tree):
    """the syntactic checks of `_gen_toeplitz` on their own (used by gen_c04 for the shape of the psf); raises Unsupported"""
    class E(T.Expr):
        def e_Call(self, e):
            if isinstance(e.func, ast.Name) and e.func.id == "ceil" and len(e.args) == 1:
                s, t = self.tr(e.args[0])
                return ("(Rat.ceil %s)" % T._cast(s, t, T.RAT), T.INT)
            return super().e_Call(e)
    _gen_toeplitz(tree, [], E)


# ---- InterpWrappers ---------------------------------------------------------------------------
# The Python wrappers `interpolate` / `gridding`: every statement of their bodies is translated, in
# source order, into one `let` of a Lean `Option` do-block (`none` = Python raises):
#
#   n = <int expr>                         let n : Int := ..        (`L[k]` at top level: `let n ← pyGet? L k`)
#   s = <shape expr>                       let s : List Int := ..
#   xp = backend.get_array_module(input)   (backend selection: only the `xp == np` branch is modelled)
#   isreal = np.issubdtype(..)             (used by the cupy branch only; the name stays unknown to the translator)
#   A = A.reshape(<shape expr>)            let A_shape := <new>   + the pair (old, new) recorded in `reshapes`
#   output = xp.zeros(<shape expr>, dtype=input.dtype)      let output_shape := ..   (zero-initialised buffer)
#   if np.isscalar(P): P = xp.array(<list expr>, coord.dtype) else: P = xp.array(P, coord.dtype)
#                                          let P : List Rat := match P with | .scalar P => .. | .perAxis P => ..
#   if xp == np: TABLE[kernel][<int expr>](output, input, coord, width, param) else: <cupy, not modelled>
#                                          let (nest, acc) ← pyGet? (<table of loop nests>) <int expr>; entries := nest ..
#   return output.reshape(<shape expr>)    resultShape
#
# shape / list expressions: `X.shape`, names, `list(e)`, `tuple(e)`, `e[a:b]`, `[e1, .., en]`, `e + e`,
# `e * n`, `n * e`;  int expressions: py2lean's subset + `util.prod(e)`, `len(e)`.
# The table `TABLE[kernel]` is resolved through the module-level `TABLE[kernel] = _get_X(kernel)` and the
# `return f1, f2, f3` of `_get_X`.  Anything else raises `Unsupported`.
ILIST, RLIST, BC = "ilist", "rlist", "bc"
_NESTS = dict([("_interpolate%d" % d, "interp%d" % d) for d in (1, 2, 3)] + [("_gridding%d" % d, "grid%d" % d) for d in (1, 2, 3)])

W_HEADER = ("/- GENERATED by harness/translate/gen_c07.py from %s — do not edit; regenerated on every check. -/\n"
            "import SigpyVerif.Model.Py\nimport SigpyVerif.Model.Apply\nimport SigpyVerif.Model.C07Py\nimport SigpyVerif.Gen.Interp\n"
            "set_option linter.unusedVariables false\nnamespace SigpyVerif.Gen\nopen SigpyVerif SigpyVerif.C07\n\n")


class _WExpr(T.Expr):
    """int expressions of the wrappers; `self.types` maps names to INT | RAT | ILIST | RLIST | BC,
    `self.arrays_w` is the set of array names (whose `.shape` is the Lean variable `<name>_shape`)."""

    def __init__(self, types, arrays_w):
        super().__init__({})
        self.types, self.arrays_w = types, arrays_w

    def e_Name(self, e):
        t = self.types.get(e.id)
        if t in (T.INT, T.RAT):
            return (T.nm(e.id), t)
        raise U("name %s is not a scalar here (%s)" % (e.id, t))

    def e_Call(self, e):
        f = e.func
        if isinstance(f, ast.Attribute) and f.attr == "prod" and isinstance(f.value, ast.Name) and f.value.id == "util" \
                and len(e.args) == 1 and not e.keywords:
            return ("(shapeProd %s)" % self.lst(e.args[0], T.INT), T.INT)
        if isinstance(f, ast.Name) and f.id == "len" and len(e.args) == 1 and not e.keywords:
            return ("((%s).length : Int)" % self.lst(e.args[0], None), T.INT)
        if isinstance(f, ast.Name) and f.id == "int" and len(e.args) == 1:
            return super().e_Call(e)
        raise U("call %s" % ast.unparse(e)[:60])

    def e_Subscript(self, e):
        raise U("subscript inside an expression: %s" % ast.unparse(e)[:60])

    def int_(self, e):
        s, t = self.tr(e)
        if t != T.INT:
            raise U("not an int: %s" % ast.unparse(e)[:60])
        return s

    def lst(self, e, want):
        """list-valued expression -> Lean `List Int` (want=INT) / `List Rat` (want=RAT) / either (None)"""
        lt = {T.INT: ILIST, T.RAT: RLIST}
        if isinstance(e, ast.Attribute) and e.attr == "shape" and isinstance(e.value, ast.Name) and e.value.id in self.arrays_w:
            if want == T.RAT:
                raise U("shape used as a list of floats")
            return e.value.id + "_shape"
        if isinstance(e, ast.Name):
            t = self.types.get(e.id)
            if t in (ILIST, RLIST) and (want is None or t == lt[want]):
                return T.nm(e.id)
            raise U("name %s is not a %s list here (%s)" % (e.id, want, t))
        if isinstance(e, ast.Call) and isinstance(e.func, ast.Name) and e.func.id in ("list", "tuple") \
                and len(e.args) == 1 and not e.keywords:
            return self.lst(e.args[0], want)
        if isinstance(e, (ast.List, ast.Tuple)):
            if want is None:
                raise U("list literal of unknown element type")
            els = []
            for x in e.elts:
                s, t = self.tr(x)
                els.append(T._cast(s, t, want))
            return "[" + ", ".join(els) + "]"
        if isinstance(e, ast.BinOp) and isinstance(e.op, ast.Add):
            return "(%s ++ %s)" % (self.lst(e.left, want), self.lst(e.right, want))
        if isinstance(e, ast.BinOp) and isinstance(e.op, ast.Mult):
            for l, n in ((e.left, e.right), (e.right, e.left)):
                try:
                    ns = self.int_(n)
                except U:
                    continue
                return "(pyRepeat %s %s)" % (self.lst(l, want), ns)
            raise U("list repetition %s" % ast.unparse(e)[:60])
        if isinstance(e, ast.Subscript) and isinstance(e.slice, ast.Slice):
            sl = e.slice
            if sl.step is not None:
                raise U("slice step")
            base = self.lst(e.value, want)
            if sl.lower is None and sl.upper is None:
                return base
            if sl.lower is None:
                return "(pySliceTo %s %s)" % (base, self.int_(sl.upper))
            if sl.upper is None:
                return "(pySliceFrom %s %s)" % (base, self.int_(sl.lower))
            return "(pySlice %s %s %s)" % (base, self.int_(sl.lower), self.int_(sl.upper))
        raise U("list expression %s" % ast.unparse(e)[:80])


def _is_call(e, owner, attr):
    return (isinstance(e, ast.Call) and isinstance(e.func, ast.Attribute) and e.func.attr == attr
            and isinstance(e.func.value, ast.Name) and e.func.value.id == owner)


def _nest_table(tree, table):
    """`TABLE[kernel] = _get_X(kernel)` at module level (inside `for kernel in KERNELS`) and the
    `return f1, f2, ..` of `_get_X` -> [Lean loop-nest names]"""
    getter = None
    for n in tree.body:
        if isinstance(n, ast.For) and isinstance(n.target, ast.Name) and n.target.id == "kernel" \
                and isinstance(n.iter, ast.Name) and n.iter.id == "KERNELS":
            for st in n.body:
                if isinstance(st, ast.Assign) and len(st.targets) == 1 and ast.unparse(st.targets[0]) == "%s[kernel]" % table:
                    v = st.value
                    if not (isinstance(v, ast.Call) and isinstance(v.func, ast.Name) and len(v.args) == 1
                            and isinstance(v.args[0], ast.Name) and v.args[0].id == "kernel" and not v.keywords):
                        raise U("%s[kernel] = %s" % (table, ast.unparse(v)))
                    if getter is not None:
                        raise U("%s[kernel] assigned twice" % table)
                    getter = v.func.id
    inits = [n for n in tree.body if isinstance(n, ast.Assign) and ast.unparse(n.targets[0]) == table]
    if getter is None or len(inits) != 1 or ast.unparse(inits[0].value) != "{}":
        raise U("kernel table %s not found / not initialised as {}" % table)
    others = [n for n in ast.walk(tree) if isinstance(n, (ast.Assign, ast.AugAssign, ast.Delete))
              and any(isinstance(t, ast.Subscript) and isinstance(t.value, ast.Name) and t.value.id == table
                      for t in (n.targets if hasattr(n, "targets") else [n.target]))]
    if len(others) != 1:
        raise U("%s is modified in %d places" % (table, len(others)))
    fn = T.find_function(tree, getter)
    rets = [n for n in fn.body if isinstance(n, ast.Return)]
    if len(rets) != 1 or fn.body[-1] is not rets[0] or not isinstance(rets[0].value, ast.Tuple):
        raise U("%s does not end in `return f1, f2, ..`" % getter)
    names = []
    inner = {n.name for n in fn.body if isinstance(n, ast.FunctionDef)}
    for x in rets[0].value.elts:
        if not (isinstance(x, ast.Name) and x.id in _NESTS and x.id in inner):
            raise U("%s returns %s" % (getter, ast.unparse(x)))
        names.append(_NESTS[x.id])
    return getter, names


def _wrapper(tree, fname, lean, args, table_name):
    """translate one wrapper; returns Lean source"""
    fn = T.find_function(tree, fname)
    got = [a.arg for a in fn.args.args]
    if got != args or fn.args.vararg or fn.args.kwarg or fn.args.kwonlyargs:
        raise U("%s signature changed: %s" % (fname, got))
    types = {"width": BC, "param": BC}
    arrays_w = {"input", "coord"}
    if "shape" in args:
        types["shape"] = ILIST
    ex = _WExpr(types, arrays_w)
    zeroed, skipped, xp_ok = set(), set(), False
    fdtypes = set()
    lets, reshapes = [], []
    call = None
    result = None
    # calls of small private helpers of interp.py (`param = _per_axis_array(xp, param, ndim, dtype)`) are replaced by the
    # helper's body (normalize.inline_helpers: undecorated, not recursive, an if/else tree of returns, pure arguments, no
    # capture; anything else raises Unsupported), and `x = A if C else B` is read as the if statement
    fn, _ = N.inline_helpers(tree, fn)
    fn = N.canon_guards(fn)     # `if not C: A else: B` is `if C: B else: A`
    body = N.expand_ifexp([s for s in fn.body if not (isinstance(s, ast.Expr) and isinstance(s.value, ast.Constant))],
                          pred=lambda c: _is_call(c, "np", "isscalar"))
    for k, st in enumerate(body):
        if result is not None:
            raise U("%s: code after return" % fname)
        if isinstance(st, ast.Return):
            v = st.value
            if not (_is_call(v, "output", "reshape") and len(v.args) == 1 and not v.keywords and "output" in zeroed and call):
                raise U("%s returns %s" % (fname, ast.unparse(v) if v else None))
            new = ex.lst(v.args[0], T.INT)
            result = new
            reshapes.append("(output_shape, %s)" % new)
            continue
        if isinstance(st, ast.Assign) and len(st.targets) == 1 and isinstance(st.targets[0], ast.Name):
            tgt, v = st.targets[0].id, st.value
            if call is not None and (tgt in arrays_w or tgt in ("xp", "isreal") or types.get(tgt) in (BC, RLIST)):
                raise U("%s: array / argument rebound after the kernel call: %s" % (fname, ast.unparse(st)[:80]))
            if tgt == "xp":
                if ast.unparse(v) != "backend.get_array_module(input)":
                    raise U("xp = %s" % ast.unparse(v))
                xp_ok = True
                continue
            if ast.unparse(v) in ("np.result_type(coord.dtype, np.float32)",
                                  "coord.dtype if coord.dtype.kind == 'f' else np.float64") and call is None:
                # the floating dtype width / param are stored in (coord.dtype for floating coordinates, a float type wide
                # enough for integer-typed ones): the model's width / param are rationals either way
                fdtypes.add(tgt)
                skipped.add(tgt)   # stays unknown to the translator: any other modelled use raises Unsupported
                continue
            if tgt in fdtypes:
                raise U("%s: %s rebound: %s" % (fname, tgt, ast.unparse(st)[:80]))
            if tgt == "isreal" and _is_call(v, "np", "issubdtype"):
                skipped.add(tgt)   # stays unknown to the translator: any modelled use raises Unsupported
                continue
            if tgt in arrays_w and _is_call(v, tgt, "reshape") and len(v.args) == 1 and not v.keywords:
                new = ex.lst(v.args[0], T.INT)
                r = "r%d" % len(reshapes)
                lets.append("let %s : List Int × List Int := (%s_shape, %s)" % (r, tgt, new))
                lets.append("let %s_shape : List Int := %s.2" % (tgt, r))
                reshapes.append(r)
                continue
            if tgt == "output" and _is_call(v, "xp", "zeros") and xp_ok and len(v.args) == 1 \
                    and [(kw.arg, ast.unparse(kw.value)) for kw in v.keywords] == [("dtype", "input.dtype")]:
                lets.append("let output_shape : List Int := %s" % ex.lst(v.args[0], T.INT))
                arrays_w.add("output")
                zeroed.add("output")
                continue
            if tgt in arrays_w or tgt in types and types[tgt] in (BC, RLIST) or tgt in ("np", "util", "backend", "kernel"):
                raise U("%s: assignment %s" % (fname, ast.unparse(st)[:80]))
            # plain int / shape definitions
            if isinstance(v, ast.Subscript) and not isinstance(v.slice, (ast.Slice, ast.Tuple)):
                lets.append("let %s : Int ← pyGet? %s %s" % (T.nm(tgt), ex.lst(v.value, T.INT), ex.int_(v.slice)))
                types[tgt] = T.INT
                continue
            try:
                s = ex.int_(v)
                lets.append("let %s : Int := %s" % (T.nm(tgt), s))
                types[tgt] = T.INT
            except U as e_int:
                try:
                    s = ex.lst(v, T.INT)
                except U as e_lst:
                    raise U("%s: `%s` is neither an int (%s) nor a shape (%s)" % (fname, ast.unparse(st)[:80], e_int, e_lst))
                lets.append("let %s : List Int := %s" % (T.nm(tgt), s))
                types[tgt] = ILIST
            continue
        if isinstance(st, ast.If) and _is_call(st.test, "np", "isscalar") and len(st.test.args) == 1 \
                and isinstance(st.test.args[0], ast.Name):
            P = st.test.args[0].id
            if types.get(P) != BC or call is not None:
                raise U("%s: np.isscalar(%s)" % (fname, P))
            branches = []
            for br, ty in ((st.body, T.RAT), (st.orelse, RLIST)):
                if not (len(br) == 1 and isinstance(br[0], ast.Assign) and ast.unparse(br[0].targets[0]) == P
                        and _is_call(br[0].value, "xp", "array") and xp_ok and len(br[0].value.args) == 2
                        and not br[0].value.keywords
                        and (ast.unparse(br[0].value.args[1]) == "coord.dtype" or ast.unparse(br[0].value.args[1]) in fdtypes)):
                    raise U("%s: broadcasting branch of %s: %s" % (fname, P, ast.unparse(br[0])[:80] if br else "missing"))
                types[P] = ty
                branches.append(ex.lst(br[0].value.args[0], T.RAT))
            types[P] = RLIST
            lets.append("let %s : List Rat := match %s with\n    | .scalar %s => %s\n    | .perAxis %s => %s" % (
                P, P, P, branches[0], P, branches[1]))
            continue
        if isinstance(st, ast.If) and ast.unparse(st.test) == "xp == np" and xp_ok and call is None:
            if len(st.body) != 1 or not (isinstance(st.body[0], ast.Expr) and isinstance(st.body[0].value, ast.Call)):
                raise U("%s: numpy branch is not a single kernel call" % fname)
            c = st.body[0].value
            f = c.func
            if not (isinstance(f, ast.Subscript) and isinstance(f.value, ast.Subscript) and isinstance(f.value.value, ast.Name)
                    and isinstance(f.value.slice, ast.Name) and f.value.slice.id == "kernel"
                    and not isinstance(f.slice, (ast.Slice, ast.Tuple))) or c.keywords:
                raise U("%s: kernel call %s" % (fname, ast.unparse(c)[:80]))
            if f.value.value.id != table_name:
                raise U("%s dispatches through %s, expected %s" % (fname, f.value.value.id, table_name))
            a = [x.id if isinstance(x, ast.Name) else None for x in c.args]
            if len(a) != 5 or None in a:
                raise U("%s: kernel call arguments %s" % (fname, ast.unparse(c)[:80]))
            # loop nest signature (checked by gen_interp): (output, input, coord, width, param)
            if a[0] not in zeroed or a[1] != "input" or a[2] != "coord" or a[1] not in arrays_w:
                raise U("%s: kernel call must write a zero-initialised buffer, read `input`, use `coord`: %s" % (fname, a))
            if types.get(a[3]) != RLIST or types.get(a[4]) != RLIST:
                raise U("%s: width/param handed to the kernel before broadcasting: %s" % (fname, a))
            idx = ex.int_(f.slice)
            call = (idx, a)
            lets.append("let sel ← pyGet? (%sTable kernel) %s" % (lean, idx))
            lets.append("let entries : List (Upd Rat) := sel.1 (shapeFn %s_shape) (shapeFn %s_shape) (shapeFn %s_shape) "
                        "(arr2 %s_shape %s) (idx1 %s) (idx1 %s)" % (a[0], a[1], a[2], a[2], a[2], a[3], a[4]))
            lets.append("let kernel_oshape : List Int := %s_shape" % a[0])
            lets.append("let kernel_ishape : List Int := %s_shape" % a[1])
            continue
        raise U("%s: statement %s" % (fname, ast.unparse(st)[:100]))
    if result is None or call is None:
        raise U("%s: no kernel call / return found" % fname)
    if types.get("ndim") != T.INT:
        raise U("%s: ndim is not defined" % fname)
    getter, nests = _nest_table(tree, table_name)
    out = []
    out.append("/-- generated from `%s` (`return %s`) and the module-level `%s[kernel] = %s(kernel)`:\n"
               "    the tuple `%s[kernel]` of loop nests with their update kinds -/\n"
               "def %sTable (kernel : Rat → Rat → Rat) : List (LoopNest × Bool) :=\n  [%s]\n" % (
                   getter, ", ".join(k for k, v in _NESTS.items() if v in nests), table_name, getter, table_name, lean,
                   ", ".join("(%s kernel, %s_accumulates)" % (n, n) for n in nests)))
    params = "(input_shape coord_shape : List Int)" + (" (shape : List Int)" if "shape" in args else "")
    out.append("/-- generated from `%s`, statement by statement (numpy branch `xp == np`); `none` = Python raises -/\n"
               "def %sW (kernel : Rat → Rat → Rat) %s (coord : List Rat)\n    (width param : Bc) : Option Wrapped := do\n  %s\n"
               "  some { ndim := ndim, oshape := kernel_oshape, ishape := kernel_ishape, entries := entries, acc := sel.2,\n"
               "         reshapes := [%s], resultShape := %s }\n" % (
                   fname, lean, params, "\n  ".join(lets), ", ".join(reshapes), result))
    return "\n".join(out)


def gen_interp_wrappers(ctx=None):
    tree = _parse("sigpy/interp.py")
    out = [W_HEADER % "sigpy/interp.py"]
    out.append(_wrapper(tree, "interpolate", "interpolate", ["input", "coord", "kernel", "width", "param"], "_interpolate"))
    out.append(_wrapper(tree, "gridding", "gridding", ["input", "coord", "shape", "kernel", "width", "param"], "_gridding"))
    out.append("end SigpyVerif.Gen\n")
    return "\n".join(out)
# ---- toeplitz_psf / NUFFT._normal_linop ---------------------------------------------------------
def _bind_call(call, fn, method=False):
    """resolve the positional and keyword arguments of `call` against the signature of the def `fn`
    -> {parameter name: argument node}; parameters left to their default are absent.
    (`f(a, b, w)` and `f(a, b, width=w)` bind identically: the check is on what is passed, not how.)"""
    if not isinstance(call, ast.Call):
        raise U("not a call: %s" % ast.unparse(call))
    a = fn.args
    if a.vararg or a.kwarg or a.kwonlyargs or a.posonlyargs:
        raise U("signature of %s" % fn.name)
    params = [x.arg for x in a.args]
    if method:
        if not params or params[0] != "self":
            raise U("%s is not a method" % fn.name)
        params = params[1:]
    if any(isinstance(x, ast.Starred) for x in call.args) or any(k.arg is None for k in call.keywords):
        raise U("star arguments in %s" % ast.unparse(call))
    if len(call.args) > len(params):
        raise U("too many arguments in %s" % ast.unparse(call))
    bound = dict(zip(params, call.args))
    for k in call.keywords:
        if k.arg not in params or k.arg in bound:
            raise U("keyword %s in %s" % (k.arg, ast.unparse(call)))
        bound[k.arg] = k.value
    ndef = len(a.defaults)
    required = params[:len(params) - ndef] if ndef else params
    for r in required:
        if r not in bound:
            raise U("missing argument %s in %s" % (r, ast.unparse(call)))
    return bound


def _bound_src(call, fn, method=False):
    return {k: ast.unparse(v) for k, v in _bind_call(call, fn, method).items()}


def _defaults(fn):
    a = fn.args
    names = [x.arg for x in a.args]
    return {n: ast.unparse(d) for n, d in zip(names[len(names) - len(a.defaults):], a.defaults)}


def _axes_of(node, what, bound=()):
    """value of an axes expression built from `range`, `tuple`, `list`, int constants and `ndim` only, for
    ndim = 1, 2, 3: it must denote exactly the last `ndim` axes {-1, ..., -ndim} (in any order, once each)."""
    for n in ast.walk(node):
        if isinstance(n, ast.Name):
            if n.id not in ("range", "tuple", "list", "ndim", "reversed", "sorted") and n.id not in bound:
                raise U("%s: name %s" % (what, n.id))
        elif isinstance(n, ast.Constant):
            if not isinstance(n.value, int) or isinstance(n.value, bool):
                raise U("%s: constant %r" % (what, n.value))
        elif not isinstance(n, (ast.Call, ast.BinOp, ast.UnaryOp, ast.Load, ast.Add, ast.Sub, ast.Mult, ast.USub,
                                ast.UAdd, ast.Tuple, ast.List)) and not (bound and isinstance(n, (ast.ListComp, ast.comprehension, ast.Store))):
            raise U("%s: %s" % (what, type(n).__name__))
    code = compile(ast.Expression(body=copy.deepcopy(node)), "<axes>", "eval")
    for nd in (1, 2, 3, 4):
        try:
            # (all names as globals: the element of a comprehension is evaluated in its own scope)
            v = list(eval(code, {"__builtins__": {}, "range": range, "tuple": tuple, "list": list, "ndim": nd,
                                 "reversed": reversed, "sorted": sorted}))
        except Exception as e:  # noqa
            raise U("%s: cannot evaluate %s (%r)" % (what, ast.unparse(node), e))
        if sorted(v) != list(range(-nd, 0)):
            raise U("%s: %s is %s for ndim=%d, not the last ndim axes" % (what, ast.unparse(node), v, nd))


def _with_body(fn):
    """statements of the function after the docstring, looking through `with <device>:` blocks"""
    out = []

    def walk(stmts):
        for s in stmts:
            if isinstance(s, ast.Expr) and isinstance(s.value, ast.Constant) and isinstance(s.value.value, str):
                continue
            if isinstance(s, ast.With):
                walk(s.body)
            else:
                out.append(s)
    walk(fn.body)
    return out


def _assigns(stmts, fn_name):
    """{name: value node} for simple `name = value` statements; a name assigned twice is kept as a list in order"""
    d = {}
    for s in stmts:
        if isinstance(s, ast.Assign) and len(s.targets) == 1 and isinstance(s.targets[0], ast.Name):
            d.setdefault(s.targets[0].id, []).append(s.value)
    return d


def _gen_toeplitz(tree, out, E):
    """`toeplitz_psf` (sigpy/fourier.py) and `NUFFT._normal_linop` (sigpy/linop.py)."""
    fn = T.find_function(tree, "toeplitz_psf")
    f_nufft = T.find_function(tree, "nufft")
    f_adj = T.find_function(tree, "nufft_adjoint")
    f_fft = T.find_function(tree, "fft")
    f_osh = T.find_function(tree, "_get_oversamp_shape")
    f_sc = T.find_function(tree, "_scale_coord")
    if [a.arg for a in fn.args.args] != ["coord", "shape", "oversamp", "width"]:
        raise U("toeplitz_psf signature: %s" % [a.arg for a in fn.args.args])
    if [a.arg for a in f_nufft.args.args] != ["input", "coord", "oversamp", "width"]:
        raise U("nufft signature")
    if [a.arg for a in f_adj.args.args] != ["input", "coord", "oshape", "oversamp", "width"]:
        raise U("nufft_adjoint signature")
    # the three entry points must agree on what `oversamp` / `width` mean when they are left out
    dn, da, dt = _defaults(f_nufft), _defaults(f_adj), _defaults(fn)
    if not (dn.get("oversamp") == da.get("oversamp") == dt.get("oversamp") and dn.get("width") == da.get("width") == dt.get("width")
            and dn.get("oversamp") is not None and dn.get("width") is not None):
        raise U("default oversamp/width of nufft, nufft_adjoint, toeplitz_psf differ: %s %s %s" % (dn, da, dt))
    allowed = {"xp", "ndim", "new_shape", "new_coord", "idx", "d", "psf", "fft_axes"}
    # single-assignment temporaries the pass does not know by name (`scale = 2 ** ndim`, `half = new_shape[k] // 2`, ..) are
    # substituted into their reads first (normalize.inline_temps: pure value, nothing it reads re-bound in between);
    # a temporary that cannot be inlined stays and is rejected as an unknown assignment below
    fn, _ = N.inline_temps(fn, keep=allowed | {"k"})
    stmts = _with_body(fn)
    # every statement must be one of the forms consumed below (nothing else may touch the pipeline)
    asg = _assigns(stmts, fn.name)
    others = [s for s in stmts if not (isinstance(s, ast.Assign) and len(s.targets) == 1 and isinstance(s.targets[0], ast.Name))]
    if set(asg) - allowed:
        raise U("toeplitz_psf assigns %s" % sorted(set(asg) - allowed))
    for k in ("ndim", "new_shape", "new_coord", "idx", "d"):
        if len(asg.get(k, [])) != 1:
            raise U("toeplitz_psf: expected exactly one assignment to %s" % k)
    if len(asg.get("fft_axes", [])) > 1:
        raise U("toeplitz_psf: fft_axes assigned twice")
    if ast.unparse(asg["ndim"][0]) != "coord.shape[-1]":
        raise U("toeplitz_psf ndim: %s" % ast.unparse(asg["ndim"][0]))
    # order of the statements that matter: names are used only after they are final
    order = [ast.unparse(s.targets[0]) if isinstance(s, ast.Assign) else type(s).__name__ for s in stmts]
    order = [o for o in order if o not in ("xp", "fft_axes")]
    if order != ["ndim", "new_shape", "new_coord", "idx", "For", "d", "d[tuple(idx)]", "psf", "psf", "psf", "Return"]:
        raise U("toeplitz_psf statement sequence changed: %s" % order)
    if len(others) != 3:
        raise U("toeplitz_psf: unexpected statements")
    # --- embedding grid: new_shape = _get_oversamp_shape(shape, ndim, C1), new_coord = _scale_coord(coord, new_shape, C2)
    b = _bind_call(asg["new_shape"][0], f_osh)
    if not (isinstance(asg["new_shape"][0].func, ast.Name) and asg["new_shape"][0].func.id == "_get_oversamp_shape"):
        raise U("toeplitz_psf new_shape: %s" % ast.unparse(asg["new_shape"][0]))
    if ast.unparse(b["shape"]) != "shape" or ast.unparse(b["ndim"]) != "ndim":
        raise U("toeplitz_psf new_shape arguments: %s" % ast.unparse(asg["new_shape"][0]))
    s, t = E({}).tr(b["oversamp"])      # a numeric constant expression (no free names): the embedding factor
    c1 = T._cast(s, t, T.RAT)
    b = _bind_call(asg["new_coord"][0], f_sc)
    if not (isinstance(asg["new_coord"][0].func, ast.Name) and asg["new_coord"][0].func.id == "_scale_coord"):
        raise U("toeplitz_psf new_coord: %s" % ast.unparse(asg["new_coord"][0]))
    if ast.unparse(b["coord"]) != "coord" or ast.unparse(b["shape"]) != "new_shape":
        raise U("toeplitz_psf new_coord arguments: %s" % ast.unparse(asg["new_coord"][0]))
    s, t = E({}).tr(b["oversamp"])
    c2 = T._cast(s, t, T.RAT)
    out.append("/-- generated from `toeplitz_psf`: `new_shape = _get_oversamp_shape(shape, ndim, <this>)` -/\n"
               "def toepShapeOversamp : Rat := %s\n" % c1)
    out.append("/-- generated from `toeplitz_psf`: `new_coord = _scale_coord(coord, new_shape, <this>)` -/\n"
               "def toepCoordOversamp : Rat := %s\n" % c2)
    out.append("/-- generated from `toeplitz_psf`: length of one axis of the embedding grid `new_shape` -/\n"
               "def toepEmbedLen (n : Int) : Int := oversampLen toepShapeOversamp n\n")
    out.append("/-- generated from `toeplitz_psf`: `new_coord` for an image axis of length `n` (`_scale_coord` applied to\n"
               "    the EMBEDDING shape with the constant above) -/\n"
               "def toepScaleCoord (n : Int) (c : Rat) : Rat := scaleCoord toepCoordOversamp (toepEmbedLen n) c\n")
    # --- the delta: idx = [slice(None)] * len(new_shape); for k in <last ndim axes>: idx[k] = f(new_shape[k]);
    #     d = xp.zeros(new_shape, dtype=complex); d[tuple(idx)] = 1
    if ast.unparse(asg["idx"][0]) != "[slice(None)] * len(new_shape)":
        raise U("toeplitz_psf idx init: %s" % ast.unparse(asg["idx"][0]))
    loop = [s for s in others if isinstance(s, ast.For)]
    if len(loop) != 1 or loop[0].orelse or not isinstance(loop[0].target, ast.Name) or N._stores(fn, loop[0].target.id) != 1:
        raise U("toeplitz_psf delta loop")
    kv = loop[0].target.id

    def axes_def(ax, before, what):
        """an axes expression, or the name `fft_axes` assigned (once) before the statement that reads it"""
        if isinstance(ax, ast.Name) and ax.id == "fft_axes":
            if len(asg.get("fft_axes", [])) != 1:
                raise U("toeplitz_psf fft_axes")
            pos = [i for i, s in enumerate(stmts) if isinstance(s, ast.Assign) and ast.unparse(s.targets[0]) == "fft_axes"]
            if len(pos) != 1 or pos[0] >= stmts.index(before):
                raise U("toeplitz_psf: fft_axes read by %s before it is assigned" % what)
            return asg["fft_axes"][0]
        return ax

    if len(loop[0].body) != 1:
        raise U("toeplitz_psf delta loop body")
    st = loop[0].body[0]
    if not (isinstance(st, ast.Assign) and len(st.targets) == 1 and isinstance(st.targets[0], ast.Subscript)
            and isinstance(st.targets[0].value, ast.Name) and st.targets[0].value.id == "idx"
            and not isinstance(st.targets[0].slice, (ast.Slice, ast.Tuple))):
        raise U("toeplitz_psf delta loop body: %s" % ast.unparse(st))
    # `for k in <iter>: idx[<a(k)>] = f(new_shape[<a(k)>])`: the axes a(k) visited must be exactly the last ndim axes
    # (`for k in range(-1, -(ndim+1), -1): idx[k]`, `for k in range(1, ndim+1): idx[-k]`, `for k in fft_axes: idx[k]`, ..)
    axis = st.targets[0].slice
    it = axes_def(loop[0].iter, loop[0], "the delta loop")
    if N.loads(axis) - {kv, "ndim"}:
        raise U("toeplitz_psf delta loop axis %s" % ast.unparse(axis))
    visited = ast.ListComp(elt=copy.deepcopy(axis), generators=[ast.comprehension(
        target=ast.Name(id=kv, ctx=ast.Store()), iter=copy.deepcopy(it), ifs=[], is_async=0)])
    _axes_of(ast.fix_missing_locations(visited), "toeplitz_psf delta loop", bound=(kv,))
    axis_src = ast.dump(axis)
    sub = _Subst([(lambda n: isinstance(n, ast.Subscript) and isinstance(n.value, ast.Name) and n.value.id == "new_shape"
                   and isinstance(n.ctx, ast.Load) and ast.dump(n.slice) == axis_src, "m")])
    s, t = E({"m": T.INT}).tr(N.match_ref(sub.visit(copy.deepcopy(st.value)), REFS["delta"], ints=("m", )))
    if t != T.INT:
        raise U("toeplitz_psf delta index is not an int")
    out.append("/-- generated from `toeplitz_psf`: `idx[k] = <this>` with `m = new_shape[k]` (position of the unit sample) -/\n"
               "def toepDeltaIdx (m : Int) : Int := %s\n" % s)
    dz = asg["d"][0]
    if not (isinstance(dz, ast.Call) and ast.unparse(dz.func) in ("xp.zeros", "np.zeros") and len(dz.args) == 1
            and ast.unparse(dz.args[0]) == "new_shape" and [k.arg for k in dz.keywords] == ["dtype"]
            and ast.unparse(dz.keywords[0].value) in ("xp.complex64", "xp.complex128", "np.complex64", "np.complex128", "complex")):
        raise U("toeplitz_psf d: %s" % ast.unparse(dz))
    setd = [s for s in others if isinstance(s, ast.Assign)]
    if len(setd) != 1 or ast.unparse(setd[0]) != "d[tuple(idx)] = 1":
        raise U("toeplitz_psf delta assignment: %s" % [ast.unparse(s) for s in setd])
    # --- psf = nufft(d, new_coord, oversamp, width); psf = nufft_adjoint(psf, new_coord, d.shape, oversamp, width)
    p1, p2, p3 = asg["psf"]
    for call, name in ((p1, "nufft"), (p2, "nufft_adjoint")):
        if not (isinstance(call, ast.Call) and isinstance(call.func, ast.Name) and call.func.id == name):
            raise U("toeplitz_psf: expected a call of %s, found %s" % (name, ast.unparse(call)))
    got = _bound_src(p1, f_nufft)
    if got != {"input": "d", "coord": "new_coord", "oversamp": "oversamp", "width": "width"}:
        raise U("toeplitz_psf calls nufft with %s (the caller's oversamp and width must be passed on)" % got)
    got = _bound_src(p2, f_adj)
    if got.get("oshape") == "new_shape":
        got["oshape"] = "d.shape"   # d = zeros(new_shape): the same shape
    if got != {"input": "psf", "coord": "new_coord", "oshape": "d.shape", "oversamp": "oversamp", "width": "width"}:
        raise U("toeplitz_psf calls nufft_adjoint with %s (the caller's oversamp and width must be passed on)" % got)
    # --- psf = fft(psf, axes=fft_axes, norm=None) * 2 ** ndim
    if not (isinstance(p3, ast.BinOp) and isinstance(p3.op, ast.Mult)):
        raise U("toeplitz_psf final statement: %s" % ast.unparse(p3))
    call, fac = (p3.left, p3.right) if isinstance(p3.left, ast.Call) else (p3.right, p3.left)
    if not (isinstance(call, ast.Call) and isinstance(call.func, ast.Name) and call.func.id == "fft"):
        raise U("toeplitz_psf final statement: %s" % ast.unparse(p3))
    bf = _bind_call(call, f_fft)
    src = {k: ast.unparse(v) for k, v in bf.items()}
    if src.pop("center", "True") != "True" or src.pop("oshape", "None") != "None":
        raise U("toeplitz_psf final fft arguments: %s" % ast.unparse(call))
    if set(src) != {"input", "axes", "norm"} or src["input"] != "psf" or src["norm"] != "None":
        raise U("toeplitz_psf final fft arguments: %s (must be the unnormalised centred transform of psf)" % ast.unparse(call))
    last_psf = [s for s in stmts if isinstance(s, ast.Assign) and ast.unparse(s.targets[0]) == "psf"][-1]
    ax = axes_def(bf["axes"], last_psf, "the final fft")
    _axes_of(ax, "toeplitz_psf fft axes")
    g = _GExpr(ints=[], scalars=[], nats=["ndim"])
    fm = g.tr(fac)
    gen_hdr = "{α : Type} [Add α] [Sub α] [Mul α] [Div α] [IntCast α] [HPow α Nat α]"
    out.append("/-- generated from `toeplitz_psf`: the factor multiplied onto `fft(psf, axes=<last ndim axes>, norm=None)` -/\n"
               "def toepFinalMul %s (ndim : Nat) : α := %s\n" % (gen_hdr, fm))
    ret = [s for s in others if isinstance(s, ast.Return)]
    if len(ret) != 1 or ast.unparse(ret[0]) != "return psf":
        raise U("toeplitz_psf return")
    out.append("/-- `toeplitz_psf`: statement order, the unit sample `d[idx] = 1` on a complex zero array of the embedding shape,\n"
               "    `nufft(d, new_coord, oversamp, width)` then `nufft_adjoint(psf, new_coord, d.shape, oversamp, width)` with the\n"
               "    CALLER's oversamp / width, and the final unnormalised centred `fft` over the last `ndim` axes were checked\n"
               "    syntactically (arguments resolved against the signatures, positional or keyword) -/\n"
               "def toeplitzPsfChecked : Bool := true\n")

    # --- sigpy/linop.py: NUFFT stores and passes on oversamp / width; _normal_linop builds R^H F^H P F R
    ltree = _parse("sigpy/linop.py")
    init = T.find_function(ltree, "NUFFT.__init__")
    if [a.arg for a in init.args.args] != ["self", "ishape", "coord", "oversamp", "width", "toeplitz"]:
        raise U("NUFFT.__init__ signature")
    di = _defaults(init)
    if di.get("oversamp") != dn["oversamp"] or di.get("width") != dn["width"]:
        raise U("NUFFT.__init__ defaults %s differ from nufft's %s" % (di, dn))
    stored = {}
    for s in ast.walk(init):
        if isinstance(s, ast.Assign) and len(s.targets) == 1 and isinstance(s.targets[0], ast.Attribute) \
                and isinstance(s.targets[0].value, ast.Name) and s.targets[0].value.id == "self":
            stored.setdefault(s.targets[0].attr, []).append(ast.unparse(s.value))
    for k in ("coord", "oversamp", "width", "toeplitz"):
        if stored.get(k) != [k]:
            raise U("NUFFT.__init__ stores self.%s = %s" % (k, stored.get(k)))
    for cls, meth, target, fsig, want in (
            ("NUFFT", "_apply", "nufft", f_nufft, {"input": "input", "coord": "coord", "oversamp": "self.oversamp", "width": "self.width"}),
            ("NUFFTAdjoint", "_apply", "nufft_adjoint", f_adj,
             {"input": "input", "coord": "coord", "oshape": "self.oshape", "oversamp": "self.oversamp", "width": "self.width"})):
        m = T.find_function(ltree, "%s.%s" % (cls, meth))
        calls = [n for n in ast.walk(m) if isinstance(n, ast.Call) and ast.unparse(n.func) == "fourier." + target]
        if len(calls) != 1:
            raise U("%s.%s: expected one call of fourier.%s" % (cls, meth, target))
        got = _bound_src(calls[0], fsig)
        if got != want:
            raise U("%s.%s calls fourier.%s with %s" % (cls, meth, target, got))
        if "backend.to_device(self.coord, device)" != ast.unparse(T.find_assign(m, "coord")):
            raise U("%s.%s coord" % (cls, meth))
    nl = T.find_function(ltree, "NUFFT._normal_linop")
    # temporaries the pass does not know by name (`shape = psf.shape`, ..) are inlined; `return <product>` is `T = ..; return T`
    nl, _ = N.inline_temps(nl, keep=("ndim", "psf", "fft_axes", "R", "F", "P", "T"))
    st = _with_body(nl)
    if st and isinstance(st[-1], ast.Return) and st[-1].value is not None and not isinstance(st[-1].value, ast.Name) \
            and N._stores(nl, "T") == 0:
        st = st[:-1] + [ast.Assign(targets=[ast.Name(id="T", ctx=ast.Store())], value=st[-1].value, lineno=0),
                        ast.Return(value=ast.Name(id="T", ctx=ast.Load()))]
        for x in st[-2:]:
            ast.fix_missing_locations(x)
    if not st or not isinstance(st[0], ast.If) or st[0].orelse:
        raise U("NUFFT._normal_linop: first statement is not the toeplitz switch")
    test = ast.unparse(st[0].test)
    if test not in ("self.toeplitz is False", "not self.toeplitz", "self.toeplitz == False"):
        raise U("NUFFT._normal_linop toeplitz switch: %s" % test)
    if [ast.unparse(s) for s in st[0].body] != ["return self.H * self"]:
        raise U("NUFFT._normal_linop non-toeplitz branch: %s" % [ast.unparse(s) for s in st[0].body])
    rest = st[1:]
    la = _assigns(rest, "NUFFT._normal_linop")
    if [type(s).__name__ for s in rest] != ["Assign"] * (len(rest) - 1) + ["Return"] or any(len(v) != 1 for v in la.values()) \
            or set(la) != {"ndim", "psf", "fft_axes", "R", "F", "P", "T"} or len(rest) != 8:
        raise U("NUFFT._normal_linop statements: %s" % [ast.unparse(s)[:40] for s in rest])
    order = [s.targets[0].id for s in rest[:-1]]
    pos = {n: i for i, n in enumerate(order)}
    if not (pos["ndim"] < pos["fft_axes"] and pos["psf"] < min(pos["R"], pos["F"], pos["P"]) and pos["fft_axes"] < pos["F"]
            and max(pos["R"], pos["F"], pos["P"]) < pos["T"]):
        raise U("NUFFT._normal_linop statement order: %s" % order)
    if ast.unparse(la["ndim"][0]) != "self.coord.shape[-1]":
        raise U("NUFFT._normal_linop ndim")
    call = la["psf"][0]
    if not (isinstance(call, ast.Call) and ast.unparse(call.func) == "fourier.toeplitz_psf"):
        raise U("NUFFT._normal_linop psf: %s" % ast.unparse(call))
    got = _bound_src(call, fn)
    if got != {"coord": "self.coord", "shape": "self.ishape", "oversamp": "self.oversamp", "width": "self.width"}:
        raise U("NUFFT._normal_linop calls fourier.toeplitz_psf with %s (the operator's own oversamp and width must be passed)" % got)
    _axes_of(la["fft_axes"][0], "NUFFT._normal_linop fft_axes")
    for var, cls, want in (("R", "Resize", {"oshape": "psf.shape", "ishape": "self.ishape"}),
                           ("F", "FFT", {"shape": "psf.shape", "axes": "fft_axes"}),
                           ("P", "Multiply", {"ishape": "psf.shape", "mult": "psf"})):
        c = la[var][0]
        if not (isinstance(c, ast.Call) and isinstance(c.func, ast.Name) and c.func.id == cls):
            raise U("NUFFT._normal_linop %s: %s" % (var, ast.unparse(c)))
        got = _bound_src(c, T.find_function(ltree, cls + ".__init__"), method=True)
        if got.get("center") == "True":
            del got["center"]
        if got.get("conj") == "False":
            del got["conj"]
        if got != want:
            raise U("NUFFT._normal_linop %s = %s(%s)" % (var, cls, got))
    if ast.unparse(la["T"][0]) != "R.H * F.H * P * F * R":
        raise U("NUFFT._normal_linop T = %s" % ast.unparse(la["T"][0]))
    if ast.unparse(rest[-1]) != "return T":
        raise U("NUFFT._normal_linop return")
    # linop.FFT is the ORTHONORMAL centred transform: the 1/(embedding size) of the circulant diagonalisation comes from here
    fa = T.find_function(ltree, "FFT._apply")
    calls = [n for n in ast.walk(fa) if isinstance(n, ast.Call) and ast.unparse(n.func) == "fourier.fft"]
    if len(calls) != 1:
        raise U("FFT._apply")
    got = _bound_src(calls[0], f_fft)
    if got.pop("norm", _defaults(f_fft).get("norm")) != "'ortho'" or got != {"input": "input", "axes": "self.axes", "center": "self.center"}:
        raise U("FFT._apply calls fourier.fft with %s" % got)
    if _defaults(T.find_function(ltree, "FFT.__init__")).get("center") != "True":
        raise U("FFT.__init__ center default")
    out.append("/-- sigpy/linop.py: `NUFFT.__init__` stores `oversamp` / `width`; `NUFFT._apply` / `NUFFTAdjoint._apply` pass them to\n"
               "    `fourier.nufft` / `fourier.nufft_adjoint`; `NUFFT._normal_linop` (toeplitz branch) calls\n"
               "    `fourier.toeplitz_psf(self.coord, self.ishape, self.oversamp, self.width)` and returns `R.H * F.H * P * F * R` with\n"
               "    `R = Resize(psf.shape, self.ishape)`, `F = FFT(psf.shape, axes=<last ndim axes>)` (orthonormal, centred),\n"
               "    `P = Multiply(psf.shape, psf)` (checked syntactically, arguments resolved against the signatures) -/\n"
               "def toeplitzNormalChecked : Bool := true\n")


GENERATORS = {
    "InterpKernels": gen_interp_kernels,
    "NufftFormulas": gen_nufft_formulas,
    "InterpWrappers": gen_interp_wrappers,
}
