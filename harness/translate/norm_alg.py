"""Source-level normal forms (Python ast -> Python ast) applied by the C13 / C15 translators BEFORE they match
sigpy/alg.py.  The passes only rewrite spellings whose equivalence is decidable syntactically; everything else is
left exactly as it was written, so that the translator behind it still refuses it (a broken `translate:`
obligation, never a pass).  A semantic change is never absorbed: every pass preserves the value and the effects of
the function under the assumptions stated with it.

  resolve_keywords   `util.axpy(y=Y, a=A, x=X)` -> `util.axpy(Y, A, X)`: keywords of a call to a module-level function
                     of another sigpy module are put in the positional order of the callee's `def` (read from
                     /repo on every run).  An unknown keyword, a duplicate, a gap, *args/**kwargs, a decorated callee
                     or a locally rebound module name leaves the call unchanged.
  inline_helpers     `self._h(a, b)` / `_h(a, b)` where `_h` is a private method of the same class / a private
                     module-level function of the same file whose body is `[name = pure expr]* return <expr>`:
                     the body is substituted (arguments must be pure expressions).  Recursion, decorators,
                     *args/**kwargs, free names of the helper that the caller rebinds: unchanged.
  inline_temps       a local name bound exactly once by `name = <pure expr>` is substituted into its uses and the
                     assignment dropped, provided no statement between the binding and the last use can change what the
                     expression reads (no assignment to a name / attribute it reads, no in-place update, no call that is
                     not known to be pure) and all uses are in the same block (same `with` context), later in source
                     order.  Also covers a loop-invariant hoist: the whole loop then belongs to the checked region.
                     Names listed in `keep` (the locals a translator matches by name) are never inlined.
  done_expr          the body of a boolean `_done`: `[name = e]*`, `if/elif/else` whose branches `return`, and a final
                     `return e` become one expression; `c if c else e` / `True if c else e` -> `c or e`,
                     `e if c else False` / `e if c else c` -> `c and e`, `not` pushed inwards (De Morgan; comparisons of
                     INTEGER operands flipped, float comparisons kept under `not` because of NaN), nested `or`/`and`
                     flattened, comparisons oriented (smaller operand text on the left, `a >= b` == `b <= a` exactly),
                     operands of `or` / `and` sorted by their text (all operands are pure attribute reads in the
                     accepted subset, so order only matters for short-circuiting of pure terms).
"""
import ast
import copy
import os

from harness import common
from harness.translate import py2lean as T


def key(e):
    if isinstance(e, ast.Name):
        return e.id
    if isinstance(e, ast.Attribute) and isinstance(e.value, ast.Name) and e.value.id == "self":
        return "self." + e.attr
    return None


# ----------------------------------------------------------------------------------------------------
# purity
# ----------------------------------------------------------------------------------------------------
PURE_FUNCS = {"xp.linalg.norm": 1, "xp.real": 1, "xp.vdot": 2, "xp.abs": 1, "xp.absolute": 1}
PURE_NODES = (ast.Name, ast.Attribute, ast.Constant, ast.BinOp, ast.UnaryOp, ast.Compare, ast.BoolOp, ast.IfExp,
              ast.Call, ast.Load, ast.operator, ast.unaryop, ast.cmpop, ast.boolop)


def pure_call(c, model_pure=()):
    """'pure' | 'model' | None"""
    if c.keywords:
        return None
    if isinstance(c.func, ast.Attribute) and c.func.attr == "item" and not c.args and key(c.func) is None:
        return "pure"
    fs = ast.unparse(c.func)
    if fs in PURE_FUNCS and len(c.args) == PURE_FUNCS[fs]:
        return "pure"
    if key(c.func) in model_pure:
        return "model"
    return None


def is_pure(e, model_pure=()):
    """True / 'model' (pure given that the callables the translator models as functions are functions) / False"""
    level = True
    for n in ast.walk(e):
        if not isinstance(n, PURE_NODES):
            return False
        if isinstance(n, (ast.Name, ast.Attribute)) and not isinstance(n.ctx, ast.Load):
            return False
        if isinstance(n, ast.Call):
            p = pure_call(n, model_pure)
            if p is None:
                return False
            if p == "model":
                level = "model"
    return level


def reads(e):
    out = set()
    for n in ast.walk(e):
        if isinstance(n, ast.Name):
            out.add(n.id)
        k = key(n)
        if k is not None:
            out.add(k)
    return out


def eval_order(node):
    """expression nodes in (an over-approximation of) Python's evaluation order: operands before the operation"""
    out = []

    def go(n):
        for c in ast.iter_child_nodes(n):
            go(c)
        out.append(n)
    go(node)
    return out


# ----------------------------------------------------------------------------------------------------
# keyword -> positional
# ----------------------------------------------------------------------------------------------------
def _module_imports(tree):
    """local module alias -> repo-relative file, for `from sigpy import a, b`"""
    out = {}
    for n in tree.body:
        if isinstance(n, ast.ImportFrom) and n.module == "sigpy" and n.level == 0:
            for a in n.names:
                out[a.asname or a.name] = "sigpy/%s.py" % a.name
    return out


_SIG_CACHE = {}


def _signature(rel, fname):
    """positional parameter names and defaults of the module-level `def fname` in rel, or None"""
    path = os.path.join(common.REPO, rel)
    try:
        st = os.stat(path)
        ck = (path, st.st_mtime_ns, st.st_size)
        if ck not in _SIG_CACHE:
            with open(path) as f:
                _SIG_CACHE[ck] = ast.parse(f.read())
        tree = _SIG_CACHE[ck]
    except (OSError, SyntaxError):
        return None
    defs = [n for n in tree.body if isinstance(n, (ast.FunctionDef, ast.AsyncFunctionDef, ast.ClassDef)) and n.name == fname]
    binds = [n for n in ast.walk(tree) if isinstance(n, ast.Name) and n.id == fname and isinstance(n.ctx, ast.Store)]
    if len(defs) != 1 or binds or not isinstance(defs[0], ast.FunctionDef):
        return None
    return _sig_of(defs[0], skip_self=False)


def _sig_of(fd, skip_self):
    a = fd.args
    if fd.decorator_list or a.vararg or a.kwarg or a.kwonlyargs or a.posonlyargs:
        return None
    names = [x.arg for x in a.args]
    dflt = dict(zip(names[len(names) - len(a.defaults):], a.defaults))
    if skip_self:
        if not names or names[0] != "self":
            return None
        names = names[1:]
    return names, dflt


def _bind(call, names, dflt):
    """positional argument list of `call` against (names, defaults), or None"""
    if any(isinstance(a, ast.Starred) for a in call.args) or any(k.arg is None for k in call.keywords):
        return None
    if len(call.args) > len(names):
        return None
    got = dict(zip(names, call.args))
    for k in call.keywords:
        if k.arg in got or k.arg not in names:
            return None
        got[k.arg] = k.value
    out = []
    for n in names:
        if n in got:
            out.append(got[n])
        elif n in dflt and isinstance(dflt[n], ast.Constant):
            out.append(copy.deepcopy(dflt[n]))
        else:
            return None
    # trailing defaults that the caller did not pass stay implicit
    while len(out) > len(call.args) and names[len(out) - 1] not in got:
        out.pop()
    # python evaluates positional arguments, then keywords, each left to right: putting a keyword value in front of a
    # later-written positional one cannot happen (positionals are a prefix); keyword values keep their relative order
    # only if they were written in signature order or are pure
    kw_pos = [names.index(k.arg) for k in call.keywords]
    if kw_pos != sorted(kw_pos) and not all(is_pure(k.value) is True for k in call.keywords):
        return None
    return out


def _stored_names(fn):
    out = set()
    for n in ast.walk(fn):
        if isinstance(n, ast.Name) and isinstance(n.ctx, (ast.Store, ast.Del)):
            out.add(n.id)
        elif isinstance(n, ast.arg):
            out.add(n.arg)
        elif isinstance(n, (ast.Import, ast.ImportFrom)):
            for a in n.names:
                out.add((a.asname or a.name).split(".")[0])
        elif isinstance(n, (ast.Global, ast.Nonlocal)):
            out.update(n.names)
        elif isinstance(n, ast.ExceptHandler) and n.name:
            out.add(n.name)
    return out


def resolve_keywords(fn, tree):
    """returns a copy of fn with keyword arguments of calls `<sigpy module>.<function>(…)` made positional"""
    fn = copy.deepcopy(fn)
    mods = _module_imports(tree)
    local = _stored_names(fn)
    for n in ast.walk(fn):
        if isinstance(n, ast.Call) and n.keywords and isinstance(n.func, ast.Attribute) and isinstance(n.func.value, ast.Name) \
                and n.func.value.id in mods and n.func.value.id not in local:
            sig = _signature(mods[n.func.value.id], n.func.attr)
            if sig is None:
                continue
            args = _bind(n, *sig)
            if args is not None:
                n.args, n.keywords = args, []
    return fn


# ----------------------------------------------------------------------------------------------------
# substitution helpers
# ----------------------------------------------------------------------------------------------------
class _Subst(ast.NodeTransformer):
    def __init__(self, mapping):
        self.mapping = mapping
        self.count = 0

    def visit_Name(self, n):
        if isinstance(n.ctx, ast.Load) and n.id in self.mapping:
            self.count += 1
            return copy.deepcopy(self.mapping[n.id])
        return n


def _docless(body):
    return [s for s in body if not (isinstance(s, ast.Expr) and isinstance(s.value, ast.Constant))]


SCOPES = (ast.With, ast.AsyncWith, ast.Try, ast.FunctionDef, ast.AsyncFunctionDef, ast.Lambda, ast.ClassDef, ast.ListComp,
          ast.SetComp, ast.DictComp, ast.GeneratorExp) + ((ast.TryStar,) if hasattr(ast, "TryStar") else ())


# ----------------------------------------------------------------------------------------------------
# single-assignment temporaries
# ----------------------------------------------------------------------------------------------------
def _blocks(node):
    """every statement list inside node"""
    for n in ast.walk(node):
        for f in ("body", "orelse", "finalbody"):
            b = getattr(n, f, None)
            if isinstance(b, list) and b and isinstance(b[0], ast.stmt):
                yield b
        if isinstance(n, ast.Try) or (hasattr(ast, "TryStar") and isinstance(n, ast.TryStar)):
            for h in n.handlers:
                yield h.body


def _uses(node, name):
    return [n for n in ast.walk(node) if isinstance(n, ast.Name) and n.id == name and isinstance(n.ctx, ast.Load)]


def _region_ok(stmt, name, rd, model_pure, last):
    """may `stmt` sit between `name = rhs` and the last use of name (or be the statement of the last use) without
    changing what rhs (which reads `rd`) evaluates to at the uses inside / after it?"""
    simple_last = last and isinstance(stmt, (ast.Assign, ast.AugAssign, ast.Expr, ast.Return))
    for n in ast.walk(stmt):
        if isinstance(n, SCOPES) or isinstance(n, (ast.Delete, ast.Global, ast.Nonlocal, ast.Import, ast.ImportFrom, ast.NamedExpr,
                                                   ast.Yield, ast.YieldFrom, ast.Await, ast.Starred, ast.AnnAssign)):
            return False
        tgts = []
        if isinstance(n, ast.Assign):
            tgts = n.targets
        elif isinstance(n, ast.AugAssign):
            if not (simple_last and n is stmt):
                return False          # an in-place update may reach an array the expression reads through an alias
            tgts = [n.target]
        elif isinstance(n, ast.For):
            tgts = [n.target]
        for t in tgts:
            k = key(t)
            if k is None or k == name:
                return False
            if k in rd and not (simple_last and n is stmt and isinstance(n, ast.Assign)):
                return False
    if simple_last:
        # effects of a call happen after its operands are evaluated: every use must be evaluated before any call that is
        # not known to be pure
        root = stmt.value
        if root is None:
            return True
        order = eval_order(root)
        first_impure = None
        for i, n in enumerate(order):
            if isinstance(n, ast.Call) and pure_call(n, model_pure) is None:
                first_impure = i
                break
        if first_impure is not None:
            for i, n in enumerate(order):
                if isinstance(n, ast.Name) and n.id == name and isinstance(n.ctx, ast.Load) and i > first_impure:
                    return False
        return True
    for n in ast.walk(stmt):
        if isinstance(n, ast.Call) and pure_call(n, model_pure) is None:
            return False
    return True


def _try_inline(fn, name, keep, model_pure):
    binds = [n for n in ast.walk(fn) if isinstance(n, ast.Name) and n.id == name and isinstance(n.ctx, (ast.Store, ast.Del))]
    if len(binds) != 1 or name in keep:
        return False
    for blk in _blocks(fn):
        for i, st in enumerate(blk):
            if isinstance(st, ast.Assign) and len(st.targets) == 1 and st.targets[0] is binds[0]:
                break
        else:
            continue
        break
    else:
        return False
    rhs = st.value
    p = is_pure(rhs, model_pure)
    rd = reads(rhs)
    if not p or name in rd:
        return False
    all_uses = _uses(fn, name)
    later = [(j, s2, _uses(s2, name)) for j, s2 in enumerate(blk) if j > i]
    if sum(len(u) for _, _, u in later) != len(all_uses):
        return False            # a use outside the block of the binding (or before it)
    if p == "model" and len(all_uses) > 1:
        return False
    with_use = [j for j, _, u in later if u]
    if with_use:
        last = with_use[-1]
        for j, s2, _ in later:
            if j > last:
                break
            if not _region_ok(s2, name, rd, model_pure, j == last):
                return False
        sub = _Subst({name: rhs})
        for j, s2, u in later:
            if u:
                blk[j] = sub.visit(s2)
        if sub.count != len(all_uses):
            raise T.Unsupported("normaliser: substitution count for %s" % name)
    del blk[i]
    if not blk:
        blk.append(ast.copy_location(ast.Pass(), st))
    return True


def inline_temps(fn, keep=(), model_pure=()):
    """returns a copy of fn in which every inlinable single-assignment local not in `keep` is substituted"""
    fn = copy.deepcopy(fn)
    params = {a.arg for a in ast.walk(fn.args) if isinstance(a, ast.arg)}
    for _ in range(64):
        names = []
        for n in ast.walk(fn):
            if isinstance(n, ast.Name) and isinstance(n.ctx, ast.Store) and n.id not in names and n.id not in params:
                names.append(n.id)
        for nm in names:
            if _try_inline(fn, nm, keep, model_pure):
                break
        else:
            return fn
    return fn


# ----------------------------------------------------------------------------------------------------
# private helpers
# ----------------------------------------------------------------------------------------------------
def _helper_expr(fd, tree, cls, stack):
    """the single expression a private helper returns (after normalising its own body), or None"""
    fd = resolve_keywords(fd, tree)
    fd = _inline_helpers(fd, tree, cls, stack)
    fd = inline_temps(fd)
    body = _docless(fd.body)
    if len(body) != 1 or not isinstance(body[0], ast.Return) or body[0].value is None:
        return None
    e = body[0].value
    for n in ast.walk(e):
        if isinstance(n, SCOPES) or isinstance(n, (ast.NamedExpr, ast.Yield, ast.YieldFrom, ast.Await, ast.Starred)):
            return None
    return e


def _inline_helpers(fn, tree, cls, stack):
    fn = copy.deepcopy(fn)
    methods = {n.name: n for n in cls.body if isinstance(n, ast.FunctionDef)} if cls is not None else {}
    mod_funcs = {}
    for n in tree.body:
        if isinstance(n, ast.FunctionDef):
            mod_funcs[n.name] = None if n.name in mod_funcs else n
    local = _stored_names(fn)

    class Tr(ast.NodeTransformer):
        def visit_Call(self, c):
            self.generic_visit(c)
            f = c.func
            fd, is_method = None, False
            if isinstance(f, ast.Attribute) and isinstance(f.value, ast.Name) and f.value.id == "self" and f.attr in methods:
                fd, is_method = methods[f.attr], True
            elif isinstance(f, ast.Name) and mod_funcs.get(f.id) is not None and f.id not in local:
                fd = mod_funcs[f.id]
            if fd is None:
                return c
            nm = fd.name
            if not nm.startswith("_") or nm.startswith("__") or nm in ("_update", "_done") or nm in stack or len(stack) > 3:
                return c
            sig = _sig_of(fd, skip_self=is_method)
            if sig is None:
                return c
            names, dflt = sig
            args = _bind(c, names, dflt)
            if args is None:
                return c
            for n2 in names[len(args):]:
                if n2 in dflt and isinstance(dflt[n2], ast.Constant):
                    args.append(copy.deepcopy(dflt[n2]))
                else:
                    return c
            if not all(is_pure(a) is True for a in args):
                return c
            e = _helper_expr(fd, tree, cls if is_method else None, stack + (nm,))
            if e is None:
                return c
            # names of the helper body that are neither parameters nor `self` are module globals / builtins: they must
            # mean the same thing at the call site
            free = {n.id for n in ast.walk(e) if isinstance(n, ast.Name)} - set(names) - {"self"}
            if free & local or (not is_method and "self" in free):
                return c
            if any(isinstance(n, ast.Name) and n.id in names and not isinstance(n.ctx, ast.Load) for n in ast.walk(e)):
                return c
            return ast.copy_location(_Subst(dict(zip(names, args))).visit(copy.deepcopy(e)), c)
    return Tr().visit(fn)


def inline_helpers(fn, tree, cls_name=None):
    cls = None
    if cls_name is not None:
        cs = [n for n in tree.body if isinstance(n, ast.ClassDef) and n.name == cls_name]
        cls = cs[0] if len(cs) == 1 else None
    return _inline_helpers(fn, tree, cls, (fn.name,))


def normalise_update(tree, cls_name, fn, keep=(), model_pure=(), temps=True):
    """keywords -> positional, private helpers substituted, then (if `temps`) temporaries inlined"""
    fn = resolve_keywords(fn, tree)
    fn = inline_helpers(fn, tree, cls_name)
    fn = resolve_keywords(fn, tree)
    if temps:
        fn = inline_temps(fn, keep=keep, model_pure=model_pure)
    ast.fix_missing_locations(fn)
    return fn


# ----------------------------------------------------------------------------------------------------
# boolean `_done`
# ----------------------------------------------------------------------------------------------------
def _const(e, v):
    return isinstance(e, ast.Constant) and e.value is v


def _same(a, b):
    return ast.dump(a) == ast.dump(b)


FLIP = {ast.Lt: ast.Gt, ast.Gt: ast.Lt, ast.LtE: ast.GtE, ast.GtE: ast.LtE, ast.Eq: ast.Eq, ast.NotEq: ast.NotEq}
NEG = {ast.Lt: ast.GtE, ast.GtE: ast.Lt, ast.Gt: ast.LtE, ast.LtE: ast.Gt, ast.Eq: ast.NotEq, ast.NotEq: ast.Eq}


class DoneNorm:
    def __init__(self, int_attrs):
        self.int_attrs = set(int_attrs)

    def is_int(self, e):
        if isinstance(e, ast.Constant):
            return isinstance(e.value, int) and not isinstance(e.value, bool)
        k = key(e)
        return k is not None and k.startswith("self.") and k[5:] in self.int_attrs

    def body_expr(self, cls_name, stmts, env=None):
        env = dict(env or {})
        stmts = _docless(stmts)
        for i, s in enumerate(stmts):
            if isinstance(s, ast.Assign) and len(s.targets) == 1 and isinstance(s.targets[0], ast.Name):
                env[s.targets[0].id] = _Subst(env).visit(copy.deepcopy(s.value))
                continue
            if isinstance(s, ast.Return):
                if s.value is None or stmts[i + 1:]:
                    raise T.Unsupported("%s._done: bare return / code after return" % cls_name)
                return _Subst(env).visit(copy.deepcopy(s.value))
            if isinstance(s, ast.If):
                rest = stmts[i + 1:]
                t = _Subst(env).visit(copy.deepcopy(s.test))
                a = self.body_expr(cls_name, s.body + ([] if self.returns(s.body) else rest), env)
                b = self.body_expr(cls_name, s.orelse + ([] if self.returns(s.orelse) else rest), env)
                if rest and self.returns(s.body) and self.returns(s.orelse):
                    raise T.Unsupported("%s._done: code after an if whose branches all return" % cls_name)
                return ast.IfExp(test=t, body=a, orelse=b)
            if isinstance(s, ast.Pass):
                continue
            raise T.Unsupported("%s._done statement %s" % (cls_name, ast.dump(s)[:60]))
        raise T.Unsupported("%s._done does not end in `return <expr>`" % cls_name)

    def returns(self, stmts):
        """every path through stmts ends in a return"""
        stmts = _docless(stmts)
        if not stmts:
            return False
        s = stmts[-1]
        if isinstance(s, ast.Return):
            return True
        if isinstance(s, ast.If):
            return self.returns(s.body) and self.returns(s.orelse)
        return False

    def neg(self, e):
        if isinstance(e, ast.UnaryOp) and isinstance(e.op, ast.Not):
            return self.nf(e.operand)
        if isinstance(e, ast.BoolOp):
            return self.nf(ast.BoolOp(op=ast.And() if isinstance(e.op, ast.Or) else ast.Or(), values=[self.neg(v) for v in e.values]))
        if isinstance(e, ast.Compare) and len(e.ops) == 1 and type(e.ops[0]) in NEG and self.is_int(e.left) and self.is_int(e.comparators[0]):
            return self.nf(ast.Compare(left=e.left, ops=[NEG[type(e.ops[0])]()], comparators=e.comparators))
        if _const(e, True):
            return ast.Constant(value=False)
        if _const(e, False):
            return ast.Constant(value=True)
        return ast.UnaryOp(op=ast.Not(), operand=self.nf(e))

    def nf(self, e):
        if isinstance(e, ast.UnaryOp) and isinstance(e.op, ast.Not):
            return self.neg(e.operand)
        if isinstance(e, ast.IfExp):
            c, a, b = self.nf(e.test), self.nf(e.body), self.nf(e.orelse)
            if isinstance(c, ast.UnaryOp) and isinstance(c.op, ast.Not):
                c, a, b = c.operand, b, a
            a_true, a_false = _const(a, True) or _same(a, c), _const(a, False)
            b_false, b_true = _const(b, False) or _same(b, c), _const(b, True)
            if a_true and b_false:
                return c
            if a_false and b_true:
                return self.neg(c)
            if a_true:
                return self.nf(ast.BoolOp(op=ast.Or(), values=[c, b]))
            if b_false:
                return self.nf(ast.BoolOp(op=ast.And(), values=[c, a]))
            if a_false:
                return self.nf(ast.BoolOp(op=ast.And(), values=[self.neg(c), b]))
            if b_true:
                return self.nf(ast.BoolOp(op=ast.Or(), values=[self.neg(c), a]))
            return ast.IfExp(test=c, body=a, orelse=b)
        if isinstance(e, ast.BoolOp):
            vals = []
            for v in e.values:
                v = self.nf(v)
                if isinstance(v, ast.BoolOp) and type(v.op) is type(e.op):
                    vals.extend(v.values)
                else:
                    vals.append(v)
            uniq = []
            for v in vals:
                if not any(_same(v, u) for u in uniq):
                    uniq.append(v)
            uniq.sort(key=lambda v: ast.unparse(v))
            if len(uniq) == 1:
                return uniq[0]
            return ast.BoolOp(op=e.op, values=uniq)
        if isinstance(e, ast.Compare) and len(e.ops) == 1 and type(e.ops[0]) in FLIP:
            l, r = e.left, e.comparators[0]
            if ast.unparse(l) > ast.unparse(r):
                return ast.Compare(left=r, ops=[FLIP[type(e.ops[0])]()], comparators=[l])
            return e
        return e


def done_expr(cls_name, fn, int_attrs):
    """the boolean `_done` body as ONE normalised expression (see the module docstring)"""
    d = DoneNorm(int_attrs)
    e = d.nf(d.body_expr(cls_name, fn.body))
    return ast.fix_missing_locations(e)
