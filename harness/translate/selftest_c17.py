"""Self-test of the C17 normaliser + translators (not part of `./check`): harmless spellings of EspiritCalib must regenerate
Gen/EspiritFormulas.lean and Gen/EspiritSteps.lean byte-identically, breaking edits must change them or be refused.

  git -C /repo worktree add --detach /tmp/wt HEAD
  SELFTEST_WT=/tmp/wt python3 -m harness.translate.selftest_c17 [-v] [names...]
  git -C /repo worktree remove --force /tmp/wt
"""
import subprocess, sys, os, json
WT = os.environ.get("SELFTEST_WT", "/tmp/wt-selftest-c17")
VERIF = os.path.dirname(os.path.dirname(os.path.dirname(os.path.abspath(__file__))))
APP = WT + "/sigpy/mri/app.py"
clean = subprocess.run(["git", "-C", "/repo", "show", "HEAD:sigpy/mri/app.py"], stdout=subprocess.PIPE, text=True).stdout

MATBLOCK = '''            mat = sp.array_to_blocks(
                calib, [kernel_width] * img_ndim, [1] * img_ndim
            )
            mat = mat.reshape([num_coils, -1, kernel_width**img_ndim])
            mat = mat.transpose([1, 0, 2])
            mat = mat.reshape([-1, num_coils * kernel_width**img_ndim])
'''
assert MATBLOCK in clean
HELPER = '''def _espirit_calib_matrix(calib, num_coils, kernel_width, img_ndim):
    """doc"""
    mat = sp.array_to_blocks(calib, [kernel_width] * img_ndim, [1] * img_ndim)
    mat = mat.reshape([num_coils, -1, kernel_width**img_ndim])
    mat = mat.transpose([1, 0, 2])
    mat = mat.reshape([-1, num_coils * kernel_width**img_ndim])
    return mat


'''
def helper(body=HELPER, call="            mat = _espirit_calib_matrix(calib, num_coils, kernel_width, img_ndim)\n"):
    return lambda s: s.replace("class EspiritCalib(sp.app.App):", body + "class EspiritCalib(sp.app.App):").replace(MATBLOCK, call)

METH = '''
    def _calib_matrix(self, calib, nc, kw, nd):
        m = sp.array_to_blocks(calib, [kw] * nd, [1] * nd)
        m = m.reshape([nc, -1, kw**nd])
        m = m.transpose([1, 0, 2])
        m = m.reshape([-1, nc * kw**nd])
        return m
'''
def method(s):
    s = s.replace(MATBLOCK, "            mat = self._calib_matrix(calib, num_coils, nd=img_ndim, kw=kernel_width)\n")
    i = s.index("class SenseRecon") if "class SenseRecon" in s else None
    j = s.index("    def _output(self):", s.index("class EspiritCalib"))
    return s[:j] + METH.lstrip("\n") + "\n" + s[j:]

def rep(*pairs):
    def f(s):
        for a, b in pairs:
            assert a in s, a
            s = s.replace(a, b)
        return s
    return f

V = {
 # ---------------- harmless
 "H1-helper": (True, helper()),
 "H2-method-kw": (True, method),
 "H3-helper-renamed-locals": (True, helper(HELPER.replace("mat", "m").replace("_espirit_calib_mrix", "_espirit_calib_matrix").replace("num_coils", "nc").replace("kernel_width", "kw"))),
 "H4-keywords": (True, rep(("calib, [kernel_width] * img_ndim, [1] * img_ndim", "calib, blk_strides=[1] * img_ndim, blk_shape=[kernel_width] * img_ndim"),
                          ("sp.resize(ksp, calib_shape)", "sp.resize(ksp, oshape=calib_shape)"),
                          ("xp.expand_dims(img_kernel.T, axis=-1)", "xp.expand_dims(img_kernel.T, -1)"),
                          ("forward, self.mps, norm_func=normalize, max_iter=max_iter", "forward, self.mps, max_iter=max_iter, norm_func=normalize"),
                          ("super().__init__(alg, show_pbar=show_pbar)", "super().__init__(alg, show_pbar)"),
                          ("xp.linalg.svd(mat, full_matrices=False)", "xp.linalg.svd(mat, False)"),
                          ("xp.sum(xp.abs(x) ** 2, axis=-2, keepdims=True)", "xp.sum(xp.abs(x) ** 2, -2, keepdims=True)"))),
 "H5-commuted": (True, rep(("calib, [kernel_width] * img_ndim, [1] * img_ndim", "calib, img_ndim * [kernel_width], img_ndim * [1]"),
                          ("[-1, num_coils * kernel_width**img_ndim]", "[-1, kernel_width**img_ndim * num_coils]"),
                          ("img_ndim = ksp.ndim - 1", "img_ndim = -1 + ksp.ndim"),
                          ("VH[S > thresh * S.max(), :]", "VH[S.max() * thresh < S, :]"),
                          ("mps *= max_eig > self.crop", "mps *= self.crop < max_eig"))),
 "H6-hoists": (True, rep(("            mat = mat.reshape([num_coils, -1, kernel_width**img_ndim])", "            kd = kernel_width**img_ndim\n            mat = mat.reshape([num_coils, -1, kd])"),
                        ("[-1, num_coils * kernel_width**img_ndim]", "[-1, num_coils * kd]"),
                        ("            for kernel in kernels:", "            scale = sp.prod(img_shape) / kernel_width**img_ndim\n            axes = range(-img_ndim, 0)\n            for kernel in kernels:"),
                        ("axes=range(-img_ndim, 0)", "axes=axes"),
                        ("AHA *= sp.prod(img_shape) / kernel_width**img_ndim", "AHA *= scale"),
                        ("                    return (\n                        xp.sum(xp.abs(x) ** 2, axis=-2, keepdims=True) ** 0.5\n                    )",
                         "                    sq = xp.abs(x) ** 2\n                    return xp.sum(sq, axis=-2, keepdims=True) ** 0.5"),
                        ("            mps *= xp.conj(mps[0] / xp.abs(mps[0]))", "            m0 = mps[0]\n            mps *= xp.conj(m0 / xp.abs(m0))"))),
 "H7-negated-guard": (True, rep(("        if self.output_eigenvalue:\n            return mps, max_eig\n        else:\n            return mps",
                               "        if not self.output_eigenvalue:\n            return mps\n        return mps, max_eig"))),
 "H8-ternary": (True, rep(("        if self.output_eigenvalue:\n            return mps, max_eig\n        else:\n            return mps",
                         "        return (mps, max_eig) if self.output_eigenvalue else mps"))),
 "H9-expr-helper": (True, lambda s: rep(("AHA *= sp.prod(img_shape) / kernel_width**img_ndim", "AHA *= _gram_scale(img_shape, kernel_width, img_ndim)"))(
     s.replace("class EspiritCalib(sp.app.App):", "def _gram_scale(shape, kw, nd):\n    return sp.prod(shape) / kw**nd\n\n\nclass EspiritCalib(sp.app.App):"))),
 "H10-known-temps-dropped": (True, rep(("            calib_shape = [num_coils] + [calib_width] * img_ndim\n", ""), ("sp.resize(ksp, calib_shape)", "sp.resize(ksp, [num_coils] + [calib_width] * img_ndim)"),
                                       ("            num_kernels = len(VH)\n", ""), ("[num_kernels, num_coils]", "[len(VH), num_coils]"))),
 "B15-calib-shape-wrong": (False, rep(("calib_shape = [num_coils] + [calib_width] * img_ndim", "calib_shape = [num_coils] + [calib_width + 1] * img_ndim"))),
 "B16-img-shape-stale": (False, rep(("            img_shape = ksp.shape[1:]", "            img_shape = ksp.shape[1:]\n            ksp = ksp[:, ::2]"))),
 "B17-scale-wrong-shape": (False, rep(("AHA *= sp.prod(img_shape)", "AHA *= sp.prod(ksp.shape)"))),
 "B18-helper-rebound": (False, helper(HELPER + "_espirit_calib_matrix = lambda *a: 0\n\n\n")),
 "B19-swapaxes-keywords-typeerror": (False, rep(("aH.swapaxes(-1, -2)", "aH.swapaxes(axis1=-1, axis2=-2)"))),
 # ---------------- breaking: the generated definitions must change, or the translator must refuse
 "B1-helper-kw+1": (False, helper(HELPER.replace("[num_coils, -1, kernel_width**img_ndim]", "[num_coils, -1, (kernel_width + 1)**img_ndim]"))),
 "B2-helper-perm": (False, helper(HELPER.replace("[1, 0, 2]", "[0, 1, 2]"))),
 "B3-helper-args-swapped": (False, helper(call="            mat = _espirit_calib_matrix(calib, kernel_width, num_coils, img_ndim)\n")),
 "B4-flip-wrong": (False, rep(("mps *= max_eig > self.crop", "mps *= self.crop <= max_eig"))),
 "B5-helper-side-effect": (False, helper(HELPER.replace("    return mat\n", "    calib[..., 0] = 0\n    return mat\n"))),
 "B6-helper-recursive": (False, helper(HELPER.replace("    return mat\n", "    return _espirit_calib_matrix(mat, num_coils, kernel_width, img_ndim)\n"))),
 "B7-kw-swapped": (False, rep(("calib, [kernel_width] * img_ndim, [1] * img_ndim", "calib, blk_strides=[kernel_width] * img_ndim, blk_shape=[1] * img_ndim"))),
 "B8-hoist-stale": (False, rep(("            mps *= xp.conj(mps[0] / xp.abs(mps[0]))", "            t = xp.abs(mps[0])\n            mps *= 2\n            mps *= xp.conj(mps[0] / t)"))),
 "B9-hoist-wrong": (False, rep(("            mat = mat.reshape([num_coils, -1, kernel_width**img_ndim])", "            kd = kernel_width**img_ndim + 1\n            mat = mat.reshape([num_coils, -1, kd])"))),
 "B10-helper-with-raise": (False, helper(HELPER.replace('    """doc"""\n', '    if kernel_width < 1:\n        raise ValueError("x")\n'))),
 "B11-method-overrides-hook": (False, lambda s: s.replace("    def _output(self):", "    def _pre_update(self):\n        self.mps *= 0\n\n    def _output(self):", 1) if False else
                               (lambda j: s[:j] + "    def _pre_update(self):\n        self.mps *= 0\n\n" + s[j:])(s.index("    def _output(self):", s.index("class EspiritCalib")))),
 "B12-helper-extra-scale": (False, lambda s: rep(("AHA *= sp.prod(img_shape) / kernel_width**img_ndim", "AHA *= _gram_scale(img_shape, kernel_width, img_ndim)"))(
     s.replace("class EspiritCalib(sp.app.App):", "def _gram_scale(shape, kw, nd):\n    return sp.prod(shape) / kw**(nd + 1)\n\n\nclass EspiritCalib(sp.app.App):"))),
 "B13-positional-max_iter-dropped": (False, rep(("forward, self.mps, norm_func=normalize, max_iter=max_iter", "forward, self.mps, normalize"))),
 "B14-demorgan-wrong-guard": (False, rep(("        if self.output_eigenvalue:\n            return mps, max_eig\n        else:\n            return mps",
                               "        if not self.output_eigenvalue:\n            return mps, max_eig\n        return mps"))),
}

GEN = r'''import sys, os
sys.path.insert(0, os.getcwd())
from harness.translate import gen_c17 as g
import subprocess
for name, fn in (("EspiritFormulas", g.gen_espirit), ("EspiritSteps", g.gen_espirit_steps)):
    try:
        txt = fn()
    except Exception as e:
        print(name, "FAIL", repr(e)); continue
    base = subprocess.run(["git", "-C", os.getcwd(), "show", "HEAD:lean/SigpyVerif/Gen/%s.lean" % name], stdout=subprocess.PIPE, text=True).stdout
    print(name, "identical" if txt == base else "DIFFERENT")
    if txt != base:
        import difflib
        print("".join(list(difflib.unified_diff(base.splitlines(1), txt.splitlines(1)))[:60]))
'''


def run(name):
    ok, f = V[name]
    open(APP, "w").write(f(clean))
    r = subprocess.run([sys.executable, "-c", GEN], cwd=VERIF, env=dict(os.environ, SIGPY_REPO=WT), stdout=subprocess.PIPE, stderr=subprocess.STDOUT, text=True)
    lines = [l for l in r.stdout.splitlines() if l.startswith("Espirit")]
    quiet = all(l.endswith("identical") for l in lines) and len(lines) == 2
    print("%-34s expected %-8s got %-8s %s" % (name, "quiet" if ok else "alarm", "quiet" if quiet else "alarm", "" if quiet == ok else "<<<<<< MISMATCH"))
    if quiet != ok or "-v" in sys.argv:
        print(r.stdout[:1500])

if __name__ == "__main__":
    names = [a for a in sys.argv[1:] if not a.startswith("-")] or list(V)
    for n in names:
        run(n)
    open(APP, "w").write(clean)
