"""Behaviour-preserving AST normalisation passes used by gen_c14.py and gen_c16.py BEFORE their matchers /
symbolic executors look at the source (new file; nothing else imports it).

A maintainer can spell the same computation in several ways; these passes bring the neighbouring spellings back
to the one the translators were written against.  Every pass is FAIL-CLOSED: where its side conditions are not
met the code is left exactly as it is, so the translator proper still sees (and refuses) the unknown construct;
no pass ever drops a statement, an argument or a guard.

  inline_helpers   calls of small private helpers defined in the same file (`_name(..)` at module level,
                   `self._name(..)` in the same class): the body is substituted at the call site.
                     * arguments are resolved against the helper's signature (positional, keyword, constant
                       defaults); `*args`, `**kw`, keyword-only parameters, decorators, recursion: refused
                     * helper locals (and parameters the helper re-binds) are renamed to fresh `_inl<k>_name`
                     * an argument that is not an atom (name, constant, `self.attr`) is bound to a fresh temporary
                       first (statement form) or must be used exactly once (expression form)
                     * a free name of the helper that the caller binds locally would be captured: refused
                     * `x = h(..)`, `return h(..)`, `h(..)` as statements accept a body of assignments / `if` / `with`
                       with `return` on the paths (an early `return` turns the rest into the `else` side);
                       a call nested in a larger expression needs a helper that is one `return <expr>`
  loops_to_comprehensions
                   `L = []` … `for t in it: L.append(e)`  ->  `L = [e for t in it]`  (same iteration order; `L` not
                   mentioned in between, `t` not used outside the loop)
  reversed_range   `reversed(range(n))` -> `range(n - 1, -1, -1)`
  push_not         `not (a is None)` -> `a is not None`, `not (a == b)` -> `a != b`, `not (a in b)`, De Morgan over
                   and/or (same short-circuit order, same truth value), `not not a` in a test position;
                   `if not c: A else: B` -> `if c: B else: A`
  inline_temps     single-assignment temporaries whose name is not in the translator's `keep` list:
                     * a call-free arithmetic/attribute right-hand side is substituted into all later uses of the
                       same block provided nothing it reads is re-bound in between
                     * any other right-hand side only into its single use in the IMMEDIATELY following statement,
                       at a position evaluated exactly once
  canon_call       positional <-> keyword arguments against a given signature: the first `npos` parameters
                   positional, the rest by keyword (in signature order)
"""
import ast
import copy

MAX_DEPTH = 4          # nesting of helper calls inside helpers
MAX_BODY = 12          # statements of a helper that is substituted


class _Refuse(Exception):
    pass


def _is_doc(st):
    return isinstance(st, ast.Expr) and isinstance(st.value, ast.Constant) and isinstance(st.value.value, str)


def _is_atom(e):
    if isinstance(e, (ast.Name, ast.Constant)):
        return True
    return isinstance(e, ast.Attribute) and isinstance(e.value, ast.Name) and e.value.id == "self"


def _names(node, ctx):
    return [n.id for n in ast.walk(node) if isinstance(n, ast.Name) and isinstance(n.ctx, ctx)]


def _bound_names(fn):
    """every name the function binds: parameters, assignment / for / with / comprehension targets, nested defs"""
    out = set()
    for n in ast.walk(fn):
        if isinstance(n, ast.arg):
            out.add(n.arg)
        elif isinstance(n, ast.Name) and isinstance(n.ctx, (ast.Store, ast.Del)):
            out.add(n.id)
        elif isinstance(n, (ast.FunctionDef, ast.ClassDef)) and n is not fn:
            out.add(n.name)
        elif isinstance(n, ast.ExceptHandler) and n.name:
            out.add(n.name)
        elif isinstance(n, ast.alias):
            out.add((n.asname or n.name).split(".")[0])
    return out


class _Rename(ast.NodeTransformer):
    def __init__(self, ren, sub):
        self.ren, self.sub = ren, sub     # local name -> fresh name;  parameter name -> argument expression

    def visit_Name(self, n):
        if n.id in self.ren:
            return ast.copy_location(ast.Name(id=self.ren[n.id], ctx=n.ctx), n)
        if n.id in self.sub:
            if not isinstance(n.ctx, ast.Load):
                raise _Refuse("store to a substituted parameter")
            return copy.deepcopy(self.sub[n.id])
        return n

    def visit_arg(self, n):
        if n.arg in self.ren or n.arg in self.sub:
            raise _Refuse("a nested function / lambda re-binds a helper name")
        return n


def module_helpers(tree, exclude=()):
    """private module-level functions `_name` (not dunder)"""
    return {n.name: n for n in tree.body if isinstance(n, ast.FunctionDef) and n.name.startswith("_")
            and not n.name.startswith("__") and n.name not in exclude}


def class_helpers(cls, exclude=()):
    """private methods `_name(self, ..)` of a class (not dunder)"""
    return {n.name: n for n in cls.body if isinstance(n, ast.FunctionDef) and n.name.startswith("_")
            and not n.name.startswith("__") and n.name not in exclude}


class _Inliner:
    def __init__(self, caller, helpers, method, exclude_prefix=()):
        self.caller, self.helpers, self.method = caller, helpers, method
        self.exclude_prefix = tuple(exclude_prefix)
        self.bound = _bound_names(caller)
        self.k = 0
        self.count = 0

    # ---- which calls ---------------------------------------------------------------------------
    def helper_of(self, call):
        if not isinstance(call, ast.Call):
            return None
        f = call.func
        if self.method:
            if isinstance(f, ast.Attribute) and isinstance(f.value, ast.Name) and f.value.id == "self":
                name = f.attr
            else:
                return None
        else:
            if not isinstance(f, ast.Name):
                return None
            name = f.id
        if name not in self.helpers or name.startswith(self.exclude_prefix) and self.exclude_prefix:
            return None
        if name == self.caller.name:
            return None
        return self.helpers[name]

    # ---- binding the arguments -----------------------------------------------------------------
    def bind(self, call, h):
        a = h.args
        if a.vararg or a.kwarg or a.kwonlyargs or getattr(a, "posonlyargs", None) or h.decorator_list:
            raise _Refuse("signature")
        params = [p.arg for p in a.args]
        if self.method:
            if not params or params[0] != "self":
                raise _Refuse("method without self")
            params = params[1:]
        defaults = dict(zip(params[len(params) - len(a.defaults):], a.defaults)) if a.defaults else {}
        if any(isinstance(x, ast.Starred) for x in call.args) or any(k.arg is None for k in call.keywords):
            raise _Refuse("star arguments")
        if len(call.args) > len(params):
            raise _Refuse("too many arguments")
        got = dict(zip(params, call.args))
        for k in call.keywords:
            if k.arg not in params or k.arg in got:
                raise _Refuse("keyword")
            got[k.arg] = k.value
        for p_ in params:
            if p_ not in got:
                d = defaults.get(p_)
                if not isinstance(d, ast.Constant):
                    raise _Refuse("missing argument / non-constant default")
                got[p_] = d
        # arguments are evaluated in CALL order (positional, then keywords as written)
        order = [p_ for p_ in params[:len(call.args)]] + [k.arg for k in call.keywords]
        order += [p_ for p_ in params if p_ not in order]
        return params, got, order

    def prepare(self, call, h, stack, statement_form):
        if h.name in stack or len(stack) >= MAX_DEPTH:
            raise _Refuse("recursion")
        body = [s for s in h.body if not _is_doc(s)]
        if not body or len(body) > MAX_BODY:
            raise _Refuse("helper size")
        for n in ast.walk(h):
            if isinstance(n, (ast.Global, ast.Nonlocal, ast.Yield, ast.YieldFrom, ast.Await, ast.Try, ast.While,
                              ast.ClassDef, ast.Delete, ast.Import, ast.ImportFrom, ast.Lambda, ast.NamedExpr)):
                # (a lambda parameter could capture a substituted caller name)
                raise _Refuse("helper statement kind %s" % type(n).__name__)
            if isinstance(n, ast.FunctionDef) and n is not h:
                raise _Refuse("nested function in helper")
        params, got, order = self.bind(call, h)
        stores = set(_names(h, ast.Store))
        attr_store = any(isinstance(n, ast.Attribute) and isinstance(n.ctx, ast.Store) for n in ast.walk(h))
        free = set(_names(h, ast.Load)) - set(params) - stores - {"self"}
        if free & self.bound:
            raise _Refuse("the caller binds %s, which the helper reads as a global" % sorted(free & self.bound))
        self.k += 1
        pre = "_inl%d_" % self.k
        ren = {v: pre + v for v in stores}
        sub, prelude = {}, []
        uses = {}
        for n in ast.walk(h):
            if isinstance(n, ast.Name) and isinstance(n.ctx, ast.Load):
                uses[n.id] = uses.get(n.id, 0) + 1
        for p_ in order:
            arg = got[p_]
            atom = _is_atom(arg) and not (isinstance(arg, ast.Attribute) and attr_store)
            if p_ in stores:
                prelude.append((p_, arg))          # the helper re-binds its parameter: it is a local
            elif atom:
                sub[p_] = arg
            elif statement_form:
                ren[p_] = pre + p_
                prelude.append((p_, arg))
            else:
                if uses.get(p_, 0) != 1:
                    raise _Refuse("non-atomic argument used %d times" % uses.get(p_, 0))
                sub[p_] = arg
        if prelude and not statement_form:
            raise _Refuse("helper re-binds a parameter")
        pre_stmts = [ast.Assign(targets=[ast.Name(id=ren[p_], ctx=ast.Store())], value=copy.deepcopy(arg), lineno=call.lineno)
                     for p_, arg in prelude]
        rn = _Rename(ren, sub)
        new_body = [rn.visit(copy.deepcopy(s)) for s in body]
        return pre_stmts, new_body

    # ---- expression form ------------------------------------------------------------------------
    def expr_form(self, call, stack):
        h = self.helper_of(call)
        pre, body = self.prepare(call, h, stack, False)
        if pre or len(body) != 1 or not isinstance(body[0], ast.Return) or body[0].value is None:
            raise _Refuse("helper is not a single `return <expr>`")
        return self.rewrite_expr(body[0].value, stack + [h.name])

    def rewrite_expr(self, e, stack):
        me = self

        class R(ast.NodeTransformer):
            def visit_Call(self, n):
                n = self.generic_visit(n)
                if me.helper_of(n) is not None:
                    try:
                        out = me.expr_form(n, stack)
                        me.count += 1
                        return ast.copy_location(out, n)
                    except _Refuse:
                        return n
                return n

            def visit_Lambda(self, n):
                return n          # evaluated later / repeatedly: leave alone

        return R().visit(e)

    # ---- statement form -------------------------------------------------------------------------
    def convert(self, stmts, emit, value_mode):
        """body of a helper -> statements with every `return v` replaced by `emit(v)`"""
        out = []
        for i, st in enumerate(stmts):
            if isinstance(st, ast.Return):
                if st.value is None:
                    if value_mode:
                        out += emit(ast.Constant(value=None))
                else:
                    out += emit(st.value)
                return out
            has_ret = any(isinstance(n, ast.Return) for n in ast.walk(st))
            if not has_ret:
                out.append(st)
                continue
            if isinstance(st, ast.If):
                rest = stmts[i + 1:]
                if len(rest) > 4:
                    raise _Refuse("early return with a long remainder")
                new = ast.If(test=st.test, body=self.convert(list(st.body) + copy.deepcopy(rest), emit, value_mode) or [ast.Pass()],
                             orelse=self.convert(list(st.orelse) + copy.deepcopy(rest), emit, value_mode))
                out.append(ast.copy_location(new, st))
                return out
            raise _Refuse("return inside %s" % type(st).__name__)
        if value_mode:
            out += emit(ast.Constant(value=None))
        return out

    def stmt_form(self, st, stack):
        """-> list of statements replacing `st`, or None"""
        if isinstance(st, ast.Assign) and len(st.targets) == 1 and self.helper_of(st.value) is not None:
            call, tgt = st.value, st.targets[0]
            emit = lambda v: [ast.copy_location(ast.Assign(targets=[copy.deepcopy(tgt)], value=v, lineno=st.lineno), st)]
            value_mode = True
        elif isinstance(st, ast.Return) and st.value is not None and self.helper_of(st.value) is not None:
            call = st.value
            emit = lambda v: [ast.copy_location(ast.Return(value=v), st)]
            value_mode = True
        elif isinstance(st, ast.Expr) and self.helper_of(st.value) is not None:
            call = st.value
            emit = lambda v: [ast.copy_location(ast.Expr(value=v), st)]
            value_mode = False
        else:
            return None
        h = self.helper_of(call)
        try:
            # the arguments themselves may contain helper calls
            pre, body = self.prepare(call, h, stack, True)
            if not value_mode:
                def emit(v):      # noqa: F811 — a procedure's return value is dropped; keep a non-constant one evaluated
                    return [] if isinstance(v, (ast.Constant, ast.Name)) else [ast.copy_location(ast.Expr(value=v), st)]
            new = pre + self.convert(body, emit, value_mode)
        except _Refuse:
            return None
        self.count += 1
        return self.block(new, stack + [h.name])

    def block(self, stmts, stack):
        out = []
        for st in stmts:
            rep = self.stmt_form(st, stack)
            if rep is not None:
                out += rep
                continue
            if isinstance(st, (ast.Assign, ast.AugAssign, ast.AnnAssign, ast.Expr, ast.Return)):
                if getattr(st, "value", None) is not None:
                    st.value = self.rewrite_expr(st.value, stack)
            elif isinstance(st, ast.If):
                st.test = self.rewrite_expr(st.test, stack)
                st.body = self.block(st.body, stack)
                st.orelse = self.block(st.orelse, stack)
            elif isinstance(st, ast.For):
                st.iter = self.rewrite_expr(st.iter, stack)
                st.body = self.block(st.body, stack)
                st.orelse = self.block(st.orelse, stack)
            elif isinstance(st, ast.With):
                for it in st.items:
                    it.context_expr = self.rewrite_expr(it.context_expr, stack)
                st.body = self.block(st.body, stack)
            elif isinstance(st, ast.FunctionDef):
                st.body = self.block(st.body, stack)      # closures of the caller (late binding does not matter: pure substitution)
            out.append(st)
        return out


def inline_helpers(fn, helpers, method=False, exclude_prefix=()):
    """returns (new FunctionDef, number of call sites substituted)"""
    fn = copy.deepcopy(fn)
    inl = _Inliner(fn, helpers, method, exclude_prefix)
    fn.body = inl.block(fn.body, [fn.name])
    ast.fix_missing_locations(fn)
    return fn, inl.count


# =====================================================================================================
def _mentions(node, name):
    return any(isinstance(n, ast.Name) and n.id == name for n in ast.walk(node))


def _target_names(t):
    if isinstance(t, ast.Name):
        return [t.id]
    if isinstance(t, ast.Tuple) and all(isinstance(e, ast.Name) for e in t.elts):
        return [e.id for e in t.elts]
    return None


def loops_to_comprehensions(fn):
    """in place; returns the number of loops rewritten"""
    count = [0]

    def outside_refs(name, loop):
        inside = {id(n) for n in ast.walk(loop)}
        return any(isinstance(n, ast.Name) and n.id == name and id(n) not in inside for n in ast.walk(fn)) or \
            any(isinstance(n, ast.arg) and n.arg == name for n in ast.walk(fn))

    def block(stmts):
        for st in stmts:
            for fld in ("body", "orelse", "finalbody"):
                if isinstance(getattr(st, fld, None), list) and not isinstance(st, (ast.Lambda,)):
                    block(getattr(st, fld))
        i = 0
        while i < len(stmts):
            st = stmts[i]
            if isinstance(st, ast.Assign) and len(st.targets) == 1 and isinstance(st.targets[0], ast.Name) \
                    and isinstance(st.value, ast.List) and not st.value.elts:
                L = st.targets[0].id
                j = i + 1
                while j < len(stmts) and not _mentions(stmts[j], L):
                    j += 1
                lp = stmts[j] if j < len(stmts) else None
                if isinstance(lp, ast.For) and not lp.orelse and len(lp.body) == 1 and not getattr(lp, "type_comment", None):
                    b = lp.body[0]
                    tn = _target_names(lp.target)
                    ok = (isinstance(b, ast.Expr) and isinstance(b.value, ast.Call) and isinstance(b.value.func, ast.Attribute)
                          and b.value.func.attr == "append" and isinstance(b.value.func.value, ast.Name)
                          and b.value.func.value.id == L and len(b.value.args) == 1 and not b.value.keywords
                          and not isinstance(b.value.args[0], ast.Starred)
                          and not _mentions(b.value.args[0], L) and not _mentions(lp.iter, L) and tn is not None
                          and not any(outside_refs(t, lp) for t in tn)
                          and not any(isinstance(n, (ast.Yield, ast.YieldFrom, ast.Await, ast.NamedExpr)) for n in ast.walk(lp)))
                    if ok:
                        tgt = copy.deepcopy(lp.target)
                        comp = ast.ListComp(elt=b.value.args[0],
                                            generators=[ast.comprehension(target=tgt, iter=lp.iter, ifs=[], is_async=0)])
                        stmts[j] = ast.copy_location(ast.Assign(targets=[ast.Name(id=L, ctx=ast.Store())], value=comp, lineno=lp.lineno), lp)
                        del stmts[i]
                        count[0] += 1
                        continue
            i += 1

    block(fn.body)
    ast.fix_missing_locations(fn)
    return count[0]


# =====================================================================================================
class _ReversedRange(ast.NodeTransformer):
    def visit_Call(self, n):
        n = self.generic_visit(n)
        if isinstance(n.func, ast.Name) and n.func.id == "reversed" and len(n.args) == 1 and not n.keywords:
            r = n.args[0]
            if isinstance(r, ast.Call) and isinstance(r.func, ast.Name) and r.func.id == "range" and len(r.args) == 1 and not r.keywords:
                m1 = ast.UnaryOp(op=ast.USub(), operand=ast.Constant(value=1))
                return ast.copy_location(ast.Call(func=ast.Name(id="range", ctx=ast.Load()), keywords=[], args=[
                    ast.BinOp(left=r.args[0], op=ast.Sub(), right=ast.Constant(value=1)), m1, copy.deepcopy(m1)]), n)
        return n


def reversed_range(fn):
    _ReversedRange().visit(fn)
    ast.fix_missing_locations(fn)


# =====================================================================================================
_NEG = {ast.Is: ast.IsNot, ast.IsNot: ast.Is, ast.Eq: ast.NotEq, ast.NotEq: ast.Eq, ast.In: ast.NotIn, ast.NotIn: ast.In}


def _negate(e):
    """an expression with the truth value of `not e` and the same evaluation order, or None"""
    if isinstance(e, ast.UnaryOp) and isinstance(e.op, ast.Not):
        return None      # `not not a` is bool(a), not a: only usable in a test position (handled by the caller)
    if isinstance(e, ast.Compare) and len(e.ops) == 1 and type(e.ops[0]) in _NEG:
        return ast.copy_location(ast.Compare(left=e.left, ops=[_NEG[type(e.ops[0])]()], comparators=e.comparators), e)
    if isinstance(e, ast.BoolOp):
        vals = []
        for v in e.values:
            nv = _negate(v)
            vals.append(nv if nv is not None else ast.copy_location(ast.UnaryOp(op=ast.Not(), operand=v), v))
        return ast.copy_location(ast.BoolOp(op=ast.Or() if isinstance(e.op, ast.And) else ast.And(), values=vals), e)
    return None


class _PushNot(ast.NodeTransformer):
    def visit_UnaryOp(self, n):
        n = self.generic_visit(n)
        if isinstance(n.op, ast.Not):
            # `not (a and b)` and `(not a) or (not b)` are both bools with the same truth value and evaluate
            # a, b in the same short-circuit order; likewise the negated comparisons
            r = _negate(n.operand)
            if r is not None:
                return r
        return n

    def _test(self, t):
        # `not not a` in a test position
        while isinstance(t, ast.UnaryOp) and isinstance(t.op, ast.Not) and isinstance(t.operand, ast.UnaryOp) \
                and isinstance(t.operand.op, ast.Not):
            t = t.operand.operand
        return t

    def visit_If(self, n):
        n = self.generic_visit(n)
        n.test = self._test(n.test)
        if isinstance(n.test, ast.UnaryOp) and isinstance(n.test.op, ast.Not) and n.orelse:
            n.test, n.body, n.orelse = n.test.operand, n.orelse, n.body
        return n

    def visit_IfExp(self, n):
        n = self.generic_visit(n)
        n.test = self._test(n.test)
        if isinstance(n.test, ast.UnaryOp) and isinstance(n.test.op, ast.Not):
            n.test, n.body, n.orelse = n.test.operand, n.orelse, n.body
        return n


def push_not(fn):
    _PushNot().visit(fn)
    ast.fix_missing_locations(fn)


# =====================================================================================================
_PURE_BINOPS = (ast.Add, ast.Sub, ast.Mult, ast.FloorDiv, ast.Mod, ast.Pow, ast.Div)


def _pure(e):
    """call-free arithmetic / comparison / attribute-of-name expression (re-evaluating it gives the same value as
    long as nothing it reads is re-bound)"""
    for n in ast.walk(e):
        if isinstance(n, (ast.Name, ast.Constant, ast.UnaryOp, ast.Compare, ast.BoolOp, ast.IfExp, ast.Tuple, ast.Load,
                          ast.operator, ast.unaryop, ast.cmpop, ast.boolop, ast.Slice)):
            continue
        if isinstance(n, ast.BinOp) and isinstance(n.op, _PURE_BINOPS):
            continue
        if isinstance(n, ast.Attribute) and isinstance(n.value, ast.Name):
            continue
        if isinstance(n, ast.Subscript):
            continue
        if isinstance(n, ast.Call) and isinstance(n.func, ast.Name) and n.func.id == "len" and len(n.args) == 1 and not n.keywords:
            continue
        return False
    return True


def _reads(e):
    out = set(_names(e, ast.Load))
    for n in ast.walk(e):
        if isinstance(n, ast.Attribute) and isinstance(n.value, ast.Name) and n.value.id == "self":
            out.add("self." + n.attr)
    return out


def _writes(st):
    out = set()
    heavy = False
    for n in ast.walk(st):
        if isinstance(n, ast.Name) and isinstance(n.ctx, (ast.Store, ast.Del)):
            out.add(n.id)
        elif isinstance(n, ast.Attribute) and isinstance(n.ctx, ast.Store):
            heavy = True
            if isinstance(n.value, ast.Name) and n.value.id == "self":
                out.add("self." + n.attr)
        elif isinstance(n, ast.Subscript) and isinstance(n.ctx, ast.Store):
            heavy = True
        elif isinstance(n, (ast.AugAssign, ast.FunctionDef)):
            heavy = True
            if isinstance(n, ast.FunctionDef):
                out.add(n.name)
        elif isinstance(n, ast.Expr) and isinstance(n.value, ast.Call):
            heavy = True
    return out, heavy


class _SubstName(ast.NodeTransformer):
    def __init__(self, name, value):
        self.name, self.value, self.n = name, value, 0

    def visit_Name(self, n):
        if n.id == self.name and isinstance(n.ctx, ast.Load):
            self.n += 1
            return copy.deepcopy(self.value)
        return n


def _once_positions(st):
    """sub-expressions of the statement that are evaluated exactly once when the statement runs"""
    if isinstance(st, (ast.Assign, ast.Return, ast.Expr, ast.AugAssign)):
        roots = [st.value] if st.value is not None else []
    elif isinstance(st, ast.If):
        roots = [st.test]
    elif isinstance(st, ast.For):
        roots = [st.iter]
    elif isinstance(st, ast.With):
        roots = [i.context_expr for i in st.items]
    else:
        roots = []
    out = []

    def walk(e):
        out.append(e)
        if isinstance(e, (ast.Lambda, ast.IfExp, ast.BoolOp)):
            # lambda bodies run later; the arms of a conditional / short-circuit operator may not run at all
            if isinstance(e, ast.IfExp):
                walk(e.test)
            elif isinstance(e, ast.BoolOp):
                walk(e.values[0])
            return
        if isinstance(e, (ast.ListComp, ast.SetComp, ast.GeneratorExp, ast.DictComp)):
            if not isinstance(e, ast.GeneratorExp):
                walk(e.generators[0].iter)
            return
        for c in ast.iter_child_nodes(e):
            if isinstance(c, ast.expr):
                walk(c)
            elif isinstance(c, ast.keyword):
                walk(c.value)
            elif isinstance(c, ast.Slice):
                for s in (c.lower, c.upper, c.step):
                    if s is not None:
                        walk(s)
    for r in roots:
        walk(r)
    return out


def inline_temps(fn, keep=(), only_prefix=None):
    """in place; returns the number of temporaries removed.  `keep`: names the translator looks up by name;
    `only_prefix`: restrict to names with this prefix (the temporaries `inline_helpers` introduced)"""
    keep = set(keep)
    total = 0
    for _round in range(20):
        stores = {}
        for n in ast.walk(fn):
            if isinstance(n, ast.Name) and isinstance(n.ctx, (ast.Store, ast.Del)):
                stores[n.id] = stores.get(n.id, 0) + 1
            elif isinstance(n, ast.arg):
                stores[n.arg] = stores.get(n.arg, 0) + 2
            elif isinstance(n, (ast.Global, ast.Nonlocal)):
                for x in n.names:
                    stores[x] = stores.get(x, 0) + 2
        nested = set()
        for n in ast.walk(fn):
            if (isinstance(n, ast.FunctionDef) and n is not fn) or isinstance(n, ast.Lambda):
                nested |= set(_names(n, ast.Load))
        done = [False]

        def block(stmts):
            for i, st in enumerate(stmts):
                if isinstance(st, ast.Assign) and len(st.targets) == 1 and isinstance(st.targets[0], ast.Name):
                    t = st.targets[0].id
                    if t not in keep and stores.get(t) == 1 and t not in nested and (only_prefix is None or t.startswith(only_prefix)) \
                            and not _mentions(st.value, t):
                        if try_inline(stmts, i, t, st.value):
                            done[0] = True
                            return
                for fld in ("body", "orelse"):
                    sub = getattr(st, fld, None)
                    if isinstance(sub, list) and sub and isinstance(sub[0], ast.stmt):
                        block(sub)
                        if done[0]:
                            return

        def try_inline(stmts, i, t, value):
            later = stmts[i + 1:]
            uses_later = sum(1 for s in later for n in ast.walk(s) if isinstance(n, ast.Name) and n.id == t)
            uses_all = sum(1 for n in ast.walk(fn) if isinstance(n, ast.Name) and n.id == t and isinstance(n.ctx, ast.Load))
            if uses_all == 0 or uses_later != uses_all:
                return False
            if _pure(value):
                reads = _reads(value) | {t}
                fragile = any(isinstance(n, (ast.Attribute, ast.Subscript, ast.Call)) for n in ast.walk(value))
                last = max(k for k, s in enumerate(later) if _mentions(s, t))
                for s in later[:last + 1]:
                    w, heavy = _writes(s)
                    if w & reads or (fragile and heavy):
                        return False
                    # a use inside a loop body / comprehension is re-evaluated there: fine for a pure value whose
                    # reads are not re-bound (checked over the whole statement, nested bodies included)
                for s in later[:last + 1]:
                    _SubstName(t, value).visit(s)
                del stmts[i]
                return True
            if uses_all != 1 or not later:
                return False
            nxt = later[0]
            pos = [e for e in _once_positions(nxt) if isinstance(e, ast.Name) and e.id == t]
            if len(pos) != 1:
                return False
            sn = _SubstName(t, value)
            # substitute only inside the once-evaluated roots (the use is there)
            if isinstance(nxt, (ast.Assign, ast.Return, ast.Expr, ast.AugAssign)):
                nxt.value = sn.visit(nxt.value)
            elif isinstance(nxt, ast.If):
                nxt.test = sn.visit(nxt.test)
            elif isinstance(nxt, ast.For):
                nxt.iter = sn.visit(nxt.iter)
            elif isinstance(nxt, ast.With):
                for it in nxt.items:
                    it.context_expr = sn.visit(it.context_expr)
            if sn.n != 1:
                raise AssertionError("inline_temps: substitution count")
            del stmts[i]
            return True

        block(fn.body)
        if not done[0]:
            break
        total += 1
    ast.fix_missing_locations(fn)
    return total


# =====================================================================================================
def canon_call(call, params, npos, defaults=None):
    """in place: the first `npos` parameters positional, every other GIVEN parameter by keyword in signature order.
    Returns False (call untouched) when the arguments cannot be resolved against `params`."""
    if any(isinstance(a, ast.Starred) for a in call.args) or any(k.arg is None for k in call.keywords):
        return False
    if len(call.args) > len(params):
        return False
    got = dict(zip(params, call.args))
    for k in call.keywords:
        if k.arg not in params or k.arg in got:
            return False
        got[k.arg] = k.value
    if any(p_ not in got for p_ in params[:npos]):
        return False
    # evaluation order: only re-order when every argument is an atom or the order is unchanged
    before = [ast.dump(a) for a in call.args] + [ast.dump(k.value) for k in call.keywords]
    new_args = [got[p_] for p_ in params[:npos]]
    new_kw = [ast.keyword(arg=p_, value=got[p_]) for p_ in params[npos:] if p_ in got]
    after = [ast.dump(a) for a in new_args] + [ast.dump(k.value) for k in new_kw]
    if before != after:
        movable = [a for a in list(call.args) + [k.value for k in call.keywords]
                   if not (_is_atom(a) or _pure(a))]
        if len(movable) > 1:
            return False
    call.args, call.keywords = new_args, new_kw
    return True


def signature(fn, method=False):
    a = fn.args
    if a.vararg or a.kwarg or a.kwonlyargs or getattr(a, "posonlyargs", None):
        return None
    params = [p.arg for p in a.args]
    return params[1:] if method else params
