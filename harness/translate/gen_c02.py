"""T3 (small, sound version): Python `ast` -> effect/alias IR of lean/SigpyVerif/Model/C02.lean.

Writes  Gen/Effects.lean    one `def prog_<name> : Func n` per function/method in scope + `effectTable`
        Gen/EffectsOk.lean  one `theorem prog_<name>_ok : noMutation prog_<name> = true := by decide` per
                            function that is neither in-place by contract nor listed in NEEDS_RUNTIME.

Sound-by-construction rules (anything else raises Unsupported -> broken obligation, never a pass):
  views (reshape/ravel/transpose/slicing/.T/.real/conj of real/astype(copy=False)/to_device) -> may alias
  arithmetic, copy(), zeros, astype, whitelisted pure numpy functions                       -> fresh
  `x op= e`, `x[...] = e`, `out=`, copyto, .sort(), .fill()                               -> mutate
  call of an in-scope function -> `callS` with the callee's summary computed by the Lean analysis
  call of a captured operator object (child Linop / Prox: `linop(x)`, `self.A.H(x)`, `self.prox(a, x)`)
       -> contract "never writes its arguments; result may alias them or the object's own arrays"
       (assume-guarantee: that contract is exactly what is proved for every class)
  any other call with array arguments (callbacks, unknown methods) -> may write and alias every argument
  `if xp == np:` -> CPU arm only (CuPy arms are out of scope: no GPU in the verification environment)

Harmless spellings that are normalised (same obligations for the callers; anything else stays Unsupported):
  * module-level helper functions of linop.py / prox.py called from an `_apply` / `_prox` (e.g. an extracted
    `_axis_slice(ndim, axis, start, end)`): translated on demand like every other in-scope function and called
    through `callS` with the summary the Lean analysis computes for them (`summ_<f>_eq`); positional and keyword
    arguments are resolved against the callee's signature;
  * `self._helper(...)` / `Cls._helper(...)` where `_helper` is a private (single underscore) method that is
    defined exactly once in the module, in the class of the caller or one of its bases (so dynamic dispatch
    cannot pick another body), and local `def helper(...)` closures that are only ever called by name:
    the body is INLINED at the call site (parameters bound to the argument variables, `return v` becomes a
    weak update of the call's result variable).  Recursion, *args/**kwargs, decorators other than
    staticmethod, a helper used as a value: Unsupported.  The dispatching methods (`_apply`, `_prox`,
    `_adjoint_linop`, `_normal_linop`) keep the child-operator contract.
  * a NEW private module-level helper (not in the property's list MUST_BE_CLEAN) that writes one of its
    parameters (e.g. `_store(output, slc, v)`) carries no `_ok` obligation of its own: its writes are accounted
    for at every call site through its summary (listed in the generated `privateInplaceHelpers`).
"""
import ast
import os

from harness import common
from harness.translate import py2lean as T

Unsupported = T.Unsupported

MODULES = {  # key -> path
    "util": "sigpy/util.py", "fourier": "sigpy/fourier.py", "interp": "sigpy/interp.py",
    "conv": "sigpy/conv.py", "block": "sigpy/block.py", "wavelet": "sigpy/wavelet.py",
    "thresh": "sigpy/thresh.py", "mri.util": "sigpy/mri/util.py", "linop": "sigpy/linop.py",
    "prox": "sigpy/prox.py", "app": "sigpy/app.py", "mri.app": "sigpy/mri/app.py",
}
APP_MODULES = ("app", "mri.app")
# app methods in scope (class -> methods).  Closures defined inside them (gradf, minL_x, minL_v, g, forward,
# normalize, min_mps_ker, min_img_ker) get their own program `<method>.<closure>`.
APP_METHODS = {
    "app.LinearLeastSquares": ["_get_ConjugateGradient", "_get_GradientMethod", "_get_PrimalDualHybridGradient",
                               "_get_ADMM", "objective"],
    "mri.app.SenseRecon": ["__init__"], "mri.app.L1WaveletRecon": ["__init__"],
    "mri.app.TotalVariationRecon": ["__init__"],
    "mri.app.JsenseRecon": ["_get_data", "_get_vars", "_get_alg", "_output"],
    "mri.app.EspiritCalib": ["__init__", "_output"],
}
# what an app method / closure may write besides freshly allocated arrays: the object itself (attribute
# (re)binding) and the listed attributes = the solution array (documented in/out `x`) and work arrays the
# object allocated itself.  Everything else reachable from `self` or the parameters (y, z, mps, weights,
# coord, the arrays captured by A / G / proxg / P) must stay untouched.
APP_ALLOWED = {
    "app.LinearLeastSquares": ["x"],
    # "**kwargs": the keyword dictionary forwarded to LinearLeastSquares.__init__ carries the in/out initial guess `x`
    "mri.app.SenseRecon": ["**kwargs"], "mri.app.L1WaveletRecon": ["**kwargs"], "mri.app.TotalVariationRecon": ["**kwargs"],
    "mri.app.JsenseRecon": ["mps_ker", "img_ker", "comm"],   # comm: the MPI communicator object (no array)
    "mri.app.EspiritCalib": ["mps"],
}
# iterative-algorithm / app constructors: the object keeps references to its arguments and (in its updates, run
# later by `.run()`) writes only the listed in/out arguments (position, keyword).  TRUSTED contract of sigpy/alg.py
# (the update rules themselves are modelled and checked by C13 / C14; the runtime stream snapshots y, z and
# every captured array around construction and run()).
ALG_WRITES = {
    "ConjugateGradient": [(2, "x")], "GradientMethod": [(1, "x")], "PrimalDualHybridGradient": [(4, "x"), (5, "u")],
    "ADMM": [(2, "x"), (3, "v"), (4, "u")], "PowerMethod": [(1, "x")], "MaxEig": [], "AltMin": [], "App": [],
    "LinearLeastSquares": [(2, "x")], "super().__init__": [(2, "x")],
}
IN_PLACE_DUNDERS = {"__iadd__", "__isub__", "__imul__", "__itruediv__", "__imatmul__", "__ifloordiv__", "__ipow__"}
BACKEND_NAMES = {"to_device", "copyto", "get_device", "get_array_module", "Device", "cpu_device"}
# functions whose documented purpose is to write into an argument (no `_ok` theorem; callers see the summary)
INPLACE_BY_CONTRACT = {
    "util.axpy": "documented output argument y",
    "util.xpay": "documented output argument y",
    "fourier._apodize": "private helper, apodises its argument in place (callers must pass a copy)",
}
# functions the analysis cannot prove clean: covered by the runtime stream only
NEEDS_RUNTIME = {
    "util.monte_carlo_sure": "calls the user callback f on y (an arbitrary callable may write its argument)",
    "linop.AllReduce._apply": "MPI all-reduce writes its buffer in place; in_place=True is a documented in-place API",
}
# app code that has no IR program (documentation only: nothing is claimed for it; the runtime stream check_lls covers
# LinearLeastSquares end to end)
APP_NEEDS_RUNTIME = {
    "app.LinearLeastSquares.__init__": "stores its arguments, allocates x when none is given and dispatches through _get_alg to "
                                       "the four set-ups (each has its own obligation); no array arithmetic of its own",
    "app.App.run / alg.*.update": "the iterations: which arrays an algorithm writes is the trusted table ALG_WRITES (in/out x, u, v); "
                                  "the update rules are the models of C12-C14",
    "mri.app.JsenseRecon.__init__": "calls _get_data, _get_vars, _get_alg (each has its own obligation) on the attributes it just stored",
    "mri.app.*Recon(**kwargs)": "z, P, x passed inside **kwargs are one origin (the dictionary): only 'nothing outside it is written' is proved",
    "app.L2ConstrainedMinimization / app.MaxEig": "set-ups outside the property's list of apps (no y/z/mps/weights of their own beyond A, y)",
}
SKIP = {"linop.Linop._apply", "linop.Gradient", "linop.FiniteDifference",  # abstract / factories (no array code)
        "linop._check_shape_positive", "linop._check_compose_linops", "linop._combine_compose_linops",
        "linop._check_linops_same_ishape", "linop._check_linops_same_oshape",
        "interp._get_interpolate", "interp._get_gridding", "interp._spline_kernel", "interp._kaiser_bessel_kernel"}

# methods resolved by dynamic dispatch (subclasses override them): never inlined, child-operator contract
DISPATCH_METHODS = {"_apply", "_prox", "_adjoint_linop", "_normal_linop", "apply", "run", "update", "_update", "_done",
                    "_get_alg", "_pre_update", "_post_update", "_summarize", "_output", "_write_postfix", "objective"}
# filled by harness/props/c02.py with EXPECTED_OK: functions that must carry their own `_ok` obligation
MUST_BE_CLEAN = set()

SCALAR_ATTRS = {"shape", "dtype", "ndim", "size", "itemsize", "nbytes", "device", "xp", "id", "name", "repr_str"}
VIEW_ATTRS = {"T", "real", "imag", "flat", "H", "N"}
VIEW_METHODS = {"reshape", "ravel", "transpose", "swapaxes", "squeeze", "view", "conj", "conjugate"}
FRESH_METHODS = {"flatten", "max", "min", "sum", "mean", "std", "var", "all", "any", "dot", "tolist", "item",
                 "nonzero", "argmax", "argmin", "argsort", "round", "clip", "cumsum", "prod", "get", "format",
                 "join", "index", "count"}
MUTATING_METHODS = {"sort", "fill", "resize", "put", "itemset", "partition", "setfield", "setflags", "byteswap"}
CONTAINER_METHODS = {"append", "extend", "insert"}
NP_VIEW = {"reshape", "ravel", "transpose", "swapaxes", "squeeze", "expand_dims", "asarray", "asanyarray",
           "atleast_1d", "atleast_2d", "real", "imag", "conj", "conjugate", "broadcast_to", "moveaxis", "diag",
           "ascontiguousarray", "flip", "rollaxis"}
NP_FRESH = {"zeros", "ones", "empty", "full", "zeros_like", "ones_like", "empty_like", "array", "arange",
            "linspace", "abs", "absolute", "sum", "mean", "sqrt", "exp", "cos", "sin", "sinh", "cosh", "log",
            "matmul", "tile", "roll", "concatenate", "stack", "sort", "cumsum", "flatnonzero", "argmax", "argmin",
            "argsort", "prod", "histogram", "vdot", "dot", "clip", "multiply", "add", "subtract", "divide",
            "norm", "eigh", "eig", "svd", "cholesky", "solve", "pinv", "inv", "fftn", "ifftn", "fftshift",
            "ifftshift", "fft", "ifft", "normal", "rand", "randn", "uniform", "size", "isscalar", "issubdtype",
            "iscomplexobj", "isrealobj", "where", "maximum", "minimum", "floor", "ceil", "angle", "sign",
            "transpose_copy", "copy", "outer", "kron", "meshgrid", "round", "all", "any", "allclose", "isnan",
            "max", "min", "amax", "amin", "power", "square", "trace", "dtype", "int64", "float64", "complex64",
            "complex128", "float32", "finfo", "result_type", "promote_types"}
NP_MUTATE_ARG0 = {"copyto", "put", "place", "putmask", "fill_diagonal"}
EXTERNAL_PURE = {("signal", "convolve"), ("signal", "correlate"), ("pywt", "wavedecn"), ("pywt", "coeffs_to_array"),
                 ("pywt", "array_to_coeffs"), ("pywt", "waverecn")}
NONE_BUILTINS = {"len", "range", "int", "float", "complex", "bool", "str", "isinstance", "print", "slice", "type",
                 "ceil", "floor", "repr", "hasattr", "ValueError", "TypeError", "RuntimeError", "Exception",
                 "NotImplementedError", "super", "all", "any"}
FRESH_BUILTINS = {"max", "min", "abs", "sum", "round", "pow"}
CONTAINER_BUILTINS = {"list", "tuple", "zip", "enumerate", "reversed", "sorted", "iter", "set"}
KERNEL_TABLES = {"_interpolate": "_get_interpolate", "_gridding": "_get_gridding"}
MODULE_NAMES = {"xp", "np", "numpy", "cp", "backend", "util", "fourier", "interp", "conv", "block", "wavelet",
                "thresh", "sp", "sigpy", "signal", "pywt", "math", "config", "nb", "linop", "prox"}


def attr_chain(e):
    out = []
    while isinstance(e, ast.Attribute):
        out.append(e.attr)
        e = e.value
    if isinstance(e, ast.Name):
        out.append(e.id)
        return out[::-1]
    return None


def kernel_store_names(fn):
    """names written through subscripts / augmented assignments in a numba kernel"""
    names = set()
    for node in ast.walk(fn):
        tg = []
        if isinstance(node, ast.Assign):
            tg = node.targets
        elif isinstance(node, (ast.AugAssign, ast.AnnAssign)):
            tg = [node.target]
        for t in tg:
            for s in ast.walk(t):
                if isinstance(s, ast.Subscript) and isinstance(s.ctx, ast.Store):
                    b = s.value
                    while isinstance(b, (ast.Subscript, ast.Attribute)):
                        b = b.value
                    names.add(b.id if isinstance(b, ast.Name) else "?")
    return names


def is_numba(fn):
    for d in fn.decorator_list:
        c = attr_chain(d.func if isinstance(d, ast.Call) else d)
        if c and c[0] == "nb":
            return c[-1]
    return None


class Gen:
    def __init__(self):
        self.trees = {}
        self.funcs = {}     # key -> (modkey, ast node, clsname or None)
        self.done = {}      # key -> dict(lean, n, np, nc, params, captured, body)
        self.order = []
        self.active = []
        self.classes = {}   # modkey -> {class name: ClassDef}
        for mk, rel in MODULES.items():
            with open(os.path.join(common.REPO, rel)) as f:
                tree = ast.parse(f.read())
            self.trees[mk] = tree
            self.classes[mk] = {n.name: n for n in tree.body if isinstance(n, ast.ClassDef)}
            for node in tree.body:
                if isinstance(node, ast.FunctionDef):
                    self.funcs["%s.%s" % (mk, node.name)] = (mk, node, None)
                elif isinstance(node, ast.ClassDef) and mk in APP_MODULES:
                    for m in node.body:
                        if isinstance(m, ast.FunctionDef) and m.name in APP_METHODS.get("%s.%s" % (mk, node.name), []):
                            self.funcs["%s.%s.%s" % (mk, node.name, m.name)] = (mk, m, node.name)
                            for inner in ast.walk(m):
                                if isinstance(inner, ast.FunctionDef) and inner is not m:
                                    self.funcs["%s.%s.%s.%s" % (mk, node.name, m.name, inner.name)] = (mk, m, node.name, inner)
                elif isinstance(node, ast.ClassDef) and mk in ("linop", "prox"):
                    for m in node.body:
                        if isinstance(m, ast.FunctionDef) and m.name in ("_apply", "_prox", "apply", "__call__"):
                            if m.name == "__call__" and mk == "linop":
                                continue
                            self.funcs["%s.%s.%s" % (mk, node.name, m.name)] = (mk, m, node.name)

    def linops_have_no_inplace_ops(self):
        for mk in ("linop",):
            for node in ast.walk(self.trees[mk]):
                if isinstance(node, ast.FunctionDef) and node.name in IN_PLACE_DUNDERS:
                    return False
        return True

    def in_scope(self):
        keys = []
        for k, ent in self.funcs.items():
            mk, node, cls = ent[:3]
            if k in SKIP:
                continue
            if cls is None and mk in ("linop", "prox"):
                continue  # shape helpers of linop.py take no arrays
            nb = is_numba(node)
            if nb:
                continue  # kernels are summarised syntactically at their call sites
            keys.append(k)
        return keys

    # ---- private helper methods (inlined at their call sites) -----------------------------------
    def mro(self, mk, clsname):
        """the class and its bases defined in the same module, nearest first (single inheritance chains;
        a base that is not a plain name of this module ends the chain)"""
        out, seen = [], set()
        todo = [clsname]
        while todo:
            c = todo.pop(0)
            if c in seen or c not in self.classes[mk]:
                continue
            seen.add(c)
            out.append(self.classes[mk][c])
            for b in self.classes[mk][c].bases:
                if isinstance(b, ast.Name):
                    todo.append(b.id)
        return out

    def subclasses(self, mk, clsname):
        """strict subclasses of `clsname` defined in the module (transitively, through plain-name bases)"""
        out, grew = {clsname}, True
        while grew:
            grew = False
            for c in self.classes[mk].values():
                if c.name not in out and any(isinstance(b, ast.Name) and b.id in out for b in c.bases):
                    out.add(c.name)
                    grew = True
        return out - {clsname}

    def private_method(self, mk, clsname, name):
        """(ClassDef, FunctionDef) of the private helper method `name` as seen from a method of class `clsname`, or
        None when the name is not such a method (then the caller keeps its old treatment: child-operator contract).
        The receiver's dynamic class is `clsname` or one of its subclasses: the body found first along the bases
        of `clsname` is THE body only if no subclass of `clsname` in the module defines the name again and every
        base on the way is a plain class of this module (so nothing is dispatched elsewhere)."""
        if not name.startswith("_") or name.startswith("__") or name in DISPATCH_METHODS:
            return None
        if clsname is None or clsname not in self.classes.get(mk, {}):
            return None
        for n in ast.walk(self.trees[mk]):      # `self._m = ...` somewhere: an instance attribute may shadow the method
            if isinstance(n, ast.Attribute) and n.attr == name and isinstance(n.ctx, (ast.Store, ast.Del)):
                return None
        for sub in self.subclasses(mk, clsname):
            if any(isinstance(m, ast.FunctionDef) and m.name == name for m in self.classes[mk][sub].body):
                return None
        for c in self.mro(mk, clsname):
            for m in c.body:
                if isinstance(m, ast.FunctionDef) and m.name == name:
                    return (c, m)
                if isinstance(m, ast.Assign) and any(isinstance(t, ast.Name) and t.id == name for t in m.targets):
                    return None       # class attribute of that name: not a plain method
            if len(c.bases) > 1 or any(not isinstance(b_, ast.Name) or (b_.id not in self.classes[mk] and b_.id != "object")
                                       for b_ in c.bases):
                return None
        return None

    def lean_name(self, key):
        return "prog_" + key.replace(".", "_")

    def summ_name(self, key):
        return "summ_" + key.replace(".", "_")

    def need(self, key):
        if key in self.done:
            return self.done[key]
        if key in self.active:
            raise Unsupported("recursive call cycle through %s" % key)
        self.active.append(key)
        mk, node, cls = self.funcs[key][:3]
        closure = self.funcs[key][3] if len(self.funcs[key]) > 3 else None
        tr = FnTr(self, mk, key, node, cls, closure)
        info = tr.run()
        self.active.pop()
        info["summary"] = py_summary(info, {k: v["summary"] for k, v in self.done.items()})
        self.done[key] = info
        self.order.append(key)
        return info


class FnTr:
    def __init__(self, gen, mk, key, fn, cls, closure=None):
        self.g, self.mk, self.key, self.fn, self.cls = gen, mk, key, fn, cls
        self.app = mk in APP_MODULES
        self.closure = closure
        self.operators = set()    # variables known to hold Linop / Prox / Alg objects (never ndarrays)
        self.names = []          # var index -> display name
        self.scopes = [{}]       # name -> var index
        self.capt = {}           # attr -> var index
        self.captured_derived = set()
        self.containers = set()   # variables known to hold Python containers of arrays (lists/tuples), not ndarrays
        self.returns_container = False
        self.ret_stack = []       # inlined helper bodies: [result variable, saw a value] of the innermost one
        self.inline_stack = []    # names of the helpers being inlined (recursion = Unsupported)
        self.local_defs = {}      # local `def helper(...)` closures of a non-app function (inlined when called)
        self.cur_fn = [closure if closure is not None else fn]
        a = fn.args
        if (a.kwarg and not self.app) or a.kwonlyargs or a.posonlyargs:
            raise Unsupported("%s: **kwargs / keyword-only signature" % key)
        params = [x.arg for x in a.args]
        self.vararg = a.vararg is not None
        if self.vararg:
            params.append(a.vararg.arg)
        if a.kwarg:
            params.append(a.kwarg.arg)     # app constructors: the keyword dictionary is one more (container) parameter
        self.is_method = cls is not None
        if self.is_method:
            assert params[0] == "self"
            params = params[1:]
        outer_params = []
        if closure is not None:
            # program of a closure: ITS parameters are the parameters; the enclosing method's parameters are
            # entry arrays of the caller too, so they become additional captured slots
            ca = closure.args
            if ca.kwarg or ca.kwonlyargs or ca.posonlyargs or ca.vararg:
                raise Unsupported("%s: closure signature" % key)
            outer_params, params = params, [x.arg for x in ca.args]
        self.params = params
        self.inner_scope = {}
        for p in params:
            v = self.new(p)
            (self.inner_scope if closure is not None else self.scopes[0])[p] = v
        if self.vararg and closure is None:
            self.containers.add(self.scopes[0][params[-1]])
        if a.kwarg and closure is None:
            self.containers.add(self.scopes[0][a.kwarg.arg])
        self.np = len(params)
        self.capt_order = []
        if self.is_method:
            self.capt["self"] = None  # placeholder, allocated in prescan
            self.prescan()
        for p in outer_params:
            v = self.new("outer:" + p)
            self.scopes[0][p] = v
            self.capt["outer:" + p] = v
            self.capt_order.append("outer:" + p)

    def prescan(self):
        """captured slots: `self` (the object itself: attribute writes, unknown methods) + every self.<attr>"""
        order = ["self"]
        todo, seen = [self.fn], set()
        while todo:
            fn = todo.pop(0)
            for node in ast.walk(fn):
                if isinstance(node, ast.Attribute) and isinstance(node.value, ast.Name) and node.value.id == "self":
                    if node.attr not in order:
                        order.append(node.attr)
                # attributes read by private helper methods that will be inlined into this program
                if isinstance(node, ast.Attribute) and isinstance(node.value, ast.Name) and not self.app and \
                        (node.value.id == "self" or node.value.id in self.g.classes.get(self.mk, {})):
                    pm = self.g.private_method(self.mk, self.cls, node.attr)
                    if pm is not None and pm[1].name not in seen:
                        seen.add(pm[1].name)
                        todo.append(pm[1])
        for a in order:
            self.capt[a] = self.new("self." + a if a != "self" else "self")
            self.captured_derived.add(self.capt[a])
        self.capt_order = order

    def new(self, name):
        self.names.append(name)
        return len(self.names) - 1

    def tmp(self, hint="t"):
        return self.new("%s%d" % (hint, len(self.names)))

    def lookup(self, name):
        for sc in reversed(self.scopes):
            if name in sc:
                return sc[name]
        return None

    def bind(self, name):
        """variable for an assignment target (function scope, or innermost comprehension scope)"""
        for sc in reversed(self.scopes):
            if name in sc:
                return sc[name]
        v = self.new(name)
        self.scopes[-1 if len(self.scopes) > 1 else 0][name] = v
        return v

    # ---- expressions ---------------------------------------------------------------------------
    def alias_of(self, srcs, out, hint="t"):
        srcs = [s for s in srcs if s is not None]
        if not srcs:
            return None
        t = self.tmp(hint)
        out.append(("alias", t, srcs))
        if any(s in self.captured_derived for s in srcs):
            self.captured_derived.add(t)
        return t

    def fresh(self, out):
        t = self.tmp()
        out.append(("fresh", t))
        return t

    def alias_or_fresh(self, srcs, out):
        srcs = [s for s in srcs if s is not None]
        t = self.tmp()
        out.append(("call", t, [], srcs))
        return t

    def unknown_call(self, args, out, why):
        args = [a for a in args if a is not None]
        if not args:
            return None
        t = self.tmp("u")
        out.append(("call", t, args, args))
        return t

    def ev(self, e, out):
        if e is None or isinstance(e, (ast.Constant, ast.JoinedStr)):
            return None
        if isinstance(e, ast.Name):
            return self.lookup(e.id)
        if isinstance(e, ast.Attribute):
            chain = attr_chain(e)
            if chain and chain[0] == "self" and self.is_method and self.lookup("self") is None:
                v = self.capt[chain[1]]
                if len(chain) == 2:
                    return v
                if chain[-1] in SCALAR_ATTRS:
                    return None
                t = self.alias_of([v], out)
                if chain[-1] in ("H", "N"):
                    self.operators.add(t)
                return t
            base = self.ev(e.value, out)
            if base is None or e.attr in SCALAR_ATTRS:
                return None
            t = self.alias_of([base], out)
            if e.attr in ("H", "N") and self.app:
                self.operators.add(t)
            return t
        if isinstance(e, ast.Subscript):
            base = self.ev(e.value, out)
            self.ev(e.slice, out)
            return self.alias_of([base], out)
        if isinstance(e, ast.Slice):
            for p in (e.lower, e.upper, e.step):
                self.ev(p, out)
            return None
        if isinstance(e, (ast.BinOp, ast.UnaryOp, ast.Compare, ast.BoolOp)):
            if isinstance(e, ast.BinOp):
                ops = [e.left, e.right]
            elif isinstance(e, ast.UnaryOp):
                ops = [e.operand]
            elif isinstance(e, ast.Compare):
                ops = [e.left] + e.comparators
            else:
                ops = e.values
            vs = [self.ev(o, out) for o in ops]
            if all(v is None for v in vs):
                return None
            if isinstance(e, ast.BoolOp):  # `a or b` returns one of the operands
                return self.alias_of(vs, out)
            if self.app and any(v in self.operators for v in vs if v is not None):
                # operator algebra (`A.H * S * A`, `lamda * I`, `-I`: a new operator referencing its operands) or an
                # application (`A.H * y`: child-operator contract): no writes, the result may reference every operand
                nz = [v for v in vs if v is not None]
                t = self.tmp("o")
                out.append(("call", t, [], nz))
                if all(v in self.operators for v in nz):
                    self.operators.add(t)
                return t
            if isinstance(e, ast.BinOp) and any(v in self.containers for v in vs if v is not None):
                t = self.alias_of(vs, out, "l")    # list/tuple concatenation or repetition keeps the element references
                self.containers.add(t)
                return t
            return self.fresh(out)
        if isinstance(e, ast.IfExp):
            self.ev(e.test, out)
            return self.alias_of([self.ev(e.body, out), self.ev(e.orelse, out)], out)
        if isinstance(e, (ast.List, ast.Tuple, ast.Set)):
            vs = []
            for x in e.elts:
                if isinstance(x, ast.Starred):
                    x = x.value
                vs.append(self.ev(x, out))
            t = self.alias_of(vs, out, "l")
            if t is not None:
                self.containers.add(t)
            return t
        if isinstance(e, (ast.ListComp, ast.GeneratorExp, ast.SetComp)):
            return self.comp(e, out)
        if isinstance(e, ast.Call):
            return self.call(e, out)
        raise Unsupported("%s: expression %s (line %d)" % (self.key, type(e).__name__, getattr(e, "lineno", 0)))

    def comp(self, e, out):
        res = self.tmp("l")
        self.containers.add(res)
        out.append(("alias", res, []))
        self.scopes.append({})
        body = []
        gens = e.generators
        for gidx, g_ in enumerate(gens):
            if g_.is_async:
                raise Unsupported("async comprehension")
            it = self.ev(g_.iter, out if gidx == 0 else body)
            self.assign_target(g_.target, it, body, fresh_scope=True)
            for c in g_.ifs:
                self.ev(c, body)
        v = self.ev(e.elt, body)
        if v is not None:
            body.append(("alias", res, [res, v]))
            if v in self.captured_derived:
                self.captured_derived.add(res)
        self.scopes.pop()
        out.append(("loop", body))
        return res

    def args_of(self, e, out):
        pos = []
        for a in e.args:
            if isinstance(a, ast.Starred):
                a = a.value
            pos.append(self.ev(a, out))
        kws = {}
        for k in e.keywords:
            v = self.ev(k.value, out)
            if k.arg is None:
                pos.append(v)
            else:
                kws[k.arg] = v
        return pos, kws

    def resolve(self, chain):
        """in-scope function key for a name chain, or None"""
        c = list(chain)
        if c and c[0] in ("sp", "sigpy"):
            c = c[1:]
        if len(c) == 1:
            k = "%s.%s" % (self.mk, c[0])
            if k in self.g.funcs and self.g.funcs[k][2] is None:
                return k
            if self.app and chain[0] in ("sp", "sigpy"):
                for mk in ("util", "fourier", "interp", "conv", "block", "wavelet", "thresh"):
                    k = "%s.%s" % (mk, c[0])
                    if k in self.g.funcs and self.g.funcs[k][2] is None:
                        return k
            return None
        if len(c) == 2:
            for mk in (c[0], "mri." + c[0]):
                k = "%s.%s" % (mk, c[1])
                if k in self.g.funcs and self.g.funcs[k][2] is None:
                    return k
        if len(c) == 3:
            k = "%s.%s.%s" % tuple(c)
            if k in self.g.funcs and self.g.funcs[k][2] is None:
                return k
        return None

    def call_in_scope(self, key, e, pos, kws, out):
        mk, node, _ = self.g.funcs[key]
        nb = is_numba(node)
        if nb:
            stores = kernel_store_names(node)
            first = node.args.args[0].arg if node.args.args else None
            if nb == "vectorize":
                if stores:
                    raise Unsupported("%s: vectorize kernel %s stores into %s" % (self.key, key, stores))
                return self.fresh(out)
            if not stores <= {first}:
                raise Unsupported("%s: kernel %s writes %s, expected only its first argument" % (self.key, key, stores))
            if pos and pos[0] is not None:
                out.append(("mut", pos[0]))
            return None
        if key in SKIP:
            raise Unsupported("%s: call of out-of-scope helper %s" % (self.key, key))
        # module-level helpers of linop.py / prox.py (e.g. an extracted `_axis_slice`) are translated on demand,
        # like the functions of util.py: same rules, same `callS` with the summary computed by the Lean analysis
        info = self.g.need(key)
        names = info["params"]
        args = [None] * len(names)
        if info.get("vararg"):
            k0 = len(names) - 1
            pos = pos[:k0] + [self.alias_of(pos[k0:], out, "l")]
        for i, v in enumerate(pos):
            if i >= len(names):
                raise Unsupported("%s: too many arguments for %s" % (self.key, key))
            args[i] = v
        for k, v in kws.items():
            if k not in names:
                raise Unsupported("%s: unknown keyword %s for %s" % (self.key, k, key))
            args[names.index(k)] = v
        t = self.tmp("r")
        out.append(("callS", t, key, args))
        if info.get("returns_container"):
            self.containers.add(t)
        return t

    def call(self, e, out):
        f = e.func
        # --- subscripted kernel tables: _interpolate[kernel][ndim - 1](output, ...)
        if isinstance(f, ast.Subscript):
            b = f
            while isinstance(b, ast.Subscript):
                b = b.value
            pos, kws = self.args_of(e, out)
            if isinstance(b, ast.Name) and b.id in KERNEL_TABLES and self.mk == "interp":
                outer = T.find_function(self.g.trees["interp"], KERNEL_TABLES[b.id])
                for inner in ast.walk(outer):
                    if isinstance(inner, ast.FunctionDef) and inner is not outer:
                        st = kernel_store_names(inner)
                        if not st <= {inner.args.args[0].arg}:
                            raise Unsupported("kernel %s writes %s" % (inner.name, st))
                if pos and pos[0] is not None:
                    out.append(("mut", pos[0]))
                return None
            return self.unknown_call(pos + list(kws.values()), out, "subscripted callee")
        chain = attr_chain(f)
        if self.app:
            r = self.app_call(e, f, chain, out)
            if r is not NotImplemented:
                return r
            if chain and "xp" in chain[:-1]:
                chain = ["xp", chain[-1]]                  # self.x_device.xp.zeros(..), device.xp.linalg.norm(..)
            elif chain and chain[0] in ("sp", "sigpy") and len(chain) == 2 and chain[1] in BACKEND_NAMES:
                chain = ["backend", chain[1]]
        # --- method / module calls
        if isinstance(f, ast.Attribute):
            meth = f.attr
            if chain:
                root = chain[0]
                rootvar = None if root in MODULE_NAMES else self.lookup(root)
                if len(chain) == 2 and not self.app and rootvar is None and self.cls is not None and \
                        (root == "self" or root in self.g.classes.get(self.mk, {})):
                    pm = self.g.private_method(self.mk, self.cls, meth)
                    if pm is not None and (root == "self" or root == pm[0].name):
                        return self.inline(pm[1], e, out, "%s.%s" % (pm[0].name, meth), "self" if root == "self" else "class")
                if root == "self" and self.is_method and rootvar is None:
                    if len(chain) == 2 or (len(chain) == 3 and chain[2] in ("H", "N")):
                        obj = self.ev(f, out)
                        pos, kws = self.args_of(e, out)
                        return self.alias_or_fresh([obj] + pos + list(kws.values()), out)
                    if meth not in VIEW_METHODS | FRESH_METHODS | MUTATING_METHODS | CONTAINER_METHODS | {"copy", "astype"}:
                        obj = self.ev(f.value, out)
                        pos, kws = self.args_of(e, out)
                        return self.unknown_call([self.capt["self"], obj] + pos + list(kws.values()), out, "unknown method on captured object")
                elif rootvar is None:
                    # module-level function
                    key = self.resolve(chain)
                    if key is not None:
                        pos, kws = self.args_of(e, out)
                        return self.call_in_scope(key, e, pos, kws, out)
                    pos, kws = self.args_of(e, out)
                    allv = pos + list(kws.values())
                    if root == "backend":
                        if meth == "to_device":
                            return self.alias_or_fresh(pos[:1], out)
                        if meth == "copyto":
                            if pos and pos[0] is not None:
                                out.append(("mut", pos[0]))
                            return None
                        if meth in ("get_device", "get_array_module", "Device", "cpu_device"):
                            return None
                        return self.unknown_call(allv, out, "backend." + meth)
                    if root in ("xp", "np", "numpy", "cp"):
                        if "out" in kws and kws["out"] is not None:
                            out.append(("mut", kws["out"]))
                        if meth in NP_MUTATE_ARG0:
                            if pos and pos[0] is not None:
                                out.append(("mut", pos[0]))
                            return None
                        if meth in NP_VIEW:
                            return self.alias_or_fresh(allv, out)
                        if meth in NP_FRESH:
                            return self.fresh(out) if any(v is not None for v in allv) or meth in NP_FRESH else None
                        return self.unknown_call(allv, out, "numpy function %s not in the purity table" % meth)
                    if tuple(chain[-2:]) in EXTERNAL_PURE:
                        return self.alias_or_fresh(allv, out)
                    if root in ("math",):
                        return None
                    return self.unknown_call(allv, out, "unknown function " + ".".join(chain))
            # method on a value
            base = self.ev(f.value, out)
            pos, kws = self.args_of(e, out)
            allv = pos + list(kws.values())
            if meth == "copy":
                if base is None:
                    return None
                t = self.tmp()
                out.append(("copy", t, base))
                return t
            if meth == "astype":
                if base is None:
                    return None
                cp = [k for k in e.keywords if k.arg == "copy"]
                if cp and not (isinstance(cp[0].value, ast.Constant) and cp[0].value.value is True):
                    return self.alias_or_fresh([base], out)
                return self.fresh(out)
            if meth in VIEW_METHODS:
                if base is None:
                    return None
                if meth in ("conj", "conjugate"):
                    return self.alias_or_fresh([base], out)
                return self.alias_of([base], out)
            if meth in MUTATING_METHODS:
                if base is not None:
                    out.append(("mut", base))
                return None
            if meth in CONTAINER_METHODS:
                if base is None:
                    raise Unsupported("%s: .%s on an untracked container" % (self.key, meth))
                srcs = [v for v in allv if v is not None]
                out.append(("alias", base, [base] + srcs))
                if any(s in self.captured_derived for s in srcs):
                    self.captured_derived.add(base)
                return None
            if meth in FRESH_METHODS:
                if base is None and all(v is None for v in allv):
                    return None
                return self.fresh(out)
            if base is None and all(v is None for v in allv):
                return None
            return self.unknown_call([base] + allv, out, "unknown method ." + meth)
        if isinstance(f, ast.Name):
            name = f.id
            if name in self.local_defs and self.lookup(name) is None:
                return self.inline(self.local_defs[name], e, out, "<local>." + name, None)
            v = self.lookup(name)
            pos, kws = self.args_of(e, out)
            allv = pos + list(kws.values())
            if v is not None:
                if v in self.captured_derived or v in self.operators:
                    return self.alias_or_fresh([v] + allv, out)      # child operator contract
                return self.unknown_call(allv, out, "callable variable " + name)  # callback parameter
            key = self.resolve([name])
            if key is not None:
                return self.call_in_scope(key, e, pos, kws, out)
            if name in NONE_BUILTINS:
                return None
            if name in FRESH_BUILTINS:
                return None if all(x is None for x in allv) else self.fresh(out)
            if name in CONTAINER_BUILTINS:
                t = self.alias_of(allv, out, "l")
                if t is not None:
                    self.containers.add(t)
                return t
            return self.unknown_call(allv, out, "unknown function " + name)
        pos, kws = self.args_of(e, out)
        return self.unknown_call(pos + list(kws.values()), out, "computed callee")

    def inline(self, m, e, out, label, via):
        """substitute the body of a private helper (`via` = "self": `self._m(..)`, "class": `Cls._m(..)`, None: a
        local closure) at the call `e`.  Parameters are fresh variables bound to the argument variables (positional
        and keyword arguments resolved against the signature, constant defaults), every name the body assigns is a
        fresh local, `return v` joins v into the result variable.  Outside this subset: Unsupported."""
        if label in self.inline_stack:
            raise Unsupported("%s: recursive helper %s" % (self.key, label))
        if len(self.inline_stack) >= 6:
            raise Unsupported("%s: helper nesting too deep at %s" % (self.key, label))
        a = m.args
        if a.vararg or a.kwarg or a.kwonlyargs or a.posonlyargs:
            raise Unsupported("%s: helper %s has a */** / keyword-only signature" % (self.key, label))
        static = False
        for d in m.decorator_list:
            if isinstance(d, ast.Name) and d.id == "staticmethod" and via is not None:
                static = True
            else:
                raise Unsupported("%s: decorated helper %s" % (self.key, label))
        for n in ast.walk(m):
            if isinstance(n, (ast.Yield, ast.YieldFrom, ast.Await, ast.Global, ast.Nonlocal, ast.Lambda, ast.AsyncFunctionDef,
                              ast.ClassDef)):
                raise Unsupported("%s: helper %s uses %s" % (self.key, label, type(n).__name__))
        params = [x.arg for x in a.args]
        cargs = list(e.args)
        if any(isinstance(x, ast.Starred) for x in cargs) or any(k.arg is None for k in e.keywords):
            raise Unsupported("%s: */** arguments in the call of helper %s" % (self.key, label))
        if via is not None and not static:
            if not params or params[0] != "self":
                raise Unsupported("%s: helper method %s without self" % (self.key, label))
            params = params[1:]
            if via == "class":
                if not cargs or not (isinstance(cargs[0], ast.Name) and cargs[0].id == "self" and self.lookup("self") is None):
                    raise Unsupported("%s: %s called through the class on another object" % (self.key, label))
                cargs = cargs[1:]
        if len(cargs) > len(params):
            raise Unsupported("%s: too many arguments for helper %s" % (self.key, label))
        given = {}
        for p_, x in zip(params, cargs):
            given[p_] = self.ev(x, out)                 # evaluated in the CALLER's scope, in call order
        for k in e.keywords:
            if k.arg not in params or k.arg in given:
                raise Unsupported("%s: bad keyword %s for helper %s" % (self.key, k.arg, label))
            given[k.arg] = self.ev(k.value, out)
        ndef = len(a.defaults)
        defaults = dict(zip([x.arg for x in a.args][len(a.args) - ndef:], a.defaults))
        for p_ in params:
            if p_ not in given:
                if p_ not in defaults or not isinstance(defaults[p_], ast.Constant):
                    raise Unsupported("%s: argument %s of helper %s missing / non-constant default" % (self.key, p_, label))
                given[p_] = None
        # callee scope: parameters and every assigned name are fresh variables (a closure additionally sees the
        # caller's variables, read-only: an assignment in the body never rebinds a variable of the caller)
        sc = {}
        for p_ in params:
            sc[p_] = self.new("%s:%s" % (label, p_))
        for n in ast.walk(m):
            if isinstance(n, ast.Name) and isinstance(n.ctx, (ast.Store, ast.Del)) and n.id not in sc:
                sc[n.id] = self.new("%s:%s" % (label, n.id))
        saved = self.scopes
        self.scopes = (list(saved) if via is None else []) + [sc]
        if via is None and len(self.scopes) == 1:
            self.scopes = [{}] + self.scopes
        res = self.tmp("inl")
        out.append(("alias", res, []))
        for p_ in params:
            self.assign_target(ast.Name(id=p_, ctx=ast.Store()), given[p_], out)
        self.ret_stack.append([res, False])
        self.inline_stack.append(label)
        self.cur_fn.append(m)
        try:
            import copy
            body, _ = self.block(_flatten_with(copy.deepcopy(m.body), self))
        finally:
            self.cur_fn.pop()
            self.inline_stack.pop()
            r = self.ret_stack.pop()
            self.scopes = saved
        out.extend(body)
        return res if r[1] else None

    def app_call(self, e, f, chain, out):
        """constructor calls and `.run()` in the app modules; NotImplemented = not one of those"""
        name = None
        if isinstance(f, ast.Attribute) and f.attr == "__init__" and isinstance(f.value, ast.Call) and \
                isinstance(f.value.func, ast.Name) and f.value.func.id == "super" and self.cls is not None:
            name = "super().__init__"
        elif isinstance(f, ast.Name) and f.id[:1].isupper() and f.id not in NONE_BUILTINS and self.lookup(f.id) is None:
            name = f.id
        elif chain and chain[-1][:1].isupper() and chain[0] in MODULE_NAMES | {"alg", "app"} and len(chain) >= 2:
            name = chain[-1]
        if name is not None:
            pos, star, kws = [], [], {}
            for a in e.args:
                if isinstance(a, ast.Starred):
                    star.append(self.ev(a.value, out))
                else:
                    pos.append(self.ev(a, out))
            for k in e.keywords:
                (star.append if k.arg is None else (lambda v, kk=k.arg: kws.__setitem__(kk, v)))(self.ev(k.value, out))
            if name in ("Device",):
                return None
            for i, kw in ALG_WRITES.get(name, []):
                if i < len(pos):
                    v = pos[i]
                elif kw in kws:
                    v = kws[kw]
                else:
                    for sv in star:      # the in/out argument may travel in *args / **kwargs
                        if sv is not None:
                            out.append(("mut", sv))
                    continue
                if v is not None:
                    out.append(("mut", v))
            allv = [v for v in pos + star + list(kws.values()) if v is not None]
            t = self.tmp("obj")
            out.append(("call", t, [], allv))
            self.operators.add(t)
            return t
        if isinstance(f, ast.Attribute) and f.attr == "run" and not e.args and not e.keywords:
            base = self.ev(f.value, out)
            return None if base is None else self.alias_or_fresh([base], out)
        return NotImplemented

    # ---- statements ----------------------------------------------------------------------------
    def assign_target(self, t, v, out, fresh_scope=False):
        if isinstance(t, ast.Name):
            if fresh_scope:
                d = self.new(t.id)
                self.scopes[-1][t.id] = d
            else:
                d = self.bind(t.id)
            out.append(("alias", d, [v] if v is not None else []))
            if v is not None and v in self.operators:
                self.operators.add(d)
            else:
                self.operators.discard(d)
            if v is not None and v in self.containers:
                self.containers.add(d)
            if v is not None and v in self.captured_derived:
                self.captured_derived.add(d)
            else:
                self.captured_derived.discard(d)
            return
        if isinstance(t, (ast.Tuple, ast.List)):
            for x in t.elts:
                if isinstance(x, ast.Starred):
                    x = x.value
                self.assign_target(x, v, out, fresh_scope)
            return
        if isinstance(t, ast.Subscript):
            base = self.ev(t.value, out)
            self.ev(t.slice, out)
            if base is not None:
                out.append(("mut", base))
                # ndarray: the VALUES are copied.  Python container: the element reference is stored.
                if v is not None and self.is_container(t.value, base):
                    out.append(("alias", base, [base, v]))
            return
        if isinstance(t, ast.Attribute):
            chain = attr_chain(t)
            if chain and chain[0] == "self" and self.is_method:
                out.append(("mut", self.capt["self"]))   # attribute write: the object changes
                if self.app and len(chain) == 2:
                    # (re)binding: later reads of self.<attr> may see the old or the new value (weak update)
                    slot = self.capt[chain[1]]
                    out.append(("alias", slot, [slot] + ([v] if v is not None else [])))
                    if v is not None and v in self.operators:
                        self.operators.add(slot)
                return
            base = self.ev(t.value, out)
            if base is not None:
                out.append(("mut", base))
            return
        raise Unsupported("%s: assignment target %s" % (self.key, type(t).__name__))

    def is_container(self, expr, var):
        if var in self.containers:
            return True
        # a name bound to a container anywhere in the function (flow-insensitive)
        if isinstance(expr, ast.Name):
            return self.lookup(expr.id) in self.containers
        return False

    def cpu_arm(self, test):
        """True: the `if` body is the CPU arm (`xp == np`, `np == xp`, `xp is np`); False: the else arm is (`xp != np`,
        `xp is not np`, `not (xp == np)`); None: not a CPU/GPU test"""
        if isinstance(test, ast.UnaryOp) and isinstance(test.op, ast.Not):
            r = self.cpu_arm(test.operand)
            return None if r is None else not r
        if isinstance(test, ast.Compare) and len(test.ops) == 1 and isinstance(test.left, ast.Name) \
                and isinstance(test.comparators[0], ast.Name):
            names = {test.left.id, test.comparators[0].id}
            if names in ({"xp", "np"}, {"xp", "numpy"}) and self.lookup("np") is None and self.lookup("numpy") is None:
                if isinstance(test.ops[0], (ast.Eq, ast.Is)):
                    return True
                if isinstance(test.ops[0], (ast.NotEq, ast.IsNot)):
                    return False
        return None

    def block(self, stmts):
        """-> (list of IR nodes, definitely_returns)"""
        out = []
        for i, s in enumerate(stmts):
            if isinstance(s, ast.Return) and self.ret_stack:
                v = self.ev(s.value, out)      # return of an inlined helper: weak update of the call's result
                r = self.ret_stack[-1]
                if v is not None:
                    out.append(("alias", r[0], [r[0], v]))
                    r[1] = True
                    for fl in (self.containers, self.captured_derived, self.operators):
                        if v in fl:
                            fl.add(r[0])
                return out, True
            if isinstance(s, ast.Return):
                v = self.ev(s.value, out)
                if v is not None:
                    out.append(("ret", v))
                    if v in self.containers:
                        self.returns_container = True
                return out, True
            if isinstance(s, ast.Raise):
                return out, True
            if isinstance(s, ast.If):
                self.ev(s.test, out)
                arm = self.cpu_arm(s.test)
                if arm is not None:
                    b, r = self.block(s.body if arm else s.orelse)
                    out.extend(b)
                    if r:
                        return out, True
                    continue
                b1, r1 = self.block(s.body)
                b2, r2 = self.block(s.orelse)
                if r1 or r2:
                    rr = True
                    a1, a2 = b1, b2
                    if not r1:
                        rest, rr = self.block(stmts[i + 1:])
                        a1 = b1 + rest
                    if not r2:
                        rest, rr = self.block(stmts[i + 1:])
                        a2 = b2 + rest
                    out.append(("branch", a1, a2))
                    return out, rr
                out.append(("branch", b1, b2))
                continue
            out.extend(self.stmt(s))
        return out, False

    def stmt(self, s):
        out = []
        if isinstance(s, ast.Expr):
            if not isinstance(s.value, ast.Constant):
                self.ev(s.value, out)
        elif isinstance(s, ast.Assign):
            v = self.ev(s.value, out)
            for t in s.targets:
                self.assign_target(t, v, out)
        elif isinstance(s, ast.AnnAssign):
            v = self.ev(s.value, out)
            self.assign_target(s.target, v, out)
        elif isinstance(s, ast.AugAssign):
            r = self.ev(s.value, out)
            t = s.target
            if isinstance(t, ast.Name) and self.app and self.lookup(t.id) in self.operators:
                # `AHA += lamda * I` on a Linop: no class of linop.py defines an in-place operator (checked on
                # every run), so this is `AHA = AHA + ...`: a NEW Add object that references both operands
                if not self.g.linops_have_no_inplace_ops():
                    raise Unsupported("%s: linop.py defines in-place operator methods; `%s op= ...` may mutate the operator" % (self.key, t.id))
                d = self.bind(t.id)
                out.append(("alias", d, [d] + ([r] if r is not None else [])))
            elif isinstance(t, ast.Name):
                d = self.bind(t.id)
                # ndarray: in place.  Python scalar (`output = 0; output += A(x)`): rebinding to a new array.
                out.append(("mut", d))
                if r is not None:
                    f = self.fresh(out)
                    out.append(("alias", d, [d, f]))
            elif isinstance(t, ast.Subscript):
                base = self.ev(t.value, out)
                self.ev(t.slice, out)
                if base is not None:
                    out.append(("mut", base))
            elif isinstance(t, ast.Attribute):
                chain = attr_chain(t)
                if chain and chain[0] == "self" and self.is_method:
                    out.append(("mut", self.capt[chain[1]]))
                    out.append(("mut", self.capt["self"]))
                else:
                    base = self.ev(t, out)
                    if base is not None:
                        out.append(("mut", base))
            else:
                raise Unsupported("%s: augmented target" % self.key)
        elif isinstance(s, (ast.For, ast.While)):
            if isinstance(s, ast.For):
                it = self.ev(s.iter, out)
                body = []
                self.assign_target(s.target, it, body)
            else:
                body = []
                self.ev(s.test, body)
            b, _ = self.block(s.body)
            body.extend(b)
            out.append(("loop", body))
            if s.orelse:
                b, _ = self.block(s.orelse)
                out.extend(b)
        elif isinstance(s, ast.Try):
            b, _ = self.block(s.body)
            arms = [b]
            for h in s.handlers:
                hb, _ = self.block(h.body)
                arms.append(b + hb)
            node = arms[0]
            for a in arms[1:]:
                node = [("branch", node, a)]
            out.extend(node)
            for extra in (s.orelse, s.finalbody):
                b, _ = self.block(extra)
                out.extend(b)
        elif isinstance(s, (ast.Assert,)):
            self.ev(s.test, out)
        elif isinstance(s, (ast.Pass, ast.Import, ast.ImportFrom)):
            pass
        elif isinstance(s, ast.FunctionDef):
            if not self.app:
                # local helper closure: inlined at its calls; it must never be used as a value (callback) or rebound
                uses = [n for n in ast.walk(self.cur_fn[-1]) if isinstance(n, ast.Name) and n.id == s.name]
                calls = [n.func for n in ast.walk(self.cur_fn[-1]) if isinstance(n, ast.Call) and isinstance(n.func, ast.Name)
                         and n.func.id == s.name]
                ndefs = [n for n in ast.walk(self.cur_fn[-1]) if isinstance(n, (ast.FunctionDef, ast.ClassDef)) and n.name == s.name]
                if len(uses) != len(calls) or len(ndefs) != 1 or self.lookup(s.name) is not None:
                    raise Unsupported("%s: nested function %s is used as a value / rebound" % (self.key, s.name))
                self.local_defs[s.name] = s
                return out
            d = self.bind(s.name)            # a callable, holds no array itself; its body is the program <key>.<name>
            out.append(("alias", d, []))
            self.operators.add(d)
        else:
            raise Unsupported("%s: statement %s (line %d)" % (self.key, type(s).__name__, s.lineno))
        return out

    def run(self):
        if self.closure is not None:
            import copy

            class Strip(ast.NodeTransformer):
                def visit_FunctionDef(self, node):
                    return node          # nested bodies are separate programs
                def visit_Return(self, node):
                    return ast.copy_location(ast.Expr(value=node.value if node.value is not None else ast.Constant(value=None)), node)
            outer = Strip()
            pre_stmts = [outer.visit(copy.deepcopy(st)) for st in self.fn.body]
            pre = self.block_with(pre_stmts)
            self.scopes.append(self.inner_scope)
            inner = self.block_with(copy.deepcopy(self.closure.body))
            self.scopes.pop()
            # the closure runs in the environment the enclosing method leaves behind (any of its bindings: a loop
            # over the method body gives the flow-insensitive join), possibly many times
            body = [("loop", pre), ("loop", inner)]
            return dict(key=self.key, lean=self.g.lean_name(self.key), n=max(1, len(self.names)), np=self.np,
                        nc=len(self.capt_order), params=self.params, captured=self.capt_order, names=self.names,
                        body=body, line=self.closure.lineno, path=MODULES[self.mk], vararg=False, returns_container=False)
        body = self.block_with(self.fn.body)
        return dict(key=self.key, lean=self.g.lean_name(self.key), n=max(1, len(self.names)), np=self.np,
                    nc=len(self.capt_order), params=self.params, captured=self.capt_order, names=self.names,
                    body=body, line=self.fn.lineno, path=MODULES[self.mk], vararg=getattr(self, "vararg", False),
                    returns_container=self.returns_container)

    def block_with(self, stmts):
        # `with device: return ...` is common: flatten `with` so that returns inside are seen by block()
        return self.block(_flatten_with(stmts, self))[0]


def _flatten_with(stmts, tr):
    """replace `with ctx: body` by `ctx; body` (context managers here are devices: no array effects)"""
    out = []
    for s in stmts:
        if isinstance(s, ast.With):
            for it in s.items:
                if it.optional_vars is not None:
                    raise Unsupported("%s: with ... as" % tr.key)
                c = attr_chain(it.context_expr) if not isinstance(it.context_expr, ast.Call) else attr_chain(it.context_expr.func)
                if not c or not (c[-1] in ("device", "get_device", "x_device", "y_device") or c[0] == "device"):
                    raise Unsupported("%s: unknown context manager (line %d)" % (tr.key, s.lineno))
            out.extend(_flatten_with(s.body, tr))
        else:
            for fld in ("body", "orelse", "finalbody"):
                if hasattr(s, fld) and isinstance(getattr(s, fld), list) and not isinstance(s, (ast.FunctionDef, ast.ClassDef)):
                    setattr(s, fld, _flatten_with(getattr(s, fld), tr))
            if isinstance(s, ast.Try):
                for h in s.handlers:
                    h.body = _flatten_with(h.body, tr)
            out.append(s)
    return out


# ---- Lean rendering ------------------------------------------------------------------------------
def _fl(vs):
    return "[" + ", ".join(str(v) for v in vs) + "]"


def render(nodes, g, ind=4):
    pad = " " * ind
    items = []
    for nd in nodes:
        k = nd[0]
        if k == "fresh":
            items.append("iFresh %d" % nd[1])
        elif k == "alias":
            items.append("iAlias %d %s" % (nd[1], _fl(nd[2])))
        elif k == "copy":
            items.append("iCopy %d %d" % (nd[1], nd[2]))
        elif k == "mut":
            items.append("iMut %d" % nd[1])
        elif k == "call":
            items.append("iCall %d %s %s" % (nd[1], _fl(nd[2]), _fl(nd[3])))
        elif k == "callS":
            args = "[" + ", ".join("none" if a is None else "some %d" % a for a in nd[3]) + "]"
            items.append("callS %d %s %s" % (nd[1], g.summ_name(nd[2]), args))
        elif k == "ret":
            items.append("iRet %d" % nd[1])
        elif k == "branch":
            items.append(".branch\n%s  (%s)\n%s  (%s)" % (pad, render(nd[1], g, ind + 4), pad, render(nd[2], g, ind + 4)))
        elif k == "loop":
            items.append(".loop (%s)" % render(nd[1], g, ind + 4))
        else:
            raise ValueError(k)
    if not items:
        return ".skip"
    return "seqs [\n" + ",\n".join(pad + "  " + it for it in items) + "]"


# ---- mirror of Model/C02.lean `analyze` (untrusted: only proposes the literals `summ_<f>`; the theorem
# `summ_<f>_eq : summaryOf prog_<f> = summ_<f>` is what ties call sites to the callee's analysis) --------
LOOP_FUEL = 12


def _join(a, b):
    env = {v: a[0].get(v, frozenset()) | b[0].get(v, frozenset()) for v in set(a[0]) | set(b[0])}
    return (env, a[1] | b[1], a[2] | b[2], a[3] and b[3])


def _leq(a, b):
    return (all(s <= b[0].get(v, frozenset()) for v, s in a[0].items()) and a[1] <= b[1] and a[2] <= b[2])


def py_analyze(nodes, st, summ):
    env, wr, ret, ok = dict(st[0]), set(st[1]), set(st[2]), st[3]
    g = lambda v: env.get(v, frozenset())
    for nd in nodes:
        k = nd[0]
        if k in ("fresh", "copy"):
            env[nd[1]] = frozenset(["F"])
        elif k == "alias":
            env[nd[1]] = frozenset().union(*[g(x) for x in nd[2]]) if nd[2] else frozenset()
        elif k == "mut":
            wr |= g(nd[1])
        elif k in ("call", "callS"):
            if k == "callS":
                sm = summ[nd[2]]
                args = nd[3]
                if sm["ok"]:
                    muts = [args[i] for i in sm["muts"] if i < len(args) and args[i] is not None]
                    alis = [args[i] for i in sm["alis"] if i < len(args) and args[i] is not None]
                else:
                    muts = alis = [a for a in args if a is not None]
            else:
                muts, alis = nd[2], nd[3]
            for m in muts:
                wr |= g(m)
            env[nd[1]] = frozenset(["F"]).union(*[g(x) for x in alis])
        elif k == "ret":
            ret |= g(nd[1])
        elif k == "branch":
            cur = (env, frozenset(wr), frozenset(ret), ok)
            r = _join(py_analyze(nd[1], cur, summ), py_analyze(nd[2], cur, summ))
            env, wr, ret, ok = dict(r[0]), set(r[1]), set(r[2]), r[3]
        elif k == "loop":
            a0 = (dict(env), frozenset(wr), frozenset(ret), ok)
            A = a0
            for _ in range(LOOP_FUEL):
                A2 = _join(A, py_analyze(nd[1], A, summ))
                if _leq(A2, A):
                    break
                A = A2
            B = py_analyze(nd[1], A, summ)
            ok2 = a0[3] and B[3] and _leq(a0, A) and _leq(B, A)
            env, wr, ret, ok = dict(A[0]), set(A[1]), set(A[2]), ok2
    return (env, frozenset(wr), frozenset(ret), ok)


def py_summary(info, summ):
    env = {i: frozenset(["P%d" % i]) for i in range(info["np"])}
    env.update({info["np"] + k: frozenset(["C%d" % k]) for k in range(info["nc"])})
    r = py_analyze(info["body"], (env, frozenset(), frozenset(), True), summ)
    ok = r[3] and not any(o.startswith("C") for o in r[1])
    return dict(ok=ok, muts=[i for i in range(info["np"]) if "P%d" % i in r[1]],
                alis=[i for i in range(info["np"]) if "P%d" % i in r[2]],
                clean=r[3] and all(o == "F" for o in r[1]), wr=sorted(r[1]), ret=sorted(r[2]))


HEADER = ("/- GENERATED by harness/translate/gen_c02.py from sigpy/{linop,prox,util,fourier,interp,conv,block,"
          "wavelet,thresh}.py and sigpy/mri/util.py — do not edit; regenerated on every check. -/\n")

_LAST = {}


def generate():
    g = Gen()
    failed = {}
    for key in g.in_scope():
        try:
            g.need(key)
        except Unsupported as e:
            failed[key] = str(e)
            g.active = []
    return g, failed


def gen_effects(ctx=None):
    g, failed = generate()
    _LAST["gen"], _LAST["failed"] = g, failed
    out = [HEADER, "import SigpyVerif.Model.C02\nset_option linter.unusedVariables false\n"
                   "namespace SigpyVerif.Gen.Effects\nopen SigpyVerif.C02\n"]
    for key in g.order:
        info = g.done[key]
        vars_doc = " ".join("%d=%s" % (i, n) for i, n in enumerate(info["names"][:info["np"] + info["nc"]]))
        out.append("/-- %s:%d `%s`  params/captured: %s -/\ndef %s : Func %d :=\n  { np := %d, nc := %d, body :=\n    %s }\n" % (
            info["path"], info["line"], key, vars_doc, info["lean"], info["n"], info["np"], info["nc"],
            render(info["body"], g, 4)))
        sm = info["summary"]
        out.append("def %s : Summary := { ok := %s, muts := %s, alis := %s }\n" % (
            g.summ_name(key), "true" if sm["ok"] else "false", _fl(sm["muts"]), _fl(sm["alis"])))
    out.append("/-- name ↦ summary line (evaluated by the driver) -/\ndef effectTable : List (String × (Unit → String)) := [\n" +
               ",\n".join('  ("%s", fun _ => %s.summary)' % (k, g.done[k]["lean"]) for k in g.order) + "]\n")
    out.append("/-- functions the translator could not express (outside its subset): their obligations are BROKEN -/\n"
               "def untranslated : List (String × String) := [\n" +
               ",\n".join('  ("%s", "%s")' % (k, v.replace('"', "'").replace("\\", "/")) for k, v in sorted(failed.items())) + "]\n")
    out.append("end SigpyVerif.Gen.Effects\n")
    if ctx is not None and failed:
        for k, v in sorted(failed.items()):
            ctx.oblige("translate:effects:" + k, "translate", False, "outside the translator's subset: " + v)
    return "\n".join(out)


def app_class(key):
    for c in APP_ALLOWED:
        if key.startswith(c + "."):
            return c
    return None


def allowed_slots(g, key):
    """origins an app method / closure may write besides fresh arrays, as (lean term, "Ck"/"Pk", display name); None for a
    plain function"""
    c = app_class(key)
    if c is None:
        return None
    info = g.done[key]
    capt, params = info["captured"], info["params"]
    out = [(".captured 0", "C0", "self")]
    for a in APP_ALLOWED[c]:
        if a == "**kwargs":
            if "kwargs" in params:
                out.append((".param %d" % params.index("kwargs"), "P%d" % params.index("kwargs"), "**kwargs"))
            if "outer:kwargs" in capt:
                out.append((".captured %d" % capt.index("outer:kwargs"), "C%d" % capt.index("outer:kwargs"), "**kwargs of the enclosing constructor"))
        elif a in capt:
            out.append((".captured %d" % capt.index(a), "C%d" % capt.index(a), "self." + a))
    return out


def private_inplace(g):
    """NEW private module-level helpers (single underscore, not in MUST_BE_CLEAN, reached only through call sites of
    in-scope functions) whose analysis converged and that write nothing but their own parameters / fresh arrays:
    they carry no `_ok` obligation; every caller accounts for the writes through `summ_<f>` (tied to the helper's own
    analysis by `summ_<f>_eq`).  A helper whose analysis fails (`ok` false) keeps its (failing) obligation."""
    called = set()

    def walk(nodes):
        for nd in nodes:
            if nd[0] == "callS":
                called.add(nd[2])
            elif nd[0] == "branch":
                walk(nd[1]); walk(nd[2])
            elif nd[0] == "loop":
                walk(nd[1])
    for k in g.order:
        walk(g.done[k]["body"])
    out = {}
    for k in g.order:
        nm = k.split(".")[-1]
        sm = g.done[k]["summary"]
        if (g.funcs[k][2] is None and nm.startswith("_") and not nm.startswith("__") and k not in MUST_BE_CLEAN
                and k not in INPLACE_BY_CONTRACT and k not in NEEDS_RUNTIME and k in called and sm["ok"] and not sm["clean"] and sm["muts"]):
            out[k] = "private helper, writes its parameter(s) %s (accounted for at every call site)" % sm["muts"]
    return out


def ok_keys(g):
    pi = private_inplace(g)
    return [k for k in g.order if k not in INPLACE_BY_CONTRACT and k not in NEEDS_RUNTIME and k not in pi]


def gen_effects_ok(ctx=None):
    if "gen" not in _LAST:
        gen_effects(None)
    g = _LAST["gen"]
    out = [HEADER, "import SigpyVerif.Gen.Effects\nnamespace SigpyVerif.Gen.Effects\nopen SigpyVerif.C02\n"]
    for key in ok_keys(g):
        nm = g.done[key]["lean"]
        al = allowed_slots(g, key)
        if al is None:
            out.append("theorem %s_ok : noMutation %s = true := by decide\n" % (nm, nm))
        else:
            out.append("/-- `%s` writes only fresh arrays, the object itself and: %s -/\ntheorem %s_ok : writesOnly %s [%s] = true := by decide +kernel\n" % (
                key, ", ".join(a[2] for a in al[1:]) or "nothing else", nm, nm, ", ".join(a[0] for a in al)))
    out.append("/-! call sites use the literal `summ_<f>`; these theorems tie it to the callee's own analysis -/\n")
    for key in g.order:
        if g.funcs[key][2] is None:
            out.append("theorem %s_eq : summaryOf %s = %s := by decide\n" % (g.summ_name(key), g.lean_name(key), g.summ_name(key)))
    out.append("/-- in-place by documented contract (no obligation; callers use the computed summary) -/\n"
               "def inplaceByContract : List (String × String) := [\n" +
               ",\n".join('  ("%s", "%s")' % kv for kv in sorted(INPLACE_BY_CONTRACT.items())) + "]\n")
    out.append("/-- new private helpers that write a parameter: no obligation of their own, callers use the summary -/\n"
               "def privateInplaceHelpers : List (String × String) := [\n" +
               ",\n".join('  ("%s", "%s")' % kv for kv in sorted(private_inplace(g).items())) + "]\n")
    out.append("/-- not provable by the analysis: covered by the runtime stream only -/\n"
               "def needsRuntime : List (String × String) := [\n" +
               ",\n".join('  ("%s", "%s")' % kv for kv in sorted(NEEDS_RUNTIME.items())) + "]\n")
    out.append("end SigpyVerif.Gen.Effects\n")
    return "\n".join(out)


GENERATORS = {"Effects": gen_effects, "EffectsOk": gen_effects_ok}
