"""Normalisation of harmless spelling differences BEFORE the translator passes match the source
(used by gen_c09.py: Gen.Block / Gen.UtilFormulas / Gen.LinopFormulas, and by gen_c05.py: Gen.Fourier).

Everything here is semantics-preserving on the accepted subset and FAIL-CLOSED outside it:

  CanonExpr / CanonKernel   integer expressions built from + - * (and ** const) are brought to a canonical
        polynomial form over the commutative ring Z before they are printed: `b + n*S`, `n*S + b`, `S*n + b`
        print the same Lean term, `(i + s - b) // s` and `(i - b + s) // s` print the same Lean term, and a
        changed coefficient / sign / operand prints a DIFFERENT term (two polynomials print the same text iff
        they are equal as polynomials; `//`, `%`, `max`, `min`, `x.shape[k]` are opaque atoms whose arguments
        are canonicalised recursively).  The print order is fixed by a rank on atoms (locals in binding order,
        then parameters in declaration order / the order given by the caller, then variable-free atoms, then
        constants); it is chosen so that the spelling of the pinned source is its own canonical form.
        `max`/`min` of two ints print their arguments in rank order.
        Integer comparisons are oriented by the same rank (`N > n` prints as `n < N`), chains `0 <= n < N`
        and `and`-nests are flattened, `not` is pushed through and/or onto integer comparisons (De Morgan),
        and `if not c: A else: B` is read as `if c: B else: A`.
  bind_call      positional <-> keyword arguments resolved against the callee's signature.
  inline_helpers calls to small private module-level helpers of the same file are replaced by their body
        (parameters substituted; `if <constant>` folded afterwards); recursion, *args/**kwargs, a helper that
        is not straight-line-with-one-trailing-return, a name clash or a non-trivial argument bound to a
        re-assigned parameter raise Unsupported.
  loops_to_comps `x = []` followed by `for T in IT: x.append(E)` becomes `x = [E for T in IT]`;
        `tuple(<genexp>)` / `list(<genexp>)` become `tuple([..])` / `[..]`.
  comp_formula   `[E for a, b in zip(X, Y)]` -> E with the bound names renamed to canonical parameter
        names chosen by the ITERABLES (so the argument order of the generated definition does not depend
        on how the comprehension spells its variables, and a swapped zip changes the definition).
"""
import ast
import copy

from harness.translate import py2lean as T

Unsupported = T.Unsupported
INT, RAT = T.INT, T.RAT


# ------------------------------------------------------------------------------------------------
# canonical integer polynomials
# ------------------------------------------------------------------------------------------------
BIG = 10 ** 6


class Poly:
    """integer polynomial: {monomial: coeff}; monomial = tuple of atom keys sorted by rank; an atom key is
    (rank tuple, lean text)"""

    def __init__(self, terms=None):
        self.t = {m: c for m, c in (terms or {}).items() if c != 0}

    @staticmethod
    def const(v):
        return Poly({(): v})

    @staticmethod
    def atom(rank, text):
        return Poly({((rank, text),): 1})

    def add(self, o, sign=1):
        t = dict(self.t)
        for m, c in o.t.items():
            t[m] = t.get(m, 0) + sign * c
        return Poly(t)

    def mul(self, o):
        t = {}
        for m1, c1 in self.t.items():
            for m2, c2 in o.t.items():
                m = tuple(sorted(m1 + m2))
                t[m] = t.get(m, 0) + c1 * c2
        return Poly(t)

    def neg(self):
        return Poly({m: -c for m, c in self.t.items()})

    def key(self):
        """rank of the polynomial as a whole (for orienting comparisons): its smallest atom; constants last"""
        ks = [m[0][0] for m in self.t if m]
        return min(ks) if ks else (3, 0)

    def show(self):
        if not self.t:
            return "(0 : Int)"
        terms = sorted(self.t.items(), key=lambda mc: (-len(mc[0]), [a for a in mc[0]]))
        acc = None
        for m, c in terms:
            if not m:
                txt = "(%d : Int)" % abs(c)
            else:
                txt = m[0][1]
                for a in m[1:]:
                    txt = "(%s * %s)" % (txt, a[1])
                if abs(c) != 1:
                    txt = "((%d : Int) * %s)" % (abs(c), txt)
            if acc is None:
                acc = txt if c > 0 else "(-%s)" % txt
            else:
                acc = "(%s %s %s)" % (acc, "+" if c > 0 else "-", txt)
        return acc


class CanonExpr(T.Expr):
    """T.Expr whose integer + - * sub-expressions are printed in canonical polynomial form.
    `params`: names ranked as parameters (in this order); every other name of the environment is a local,
    ranked by binding order."""

    def __init__(self, env, arrays=None, shapes=None, funcs=None, params=()):
        super().__init__(env, arrays, shapes, funcs)
        self.params = list(params)

    def rank(self, name):
        if name in self.params:
            return (1, self.params.index(name))
        names = [n for n in self.env if n not in self.params]
        return (0, names.index(name)) if name in names else (1, BIG)

    def _names(self, e):
        return [n.id for n in ast.walk(e) if isinstance(n, ast.Name) and n.id in self.env]

    def poly(self, e):
        """Poly for an int expression made of + - * ** over ints, else None"""
        if isinstance(e, ast.Constant):
            if isinstance(e.value, int) and not isinstance(e.value, bool):
                return Poly.const(e.value)
            return None
        if isinstance(e, ast.Name):
            if self.env.get(e.id) == INT:
                return Poly.atom(self.rank(e.id), T.nm(e.id))
            return None
        if isinstance(e, ast.UnaryOp) and isinstance(e.op, (ast.USub, ast.UAdd)):
            p = self.operand(e.operand)
            if p is None:
                return None
            return p.neg() if isinstance(e.op, ast.USub) else p
        if isinstance(e, ast.BinOp) and isinstance(e.op, (ast.Add, ast.Sub, ast.Mult)):
            a, b = self.operand(e.left), self.operand(e.right)
            if a is None or b is None:
                return None
            if isinstance(e.op, ast.Add):
                return a.add(b)
            if isinstance(e.op, ast.Sub):
                return a.add(b, -1)
            return a.mul(b)
        if isinstance(e, ast.BinOp) and isinstance(e.op, ast.Pow) and isinstance(e.right, ast.Constant) \
                and isinstance(e.right.value, int) and not isinstance(e.right.value, bool) and 0 <= e.right.value <= 8:
            a = self.operand(e.left)
            if a is None:
                return None
            p = Poly.const(1)
            for _ in range(e.right.value):
                p = p.mul(a)
            return p
        return None

    def operand(self, e):
        """Poly of a sub-expression: polynomial structure if it has one, else an opaque INT atom; None when
        the sub-expression is not an int (the caller then falls back to the literal translation)"""
        p = self.poly(e)
        if p is not None:
            return p
        try:
            s, t = T.Expr.tr(self, e)   # literal translation of the node; children go through self.tr again
        except Unsupported:
            raise
        if t != INT:
            return None
        rs = [self.rank(n) for n in self._names(e)]
        return Poly.atom(min(rs) if rs else (2, 0), s)

    def e_Call(self, e):
        # max / min of two ints are commutative: print the arguments in rank order (`max(0, d)` = `max(d, 0)`)
        if isinstance(e.func, ast.Name) and e.func.id in ("max", "min") and len(e.args) == 2 and not e.keywords:
            ops = [self.operand(a) for a in e.args]
            if all(o is not None for o in ops):
                txt = [self.tr(a)[0] for a in e.args]
                order = sorted(range(2), key=lambda k: (ops[k].key(), txt[k]))
                return ("(py%s %s %s)" % (e.func.id.capitalize(), txt[order[0]], txt[order[1]]), INT)
        return super().e_Call(e)

    def tr(self, e):
        if isinstance(e, (ast.BinOp, ast.UnaryOp)):
            p = self.poly(e)
            if p is not None:
                return (p.show(), INT)
        return super().tr(e)

    # ---- conditions ------------------------------------------------------------------------------
    FLIP = {ast.Lt: ast.Gt, ast.Gt: ast.Lt, ast.LtE: ast.GtE, ast.GtE: ast.LtE, ast.Eq: ast.Eq, ast.NotEq: ast.NotEq}
    NEG = {ast.Lt: ast.GtE, ast.GtE: ast.Lt, ast.Gt: ast.LtE, ast.LtE: ast.Gt, ast.Eq: ast.NotEq, ast.NotEq: ast.Eq}
    SYM = {ast.Lt: "<", ast.LtE: "≤", ast.Gt: ">", ast.GtE: "≥", ast.Eq: "=", ast.NotEq: "≠"}

    def _cmp(self, left, op, right, negate):
        (a, ta), (b, tb) = self.tr(left), self.tr(right)
        if type(op) not in self.SYM:
            raise Unsupported("comparison")
        if ta == INT and tb == INT:
            o = type(op)
            if negate:
                o = self.NEG[o]           # integers are totally ordered: ¬(a < b) ↔ a ≥ b
            ka, kb = self.operand(left).key(), self.operand(right).key()
            if kb < ka:
                a, b, o = b, a, self.FLIP[o]
            return "(%s %s %s)" % (a, self.SYM[o], b)
        t = RAT
        s = "(%s %s %s)" % (T._cast(a, ta, t), self.SYM[type(op)], T._cast(b, tb, t))
        return "(¬ %s)" % s if negate else s

    def conj(self, e, negate=False):
        """('and'|'or'|'atom', [parts]) in negation normal form"""
        if isinstance(e, ast.UnaryOp) and isinstance(e.op, ast.Not):
            return self.conj(e.operand, not negate)
        if isinstance(e, ast.BoolOp):
            is_and = isinstance(e.op, ast.And) != negate   # De Morgan
            parts = []
            for v in e.values:
                k, ps = self.conj(v, negate)
                if k == ("and" if is_and else "or") or (k == "atom"):
                    parts.extend(ps)
                else:
                    parts.append(self._join(k, ps))
            return ("and" if is_and else "or", parts)
        if isinstance(e, ast.Compare):
            parts, left = [], e.left
            for op, right in zip(e.ops, e.comparators):
                parts.append(self._cmp(left, op, right, negate))
                left = right
            if len(parts) == 1:
                return ("atom", parts)
            return ("or" if negate else "and", parts)
        raise Unsupported("condition %s" % ast.dump(e)[:80])

    @staticmethod
    def _join(kind, parts):
        if len(parts) == 1:
            return parts[0]
        return "(" + (" ∧ " if kind == "and" else " ∨ ").join(parts) + ")"

    def cond(self, e):
        k, ps = self.conj(e)
        return self._join(k, ps)


class CanonKernel(T.Kernel):
    """T.Kernel printing through CanonExpr; additionally reads `if not c: A else: B` as `if c: B else: A`
    and skips `pass`."""

    def lean(self, name):
        env = {p: INT for p in self.int_params}
        self.ex = CanonExpr(env, self.arrays, {self.out, self.inp} | set(self.extra_shapes), self.funcs,
                            params=self.int_params)
        body = self.block(self.fn.body, env, 1)
        params = []
        for f, (lean, argt, rt) in self.funcs.items():
            params.append("(%s : %s)" % (lean, " → ".join(["Rat" if t == RAT else "Int" for t in argt] + ["Rat" if rt == RAT else "Int"])))
        params.append("(%s : Int → Int)" % " ".join(a + "_shape" for a in [self.out, self.inp] + self.extra_shapes))
        for a, k in self.arrays.items():
            params.append("(%s : %s)" % (a, " → ".join(["Int"] * k + ["Rat"])))
        if self.int_params:
            params.append("(%s : Int)" % " ".join(T.nm(p) for p in self.int_params))
        kind = "accumulate (`+=`)" if self.accumulate else "assign (`=`)"
        return ("/-- generated from `%s` (update kind: %s) -/\ndef %s %s : List (Upd Rat) :=\n%s\n" % (
            self.fn.name, kind, name, " ".join(params), body)), self.accumulate

    def block(self, stmts, env, ind):
        stmts = [s for s in stmts if not isinstance(s, ast.Pass)]
        if stmts and isinstance(stmts[0], ast.If):
            s = stmts[0]
            if isinstance(s.test, ast.UnaryOp) and isinstance(s.test.op, ast.Not) and s.orelse:
                s2 = ast.If(test=s.test.operand, body=s.orelse, orelse=s.body)
                return super().block([s2] + list(stmts[1:]), env, ind)
        return super().block(stmts, env, ind)


def canon_formula(expr_node, int_vars, order=None):
    """T2 through the canonical printer: `order` (default `int_vars`) ranks the variables"""
    if order is not None and sorted(order) != sorted(int_vars):
        raise Unsupported("order %s is not a permutation of %s" % (order, int_vars))
    ex = CanonExpr({v: INT for v in int_vars}, params=list(order or int_vars))
    s, t = ex.tr(expr_node)
    if t != INT:
        raise Unsupported("formula is not an int")
    return s


# ------------------------------------------------------------------------------------------------
# AST helpers
# ------------------------------------------------------------------------------------------------
def u(node):
    return " ".join(ast.unparse(node).split())


def body_of(fn):
    b = list(fn.body)
    if b and isinstance(b[0], ast.Expr) and isinstance(b[0].value, ast.Constant) and isinstance(b[0].value.value, str):
        b = b[1:]
    return b


def signature(fn, drop_self=False):
    """([param names], {name: default node}) of a FunctionDef; *args/**kwargs/kw-only/pos-only: Unsupported"""
    a = fn.args
    if a.vararg or a.kwarg or a.kwonlyargs or a.posonlyargs:
        raise Unsupported("%s: signature outside the subset" % fn.name)
    names = [x.arg for x in a.args]
    defaults = dict(zip(names[len(names) - len(a.defaults):], a.defaults))
    if drop_self:
        if not names or names[0] != "self":
            raise Unsupported("%s: not a method" % fn.name)
        names = names[1:]
    return names, defaults


def bind_call(call, names, defaults=None, where=""):
    """positional <-> keyword: {param: argument node} for every parameter (defaults filled in);
    a starred / double-starred argument, an unknown or doubly-bound parameter, or a missing one raises"""
    defaults = defaults or {}
    out = {}
    if len(call.args) > len(names):
        raise Unsupported("%s: too many positional arguments: %s" % (where, u(call)))
    for n, a in zip(names, call.args):
        if isinstance(a, ast.Starred):
            raise Unsupported("%s: starred argument: %s" % (where, u(call)))
        out[n] = a
    for k in call.keywords:
        if k.arg is None or k.arg not in names or k.arg in out:
            raise Unsupported("%s: keyword %s: %s" % (where, k.arg, u(call)))
        out[k.arg] = k.value
    for n in names:
        if n not in out:
            if n not in defaults:
                raise Unsupported("%s: parameter %s not bound: %s" % (where, n, u(call)))
            out[n] = defaults[n]
    return out


class _Subst(ast.NodeTransformer):
    def __init__(self, m):
        self.m = m

    def visit_Name(self, n):
        if n.id in self.m:
            if not isinstance(n.ctx, ast.Load):
                raise Unsupported("substituted name %s is assigned" % n.id)
            return copy.deepcopy(self.m[n.id])
        return n


def _assigned(nodes):
    out = set()
    for s in nodes:
        for n in ast.walk(s):
            if isinstance(n, ast.Name) and isinstance(n.ctx, (ast.Store, ast.Del)):
                out.add(n.id)
            elif isinstance(n, (ast.FunctionDef, ast.ClassDef, ast.Lambda, ast.Global, ast.Nonlocal, ast.Import,
                                ast.ImportFrom, ast.Yield, ast.YieldFrom, ast.Await, ast.With, ast.Try, ast.While)):
                raise Unsupported("helper body outside the subset: %s" % type(n).__name__)
    return out


def _simple(e):
    """argument expressions that may be substituted for a parameter: names, constants, attribute chains"""
    if isinstance(e, (ast.Name, ast.Constant)):
        return True
    if isinstance(e, ast.Attribute):
        return _simple(e.value)
    if isinstance(e, ast.UnaryOp) and isinstance(e.op, ast.USub):
        return _simple(e.operand)
    return False


def _fold(stmts):
    """`if True/False` (after substitution), `not <const>`"""
    out = []
    for s in stmts:
        if isinstance(s, ast.If):
            t = s.test
            neg = False
            while isinstance(t, ast.UnaryOp) and isinstance(t.op, ast.Not):
                t, neg = t.operand, not neg
            if isinstance(t, ast.Constant) and isinstance(t.value, bool):
                out.extend(_fold(s.body if (t.value != neg) else s.orelse))
                continue
            s = ast.If(test=s.test, body=_fold(s.body), orelse=_fold(s.orelse))
        elif isinstance(s, ast.For):
            s = ast.For(target=s.target, iter=s.iter, body=_fold(s.body), orelse=_fold(s.orelse), type_comment=None)
        out.append(s)
    return out


def _helpers(module):
    return {n.name: n for n in module.body if isinstance(n, ast.FunctionDef) and n.name.startswith("_")
            and not n.decorator_list}


def _calls(node, names):
    return [n for n in ast.walk(node) if isinstance(n, ast.Call) and isinstance(n.func, ast.Name) and n.func.id in names]


def inline_helpers(module, fn, keep=(), max_depth=3, max_stmts=25):
    """a copy of FunctionDef `fn` in which calls to private module-level helpers (names starting with `_`,
    no decorator, defined in `module`, not in `keep`) are replaced by the helper's body.
      * `return h(..)` / `x = h(..)` as a whole statement: the helper's statements are spliced in (its single
        trailing `return e` becomes `return e` / `x = e`);
      * a call inside an expression: only helpers whose body is one `return e`.
    Parameters are bound by substitution when the argument is a name / constant / attribute chain and the
    parameter is not re-assigned in the helper (or the argument is the identically named variable);
    everything else is Unsupported (fail-closed), as are recursion and helpers that are not small."""
    helpers = {k: v for k, v in _helpers(module).items() if k not in keep and k != fn.name}
    fn = copy.deepcopy(fn)
    counter = [0]

    def expand(call, depth, caller_names, is_return=False):
        h = helpers[call.func.id]
        if depth > max_depth:
            raise Unsupported("helper nesting too deep / recursion at %s" % h.name)
        names, defaults = signature(h)
        bound = bind_call(call, names, defaults, h.name)
        hb = body_of(h)
        if not hb or len(hb) > max_stmts or not isinstance(hb[-1], ast.Return) or hb[-1].value is None:
            raise Unsupported("helper %s is not straight-line with a trailing return" % h.name)
        for s in hb[:-1]:
            for n in ast.walk(s):
                if isinstance(n, ast.Return):
                    raise Unsupported("helper %s has an early return" % h.name)
        if _calls(h, {h.name}):
            raise Unsupported("helper %s is recursive" % h.name)
        assigned = _assigned(hb)
        m = {}
        for p, a in bound.items():
            if isinstance(a, ast.Name) and a.id == p:
                # the caller's variable IS the parameter after inlining: a re-assignment inside the helper would
                # leak into the caller, which is only unobservable when the call is the caller's `return`
                if p in assigned and not is_return:
                    raise Unsupported("helper %s re-assigns %s, which the caller may read afterwards" % (h.name, p))
                continue
            if p in assigned or not _simple(a):
                raise Unsupported("helper %s: cannot bind %s := %s by substitution" % (h.name, p, u(a)))
            m[p] = a
        # comprehension / local names of the helper must not capture names of the arguments or of the caller
        arg_names = {n.id for a in m.values() for n in ast.walk(a) if isinstance(n, ast.Name)}
        locals_ = assigned - set(names)
        if locals_ & arg_names:
            raise Unsupported("helper %s: local name captures an argument" % h.name)
        # global names the helper reads must mean the same thing at the call site
        free = {n.id for x in hb for n in ast.walk(x) if isinstance(n, ast.Name)} - assigned - set(names)
        if free & caller_locals:
            raise Unsupported("helper %s reads %s, shadowed in the caller" % (h.name, sorted(free & caller_locals)))
        clash = locals_ & caller_names
        if clash and len(hb) > 1:
            # alpha-rename the helper's clashing locals to fresh names (sound: consistent within the helper body)
            counter[0] += 1
            ren = {x: "_h%d_%s" % (counter[0], x) for x in clash}
            if set(ren.values()) & (caller_names | assigned | set(names) | free):
                raise Unsupported("helper %s: cannot pick fresh names for %s" % (h.name, sorted(clash)))
            hb = [copy.deepcopy(x) for x in hb]
            for x in hb:
                for n in ast.walk(x):
                    if isinstance(n, ast.Name) and n.id in ren:
                        n.id = ren[n.id]
        hb = [_Subst(m).visit(copy.deepcopy(s)) for s in hb]
        hb = _fold(hb)
        return hb

    def stmts(body, depth, caller_names):
        out = []
        for s in body:
            if isinstance(s, (ast.Return, ast.Assign)) and isinstance(s.value, ast.Call) \
                    and isinstance(s.value.func, ast.Name) and s.value.func.id in helpers \
                    and (isinstance(s, ast.Return) or (len(s.targets) == 1 and isinstance(s.targets[0], ast.Name))):
                hb = expand(s.value, depth, caller_names, is_return=isinstance(s, ast.Return))
                hb = stmts(hb, depth + 1, caller_names)
                last = hb[-1]
                if not isinstance(last, ast.Return):
                    raise Unsupported("helper %s: trailing return folded away" % s.value.func.id)
                out.extend(hb[:-1])
                out.append(ast.Return(value=last.value) if isinstance(s, ast.Return)
                           else ast.Assign(targets=s.targets, value=last.value, lineno=0))
                continue
            if isinstance(s, ast.If):
                s = ast.If(test=expr(s.test, depth, caller_names), body=stmts(s.body, depth, caller_names),
                           orelse=stmts(s.orelse, depth, caller_names))
            elif isinstance(s, ast.For):
                s = ast.For(target=s.target, iter=expr(s.iter, depth, caller_names), body=stmts(s.body, depth, caller_names),
                            orelse=stmts(s.orelse, depth, caller_names), type_comment=None)
            elif isinstance(s, ast.With):
                s = ast.With(items=s.items, body=stmts(s.body, depth, caller_names), type_comment=None)
            else:
                s = expr(s, depth, caller_names)
            out.append(s)
        return out

    def expr(node, depth, caller_names):
        class X(ast.NodeTransformer):
            def visit_Call(self, c):
                self.generic_visit(c)
                if isinstance(c.func, ast.Name) and c.func.id in helpers:
                    hb = expand(c, depth, caller_names)
                    if len(hb) != 1:
                        raise Unsupported("helper %s used inside an expression is not a single return" % c.func.id)
                    return expr(hb[0].value, depth + 1, caller_names)
                return c
        return X().visit(node)

    caller_names = {n.id for n in ast.walk(fn) if isinstance(n, ast.Name)} | {a.arg for a in fn.args.args}
    caller_locals = {n.id for n in ast.walk(fn) if isinstance(n, ast.Name) and isinstance(n.ctx, (ast.Store, ast.Del))} \
        | {a.arg for a in fn.args.args}
    fn.body = _fold(stmts(fn.body, 0, caller_names))
    ast.fix_missing_locations(fn)
    return fn


def loops_to_comps(fn):
    """a copy of `fn` with  `x = []` ; `for T in IT: x.append(E)`  ->  `x = [E for T in IT]`  (the two
    statements must be adjacent, the loop body exactly one append to x, no `else`, and E / IT must not read x),
    and tuple(<genexp>) / list(<genexp>) -> tuple([..]) / [..] (same iteration order, eager either way)."""
    fn = copy.deepcopy(fn)

    def reads(node, name):
        return any(isinstance(n, ast.Name) and n.id == name for n in ast.walk(node))

    def walk(body):
        out, i = [], 0
        while i < len(body):
            s = body[i]
            nxt = body[i + 1] if i + 1 < len(body) else None
            if (isinstance(s, ast.Assign) and len(s.targets) == 1 and isinstance(s.targets[0], ast.Name)
                    and ((isinstance(s.value, ast.List) and not s.value.elts)
                         or (isinstance(s.value, ast.Call) and u(s.value) == "list()"))
                    and isinstance(nxt, ast.For) and not nxt.orelse and len(nxt.body) == 1):
                x = s.targets[0].id
                b = nxt.body[0]
                guard = None
                if isinstance(b, ast.If) and not b.orelse and len(b.body) == 1:
                    guard, b = b.test, b.body[0]
                if (isinstance(b, ast.Expr) and isinstance(b.value, ast.Call) and u(b.value.func) == x + ".append"
                        and len(b.value.args) == 1 and not b.value.keywords
                        and not reads(b.value.args[0], x) and not reads(nxt.iter, x) and not reads(nxt.target, x)
                        and (guard is None or not reads(guard, x))):
                    comp = ast.ListComp(elt=b.value.args[0], generators=[ast.comprehension(
                        target=nxt.target, iter=nxt.iter, ifs=[guard] if guard is not None else [], is_async=0)])
                    out.append(ast.Assign(targets=s.targets, value=comp, lineno=0))
                    i += 2
                    continue
            for f in ("body", "orelse"):
                if isinstance(getattr(s, f, None), list) and isinstance(s, (ast.If, ast.For, ast.With)):
                    setattr(s, f, walk(getattr(s, f)))
            out.append(s)
            i += 1
        return out

    class G(ast.NodeTransformer):
        def visit_Call(self, c):
            self.generic_visit(c)
            if isinstance(c.func, ast.Name) and c.func.id in ("tuple", "list") and len(c.args) == 1 \
                    and not c.keywords and isinstance(c.args[0], ast.GeneratorExp):
                lc = ast.ListComp(elt=c.args[0].elt, generators=c.args[0].generators)
                if c.func.id == "list":
                    return lc
                return ast.Call(func=c.func, args=[lc], keywords=[])
            return c

    fn.body = walk(fn.body)
    fn = G().visit(fn)
    ast.fix_missing_locations(fn)
    return fn


def comp_formula(node, iter_names, order=None, where=""):
    """`[E for a, b in zip(X, Y)]` (or `for a in X`) -> (Lean text of E, [canonical parameter names]).
    `iter_names`: {unparsed iterable: canonical parameter name}; the iterables must be exactly these (in any
    order, each once).  The parameters of the generated definition are `iter_names`' values in THAT order, the
    comprehension's own variable names do not matter; `order` (default: the same) ranks the variables for
    canonical printing."""
    if not isinstance(node, ast.ListComp) or len(node.generators) != 1:
        raise Unsupported("%s: not a simple list comprehension: %s" % (where, u(node)))
    g = node.generators[0]
    if g.ifs or g.is_async:
        raise Unsupported("%s: comprehension filter" % where)
    t, it = g.target, g.iter
    if isinstance(it, ast.Call) and isinstance(it.func, ast.Name) and it.func.id == "zip" and not it.keywords:
        its = it.args
        tg = t.elts if isinstance(t, ast.Tuple) else None
    else:
        its, tg = [it], [t]
    if tg is None or len(tg) != len(its) or not all(isinstance(x, ast.Name) for x in tg):
        raise Unsupported("%s: comprehension target: %s" % (where, u(node)))
    got = [u(x) for x in its]
    if sorted(got) != sorted(iter_names) or len(set(got)) != len(got):
        raise Unsupported("%s: comprehension iterates over %s, expected %s" % (where, got, list(iter_names)))
    bound = [x.id for x in tg]
    if len(set(bound)) != len(bound):
        raise Unsupported("%s: repeated comprehension variable" % where)
    params = list(iter_names.values())
    tmp = {b: ast.Name(id="__p%d" % k, ctx=ast.Load()) for k, b in enumerate(bound)}
    elt = _Subst(tmp).visit(copy.deepcopy(node.elt))
    fin = {"__p%d" % k: ast.Name(id=iter_names[got[k]], ctx=ast.Load()) for k in range(len(bound))}
    elt = _Subst(fin).visit(elt)
    free = {n.id for n in ast.walk(elt) if isinstance(n, ast.Name)} - set(params) - {"max", "min", "abs", "int"}
    if free:
        raise Unsupported("%s: free names %s in %s" % (where, sorted(free), u(node)))
    return canon_formula(elt, params, order), params


# ------------------------------------------------------------------------------------------------
# statement-level normal forms used by the straight-line matchers (gen_c05.py)
# ------------------------------------------------------------------------------------------------
NUMPY_SIGS = {
    # numpy.fft (documented signatures; trusted): fftn(a, s=None, axes=None, norm=None), fftshift(x, axes=None)
    "xp.fft.fftn": (["a", "s", "axes", "norm"], {"s": None, "axes": None, "norm": None}),
    "xp.fft.ifftn": (["a", "s", "axes", "norm"], {"s": None, "axes": None, "norm": None}),
    "xp.fft.fftshift": (["x", "axes"], {"axes": None}),
    "xp.fft.ifftshift": (["x", "axes"], {"axes": None}),
}


def sig_table(module, prefix="", only=None):
    """{prefix+name: (names, {name: default node})} for the module-level functions of an ast.Module"""
    out = {}
    for n in module.body:
        if isinstance(n, ast.FunctionDef) and (only is None or n.name in only):
            try:
                out[prefix + n.name] = signature(n)
            except Unsupported:
                pass   # *args etc.: calls to it are left as spelled
    return out


def canon_calls(fn, sigs):
    """a copy of `fn` in which every call to a function of `sigs` is spelled with ALL parameters positional,
    in signature order, defaults filled in (positional <-> keyword, omitted default <-> explicit default).
    `sigs`: {unparsed callee: (names, {name: default node | None for the constant None})}"""
    fn = copy.deepcopy(fn)

    class C(ast.NodeTransformer):
        def visit_Call(self, c):
            self.generic_visit(c)
            k = u(c.func)
            if k in sigs:
                names, defaults = sigs[k]
                d = {n: (ast.Constant(value=None) if v is None else v) for n, v in defaults.items()}
                b = bind_call(c, names, d, k)
                return ast.Call(func=c.func, args=[copy.deepcopy(b[n]) for n in names], keywords=[])
            return c

    fn = C().visit(fn)
    ast.fix_missing_locations(fn)
    return fn


def _simple_or_len(e):
    return _simple(e) or (isinstance(e, ast.Call) and isinstance(e.func, ast.Name) and e.func.id == "len"
                          and len(e.args) == 1 and not e.keywords and _simple(e.args[0]))


def inline_simple_temps(fn):
    """a copy of `fn` in which top-level `t = E` is dropped and t replaced by E in the statements after it, when
    t is a local assigned exactly once, E is a name / attribute chain / `len(<such>)`, and no name read by E is
    assigned anywhere in the function (so E denotes the same value wherever it is read)."""
    fn = copy.deepcopy(fn)
    params = {a.arg for a in fn.args.args}
    stores = {}
    for n in ast.walk(fn):
        if isinstance(n, ast.Name) and isinstance(n.ctx, (ast.Store, ast.Del)):
            stores[n.id] = stores.get(n.id, 0) + 1
    body, out = list(fn.body), []
    i = 0
    while i < len(body):
        s = body[i]
        if (isinstance(s, ast.Assign) and len(s.targets) == 1 and isinstance(s.targets[0], ast.Name)
                and s.targets[0].id not in params and stores.get(s.targets[0].id) == 1
                and _simple_or_len(s.value) and not isinstance(s.value, ast.Constant)
                and all(stores.get(n.id, 0) == 0 for n in ast.walk(s.value) if isinstance(n, ast.Name))):
            m = {s.targets[0].id: s.value}
            body = body[:i + 1] + [_Subst(m).visit(x) for x in body[i + 1:]]
            i += 1
            continue
        out.append(s)
        i += 1
    fn.body = out
    ast.fix_missing_locations(fn)
    return fn


def canon_ifs(fn):
    """a copy of `fn` with `if not c: A else: B` -> `if c: B else: A` (both branches non-empty), and
    `if c: ...; return e` followed by statements R  ->  `if c: ...; return e  else: R` (top level only)."""
    fn = copy.deepcopy(fn)

    def swap(stmts):
        out = []
        for s in stmts:
            if isinstance(s, ast.If):
                s.body, s.orelse = swap(s.body), swap(s.orelse)
                if isinstance(s.test, ast.UnaryOp) and isinstance(s.test.op, ast.Not) and s.orelse:
                    s = ast.If(test=s.test.operand, body=s.orelse, orelse=s.body)
            out.append(s)
        return out

    def tail(stmts):
        for i, s in enumerate(stmts):
            if isinstance(s, ast.If) and not s.orelse and s.body and isinstance(s.body[-1], ast.Return) \
                    and i + 1 < len(stmts):
                return stmts[:i] + [ast.If(test=s.test, body=s.body, orelse=tail(stmts[i + 1:]))]
        return stmts

    doc = [s for s in fn.body[:1] if isinstance(s, ast.Expr) and isinstance(s.value, ast.Constant)]
    fn.body = doc + swap(tail(swap(fn.body[len(doc):])))
    ast.fix_missing_locations(fn)
    return fn
