"""Self-test of the source normal form (gen_c09norm.py) behind Gen.Block / Gen.UtilFormulas / Gen.LinopFormulas /
Gen.Fourier: textual edits are applied to a scratch worktree of the sigpy repository and the generators are re-run.
  `same`   edits are behaviour-preserving respellings: the generated Lean text must be byte-identical to the committed one;
  `change` edits alter behaviour (or leave the accepted subset): the text must differ or the generator must raise.

  git -C /repo worktree add --detach /tmp/wt HEAD;  python -m harness.translate.selftest_c09norm /tmp/wt [case-prefix ..]
  python -m harness.translate.selftest_c09norm /tmp/wt --apply H1 H5 ..   leaves those edits applied (then SIGPY_REPO=/tmp/wt ./check C09)
Not part of ./check (it edits a worktree); exit status = number of wrong outcomes.
"""
import os, subprocess, sys
ROOT = os.path.dirname(os.path.dirname(os.path.dirname(os.path.abspath(__file__))))
WT = sys.argv[1]
os.environ["SIGPY_REPO"] = WT
sys.path.insert(0, ROOT)
from harness import common
common.REPO = WT
from harness.translate import gen as G

def reset():
    subprocess.run(["git", "-C", WT, "checkout", "-q", "--", "."], check=True)

def edit(rel, pairs):
    p = os.path.join(WT, rel)
    s = open(p).read()
    for old, new, cnt in pairs:
        assert s.count(old) >= 1, (rel, old)
        s = s.replace(old, new) if cnt == 0 else s.replace(old, new, cnt)
    open(p, "w").write(s)

def gen(names):
    res = {}
    for n in names:
        # the COMMITTED text (the file on disk may have been regenerated from another tree by a concurrent check)
        o = subprocess.run(["git", "-C", ROOT, "show", "HEAD:lean/SigpyVerif/Gen/%s.lean" % n], stdout=subprocess.PIPE,
                           text=True, check=True).stdout
        try:
            t = G.GENERATORS[n]()
            res[n] = "IDENTICAL" if t == o else "DIFF"
        except Exception as e:
            res[n] = "UNSUPPORTED(%s)" % (repr(e)[:110])
    return res

HELPER = '''def _center_shifts(shape_from, shape_to):
    return [max(a // 2 - b // 2, 0) for a, b in zip(shape_from, shape_to)]


def _check_same_dtype('''
ISH = "ishift = [max(i // 2 - o // 2, 0) for i, o in zip(ishape1, oshape1)]"
OSH = "oshift = [max(o // 2 - i // 2, 0) for i, o in zip(ishape1, oshape1)]"
CPY = '''    copy_shape = [
        min(i - si, o - so)
        for i, si, o, so in zip(ishape1, ishift, oshape1, oshift)
    ]
'''
FFTC_BODY = '''    ndim = input.ndim
    axes = util._normalize_axes(axes, ndim)
    xp = backend.get_array_module(input)

    if oshape is None:
        oshape = input.shape

    tmp = util.resize(input, oshape)
    tmp = xp.fft.ifftshift(tmp, axes=axes)
    tmp = xp.fft.fftn(tmp, axes=axes, norm=norm)
    output = xp.fft.fftshift(tmp, axes=axes)
    return output
'''
CASES = [
 # (id, expect 'same'|'change', gens, file, [(old,new,count)])
 ("H1 commuted product", "same", ["Block"], "sigpy/block.py", [("ix = nx * Sx + bx", "ix = Sx * nx + bx", 0)]),
 ("H2 re-associated numBlks", "same", ["Block"], "sigpy/block.py", [("(i - b + s) // s", "(s + i - b) // s", 0)]),
 ("H14 -b + i + s", "same", ["Block"], "sigpy/block.py", [("(i - b + s) // s", "(-b + i + s) // s", 0)]),
 ("H3 flipped comparison", "same", ["Block"], "sigpy/block.py", [("if ix < input.shape[-1]:", "if input.shape[-1] > ix:", 0)]),
 ("H4 negated guard", "same", ["Block"], "sigpy/block.py", [("if ix < input.shape[-1]:", "if not (ix >= input.shape[-1]):", 0)]),
 ("H5 De Morgan", "same", ["Block"], "sigpy/block.py", [("if ix < input.shape[-1] and iy < input.shape[-2]:", "if not (ix >= input.shape[-1] or iy >= input.shape[-2]):", 0)]),
 ("H6 chained comparison", "same", ["Block"], "sigpy/block.py", [("if nx >= 0 and nx < Nx:", "if 0 <= nx < Nx:", 0)]),
 ("H6b negated guard swapped branches", "same", ["Block"], "sigpy/block.py", [("                if ix < input.shape[-1]:\n                    output[b, nx, bx] = input[b, ix]", "                if not ix < input.shape[-1]:\n                    pass\n                else:\n                    output[b, nx, bx] = input[b, ix]", 0)]),
 ("H7 renamed comprehension variables", "same", ["UtilFormulas"], "sigpy/util.py", [(ISH, "ishift = [max(a // 2 - b // 2, 0) for a, b in zip(ishape1, oshape1)]", 0)]),
 ("H8 zip order swapped consistently", "same", ["UtilFormulas"], "sigpy/util.py", [(OSH, "oshift = [max(o // 2 - i // 2, 0) for o, i in zip(oshape1, ishape1)]", 0)]),
 ("H8b copy_shape as generator into list()", "same", ["UtilFormulas"], "sigpy/util.py", [(CPY, "    copy_shape = list(min(i - si, o - so) for i, si, o, so in zip(ishape1, ishift, oshape1, oshift))\n", 0)]),
 ("H8c helper with keyword call", "same", ["UtilFormulas"], "sigpy/util.py", [("def _check_same_dtype(", HELPER, 1), (ISH, "ishift = _center_shifts(shape_to=oshape1, shape_from=ishape1)", 0)]),
 ("H9 positional numpy args", "same", ["Fourier"], "sigpy/fourier.py", [("tmp = xp.fft.fftn(tmp, axes=axes, norm=norm)", "tmp = xp.fft.fftn(tmp, None, axes, norm)", 0)]),
 ("H10 negated center guard, swapped branches", "same", ["Fourier"], "sigpy/fourier.py", [("    if center:\n        output = _fftc(input, oshape=oshape, axes=axes, norm=norm)\n    else:\n        output = xp.fft.fftn(input, s=oshape, axes=axes, norm=norm)", "    if not center:\n        output = xp.fft.fftn(input, s=oshape, axes=axes, norm=norm)\n    else:\n        output = _fftc(input, oshape=oshape, axes=axes, norm=norm)", 0)]),
 ("H11 return the last step directly", "same", ["Fourier"], "sigpy/fourier.py", [("    output = xp.fft.fftshift(tmp, axes=axes)\n    return output", "    return xp.fft.fftshift(tmp, axes=axes)", 0)]),
 ("H12 ndim temporary inlined", "same", ["Fourier"], "sigpy/fourier.py", [("    ndim = input.ndim\n    axes = util._normalize_axes(axes, ndim)", "    axes = util._normalize_axes(axes, input.ndim)", 0)]),
 ("H13 _normalize_axes without else", "same", ["Fourier"], "sigpy/util.py", [("    else:\n        return tuple(a % ndim for a in sorted(axes))", "    return tuple([a % ndim for a in sorted(axes)])", 0)]),
 ("H15 resize keyword call", "same", ["Fourier"], "sigpy/fourier.py", [("tmp = util.resize(input, oshape)", "tmp = util.resize(input, oshape=oshape)", 0)]),
 ("H16 Downsample length re-associated", "same", ["LinopFormulas"], "sigpy/linop.py", [("((i - s + f - 1) // f) for i, f, s in zip(ishape, factors, shift)", "((f + i - 1 - s) // f) for i, f, s in zip(ishape, factors, shift)", 0)]),
 ("H17 num_blks helper in linop.py (clashing local D)", "same", ["LinopFormulas"], "sigpy/linop.py", [("class ArrayToBlocks(Linop):", "def _get_num_blks(shape, blk_shape, blk_strides):\n    D = len(blk_shape)\n    return [(i - b + s) // s for i, b, s in zip(shape[-D:], blk_shape, blk_strides)]\n\n\nclass ArrayToBlocks(Linop):", 1), ("        num_blks = [\n            (i - b + s) // s\n            for i, b, s in zip(ishape[-D:], blk_shape, blk_strides)\n        ]", "        num_blks = _get_num_blks(ishape, blk_shape, blk_strides)", 1)]),
 ("H18 commuted max arguments", "same", ["UtilFormulas"], "sigpy/util.py", [(ISH, "ishift = [max(0, i // 2 - o // 2) for i, o in zip(ishape1, oshape1)]", 0), ("min(i - si, o - so)", "min(o - so, i - si)", 0)]),
 # breaking
 ("B23 max replaced by min", "change", ["UtilFormulas"], "sigpy/util.py", [(ISH, "ishift = [min(0, i // 2 - o // 2) for i, o in zip(ishape1, oshape1)]", 0)]),
 ("B21 num_blks helper called with the strides as block shape", "change", ["LinopFormulas"], "sigpy/linop.py", [("class ArrayToBlocks(Linop):", "def _get_num_blks(shape, blk_shape, blk_strides):\n    D = len(blk_shape)\n    return [(i - b + s) // s for i, b, s in zip(shape[-D:], blk_shape, blk_strides)]\n\n\nclass ArrayToBlocks(Linop):", 1), ("        num_blks = [\n            (i - b + s) // s\n            for i, b, s in zip(ishape[-D:], blk_shape, blk_strides)\n        ]", "        num_blks = _get_num_blks(ishape, blk_strides, blk_shape)", 1)]),
 ("B22 Downsample rounding", "change", ["LinopFormulas"], "sigpy/linop.py", [("((i - s + f - 1) // f) for i, f, s in zip(ishape, factors, shift)", "((i - s + f) // f) for i, f, s in zip(ishape, factors, shift)", 0)]),
 ("B1 sign of the offset", "change", ["Block"], "sigpy/block.py", [("ix = nx * Sx + bx", "ix = nx * Sx - bx", 1)]),
 ("B2 wrong stride variable", "change", ["Block"], "sigpy/block.py", [("ix = nx * Sx + bx", "ix = bx + nx * Bx", 1)]),
 ("B3 numBlks sign", "change", ["Block"], "sigpy/block.py", [("(i - b + s) // s", "(i + b - s) // s", 0)]),
 ("B4 numBlks divisor", "change", ["Block"], "sigpy/block.py", [("(i - b + s) // s", "(i + s - b) // b", 0)]),
 ("B5 off-by-one guard", "change", ["Block"], "sigpy/block.py", [("if ix < input.shape[-1]:", "if ix <= input.shape[-1]:", 0)]),
 ("B6 flipped comparison, wrong strictness", "change", ["Block"], "sigpy/block.py", [("if ix < input.shape[-1]:", "if input.shape[-1] >= ix:", 0)]),
 ("B6b wrong De Morgan", "change", ["Block"], "sigpy/block.py", [("if ix < input.shape[-1] and iy < input.shape[-2]:", "if not (ix >= input.shape[-1] and iy >= input.shape[-2]):", 0)]),
 ("B6c coefficient", "change", ["Block"], "sigpy/block.py", [("ix = nx * Sx + bx", "ix = nx * Sx + bx + bx", 1)]),
 ("B6d zip order of num_blks", "change", ["Block"], "sigpy/block.py", [("zip(input.shape[-ndim:], blk_shape, blk_strides)", "zip(input.shape[-ndim:], blk_strides, blk_shape)", 0)]),
 ("B8 helper called with swapped args", "change", ["UtilFormulas"], "sigpy/util.py", [("def _check_same_dtype(", HELPER, 1), (ISH, "ishift = _center_shifts(oshape1, ishape1)", 0)]),
 ("B9 zip order swapped, names not", "change", ["UtilFormulas"], "sigpy/util.py", [(ISH, "ishift = [max(i // 2 - o // 2, 0) for i, o in zip(oshape1, ishape1)]", 0)]),
 ("B10 loop with changed element", "change", ["UtilFormulas"], "sigpy/util.py", [(CPY, "    copy_shape = []\n    for i, si, o, so in zip(ishape1, ishift, oshape1, oshift):\n        copy_shape.append(min(i - si, o + so))\n", 0)]),
 ("B11 loop with a second statement", "change", ["UtilFormulas"], "sigpy/util.py", [(CPY, "    copy_shape = []\n    for i, si, o, so in zip(ishape1, ishift, oshape1, oshift):\n        copy_shape.append(min(i - si, o - so))\n        copy_shape.append(0)\n", 0)]),
 ("B11b loop with a filter", "change", ["UtilFormulas"], "sigpy/util.py", [(CPY, "    copy_shape = []\n    for i, si, o, so in zip(ishape1, ishift, oshape1, oshift):\n        if i > 1:\n            copy_shape.append(min(i - si, o - so))\n", 0)]),
 ("B11c recursive helper", "change", ["UtilFormulas"], "sigpy/util.py", [("def _check_same_dtype(", "def _center_shifts(shape_from, shape_to):\n    return _center_shifts(shape_to, shape_from)\n\n\ndef _check_same_dtype(", 1), (ISH, "ishift = _center_shifts(ishape1, oshape1)", 0)]),
 ("B11d ishift re-assigned afterwards", "change", ["UtilFormulas"], "sigpy/util.py", [(CPY, "    ishift = [0 for i in ishape1]\n" + CPY, 0)]),
 ("B12 helper with the wrong direction flag", "change", ["Fourier"], "sigpy/fourier.py", [('def _fftc(input, oshape=None, axes=None, norm="ortho"):\n' + FFTC_BODY, 'def _centered_transform(input, oshape, axes, norm, inverse):\n' + FFTC_BODY.replace("    tmp = xp.fft.fftn(tmp, axes=axes, norm=norm)\n", "    if inverse:\n        tmp = xp.fft.ifftn(tmp, axes=axes, norm=norm)\n    else:\n        tmp = xp.fft.fftn(tmp, axes=axes, norm=norm)\n") + '\n\ndef _fftc(input, oshape=None, axes=None, norm="ortho"):\n    return _centered_transform(input, oshape, axes, norm, inverse=True)\n', 1)]),
 ("B13 positional arguments in the wrong order", "change", ["Fourier"], "sigpy/fourier.py", [("output = _fftc(input, oshape=oshape, axes=axes, norm=norm)", "output = _fftc(input, axes, oshape, norm)", 0)]),
 ("B14 norm not passed on", "change", ["Fourier"], "sigpy/fourier.py", [("output = _fftc(input, oshape=oshape, axes=axes, norm=norm)", "output = _fftc(input, oshape, axes)", 0)]),
 ("B16 axes passed as s", "change", ["Fourier"], "sigpy/fourier.py", [("tmp = xp.fft.fftn(tmp, axes=axes, norm=norm)", "tmp = xp.fft.fftn(tmp, axes, None, norm)", 0)]),
 ("B17 negated guard, branches not swapped", "change", ["Fourier"], "sigpy/fourier.py", [("    if center:\n        output = _fftc(", "    if not center:\n        output = _fftc(", 0)]),
 ("B18 norm dropped in the transform", "change", ["Fourier"], "sigpy/fourier.py", [("tmp = xp.fft.fftn(tmp, axes=axes, norm=norm)", "tmp = xp.fft.fftn(tmp, None, axes)", 0)]),
 ("B19 shift dropped", "change", ["Fourier"], "sigpy/fourier.py", [("    tmp = xp.fft.ifftshift(tmp, axes=axes)\n    tmp = xp.fft.fftn(", "    tmp = xp.fft.fftn(", 1)]),
 ("B20 helper re-assigns a substituted parameter", "change", ["Fourier"], "sigpy/fourier.py", [('def _fftc(input, oshape=None, axes=None, norm="ortho"):\n' + FFTC_BODY, 'def _ct(x, oshape, axes, norm):\n' + FFTC_BODY.replace("input", "x") + '\n\ndef _fftc(input, oshape=None, axes=None, norm="ortho"):\n    return _ct(input, axes, oshape, norm)\n', 1)]),
]
bad = 0
sel = sys.argv[2:]
if sel and sel[0] == "--apply":   # leave the named edits applied in the worktree (to run ./check on them)
    reset()
    for cid, expect, gens, rel, pairs in CASES:
        if any(cid.split()[0] == x for x in sel[1:]):
            edit(rel, pairs)
            print("applied", cid)
    sys.exit(0)
for cid, expect, gens, rel, pairs in CASES:
    if sel and not any(cid.startswith(x) for x in sel):
        continue
    reset()
    edit(rel, pairs)
    r = gen(gens)
    ok = all((v == "IDENTICAL") == (expect == "same") for v in r.values())
    bad += not ok
    print("%-4s %-48s expect=%-6s %s" % ("ok" if ok else "BAD", cid, expect, r))
reset()
print("bad:", bad)
sys.exit(bad)
