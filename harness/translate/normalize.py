"""Behaviour-preserving AST normalisations applied BEFORE a translator pass matches the source (shared, additive).

A translator pass pins the source statement by statement; a maintainer can spell the same computation in several
ways.  The functions below rewrite a (deep-copied) function body into the spelling the passes match, and only when the
rewrite is justified syntactically:

  inline_temps      `t = <pure expr>` assigned exactly once, every read in a later statement of the same block, no name the
                    value reads re-bound / updated in place / handed to a non-pure call in between, the object `t` holds not
                    updated in place, a new container read once only   ->  the reads are replaced by the value, the statement dropped
                    (covers loop-invariant hoists: the definition in front of a loop, the reads inside it).
  inline_helpers    `_helper(args)` / `self._helper(args)` where the callee is a private module-level function / a private
                    method of the same class, defined in the same file, undecorated, not recursive, whose body is (after
                    inline_temps) one `return <expr>` or an if/else tree of returns (-> conditional expression); the
                    arguments (positional or keyword, defaults filled in from the signature) must be pure, and no name may be
                    captured   ->  the call is replaced by the body.
  expand_ifexp      `x = A if C else B` / `return A if C else B` as a statement   ->  `if C: x = A else: x = B`.
  loops_to_comps    `X = <fresh list>; for v in IT: X.append(E)`   ->  `X = <fresh list> + [E for v in IT]`.
  rename_comp       bound variables of a single-generator comprehension renamed to the names a pass expects.
  canon_guards      `if not C: A else: B` -> `if C: B else: A`;  `not (a == b)` -> `a != b`;  De Morgan on `not (p and q)`.
  bind_call         positional <-> keyword arguments resolved against the callee's signature.

Everything is FAIL-CLOSED: a candidate that does not satisfy its side conditions is left exactly as written (so the pass that
runs afterwards rejects the spelling it does not know: broken obligation) or raises `Unsupported`; no rewrite ever drops a
statement that is not a pure single-assignment definition, and a semantic change of the source still changes what the pass
sees.
"""
import ast
import copy

from harness.translate import py2lean as T

U = T.Unsupported

# calls without side effects whose result depends on the argument values only
PURE_NAMES = {"len", "range", "tuple", "list", "ceil", "floor", "int", "float", "min", "max", "abs", "slice", "zip",
              "reversed", "sorted", "enumerate", "sum", "bool", "isinstance"}
PURE_ATTRS = {("np", "ceil"), ("np", "floor"), ("np", "isscalar"), ("np", "result_type"), ("np", "issubdtype"),
              ("np", "prod"), ("util", "prod"), ("math", "ceil"), ("math", "floor"), ("np", "sqrt"), ("np", "abs")}
MUTATORS = {"append", "extend", "insert", "pop", "remove", "clear", "sort", "reverse", "update", "fill", "resize",
            "setdefault", "add", "discard", "put", "itemset", "setflags", "popitem"}


def is_pure(e):
    """expression without side effects (reads only)"""
    if e is None or isinstance(e, (ast.Name, ast.Constant)):
        return True
    if isinstance(e, ast.Attribute):
        return is_pure(e.value)
    if isinstance(e, ast.Subscript):
        return is_pure(e.value) and is_pure(e.slice)
    if isinstance(e, ast.Slice):
        return is_pure(e.lower) and is_pure(e.upper) and is_pure(e.step)
    if isinstance(e, (ast.Tuple, ast.List)):
        return all(is_pure(x) for x in e.elts)
    if isinstance(e, ast.BinOp):
        return is_pure(e.left) and is_pure(e.right)
    if isinstance(e, ast.UnaryOp):
        return is_pure(e.operand)
    if isinstance(e, ast.BoolOp):
        return all(is_pure(x) for x in e.values)
    if isinstance(e, ast.Compare):
        return is_pure(e.left) and all(is_pure(x) for x in e.comparators)
    if isinstance(e, ast.IfExp):
        return is_pure(e.test) and is_pure(e.body) and is_pure(e.orelse)
    if isinstance(e, (ast.ListComp, ast.GeneratorExp)):
        return is_pure(e.elt) and all(is_pure(g.iter) and all(is_pure(i) for i in g.ifs) and not g.is_async for g in e.generators)
    if isinstance(e, ast.Call):
        f = e.func
        ok = (isinstance(f, ast.Name) and f.id in PURE_NAMES) or \
             (isinstance(f, ast.Attribute) and isinstance(f.value, ast.Name) and (f.value.id, f.attr) in PURE_ATTRS)
        return ok and all(is_pure(a) and not isinstance(a, ast.Starred) for a in e.args) \
            and all(k.arg is not None and is_pure(k.value) for k in e.keywords)
    return False


def loads(node):
    """names read anywhere in node (node may be a list of statements)"""
    out = set()
    for n in (node if isinstance(node, list) else [node]):
        for x in ast.walk(n):
            if isinstance(x, ast.Name) and isinstance(x.ctx, ast.Load):
                out.add(x.id)
    return out


def _count_loads(nodes, name):
    return sum(1 for n in nodes for x in ast.walk(n) if isinstance(x, ast.Name) and x.id == name and isinstance(x.ctx, ast.Load))


def binders(node):
    """names bound by comprehensions / lambdas inside node"""
    out = set()
    for n in (node if isinstance(node, list) else [node]):
        for x in ast.walk(n):
            if isinstance(x, ast.comprehension):
                out |= {y.id for y in ast.walk(x.target) if isinstance(y, ast.Name)}
            elif isinstance(x, ast.Lambda):
                out |= {a.arg for a in x.args.args}
    return out


def _root(e):
    while isinstance(e, (ast.Attribute, ast.Subscript, ast.Starred)):
        e = e.value
    return e.id if isinstance(e, ast.Name) else None


def touched(nodes):
    """names re-bound, updated in place, deleted, or the receiver of a mutating method call / of an expression-statement
    method call anywhere in nodes"""
    out = set()
    for n in nodes:
        for x in ast.walk(n):
            if isinstance(x, ast.Name) and isinstance(x.ctx, (ast.Store, ast.Del)):
                out.add(x.id)
            elif isinstance(x, (ast.Subscript, ast.Attribute)) and isinstance(x.ctx, (ast.Store, ast.Del)):
                r = _root(x)
                if r:
                    out.add(r)
            elif isinstance(x, ast.AugAssign):
                r = _root(x.target)
                if r:
                    out.add(r)
            elif isinstance(x, ast.Call) and isinstance(x.func, ast.Attribute) and x.func.attr in MUTATORS:
                r = _root(x.func.value)
                if r:
                    out.add(r)
            elif isinstance(x, ast.Expr) and isinstance(x.value, ast.Call) and isinstance(x.value.func, ast.Attribute):
                r = _root(x.value.func.value)
                if r:
                    out.add(r)
            elif isinstance(x, (ast.Global, ast.Nonlocal)):
                out |= set(x.names)
            elif isinstance(x, (ast.Import, ast.ImportFrom)):
                out |= {(a.asname or a.name).split(".")[0] for a in x.names}
            elif isinstance(x, (ast.FunctionDef, ast.ClassDef)):
                out.add(x.name)
    return out


class _Sub(ast.NodeTransformer):
    def __init__(self, table):
        self.table = table

    def visit_Name(self, n):
        if isinstance(n.ctx, ast.Load) and n.id in self.table:
            return copy.deepcopy(self.table[n.id])
        return n


def substitute(node, table):
    """replace reads of the names in table by (copies of) the given expression nodes"""
    return ast.fix_missing_locations(_Sub(table).visit(node))


def _stores(fn, name):
    c = sum(1 for x in ast.walk(fn) if isinstance(x, ast.Name) and x.id == name and isinstance(x.ctx, (ast.Store, ast.Del)))
    a = fn.args
    c += sum(1 for x in a.args + a.kwonlyargs + a.posonlyargs + [y for y in (a.vararg, a.kwarg) if y] if x.arg == name)
    c += sum(1 for x in ast.walk(fn) if isinstance(x, (ast.Global, ast.Nonlocal)) and name in x.names)
    c += sum(1 for x in ast.walk(fn) if isinstance(x, (ast.FunctionDef, ast.ClassDef)) and x is not fn and x.name == name)
    return c


def _blocks(fn):
    """every statement list of fn (function body, loop / if / with / try bodies), nested function bodies excluded"""
    out = []

    def walk(stmts):
        out.append(stmts)
        for s in stmts:
            if isinstance(s, (ast.FunctionDef, ast.ClassDef, ast.AsyncFunctionDef)):
                continue
            for field in ("body", "orelse", "finalbody"):
                b = getattr(s, field, None)
                if isinstance(b, list) and b and isinstance(b[0], ast.stmt):
                    walk(b)
            for h in getattr(s, "handlers", []) or []:
                walk(h.body)
    walk(fn.body)
    return out


def _passed_to_calls(span, name, free):
    """names of `free` handed (as an argument, or as the receiver of a method) to a call that is not known to be pure and
    that runs BEFORE some read of `name` in `span`: the callee may update the object in place (a call whose own arguments
    contain the read runs after it and does not count)"""
    out = set()
    for t in span:
        for c in ast.walk(t):
            if not isinstance(c, ast.Call) or is_pure(c):
                continue
            if t is span[-1] and _count_loads([c], name) and not any(_count_loads([x], name) for x in ast.walk(c.func)):
                # the read is inside this call's arguments; other reads later in the same statement are not ordered
                # syntactically, so only a statement with a single read qualifies
                if _count_loads([t], name) == 1:
                    continue
            inside = list(c.args) + [k.value for k in c.keywords]
            if isinstance(c.func, ast.Attribute):
                inside.append(c.func.value)
            out |= loads(inside) & free
    return out


def _mutable_valued(e):
    """the value may be a NEW mutable container (its identity matters when it is read more than once)"""
    if isinstance(e, (ast.List, ast.ListComp, ast.Dict, ast.Set, ast.DictComp, ast.SetComp)):
        return True
    if isinstance(e, ast.Call):
        return not (isinstance(e.func, ast.Name) and e.func.id in ("len", "tuple", "range", "ceil", "floor", "int", "float", "min",
                                                                    "max", "abs", "sum", "bool", "isinstance", "slice"))
    if isinstance(e, ast.BinOp):
        return _mutable_valued(e.left) or _mutable_valued(e.right)
    if isinstance(e, ast.Subscript) and isinstance(e.slice, ast.Slice):
        return _mutable_valued(e.value)
    if isinstance(e, ast.IfExp):
        return _mutable_valued(e.body) or _mutable_valued(e.orelse)
    return False


def inline_temps(fn, keep=(), only=None):
    """a deep copy of the function `fn` with every inlinable single-assignment temporary (not in `keep`; in `only` when
    given) substituted into its reads.  Returns (new fn, [inlined names])."""
    fn = copy.deepcopy(fn)
    done = []
    progress = True
    while progress:
        progress = False
        for blk in _blocks(fn):
            for j, s in enumerate(blk):
                if not (isinstance(s, ast.Assign) and len(s.targets) == 1 and isinstance(s.targets[0], ast.Name)):
                    continue
                name = s.targets[0].id
                if name in keep or (only is not None and name not in only) or name in done:
                    continue
                if _stores(fn, name) != 1 or not is_pure(s.value) or name in loads(s.value):
                    continue
                later = blk[j + 1:]
                total = _count_loads([fn], name)
                if total != _count_loads(later, name):
                    continue            # read outside the statements that follow the definition in its own block
                uses = [k for k, t in enumerate(later) if _count_loads([t], name)]
                span = later[:uses[-1] + 1] if uses else []
                free = loads(s.value)
                if free & touched(span) or free & binders(span) or name in binders([fn]):
                    continue
                if name in touched(later):
                    continue            # the object the name holds is updated in place: its identity matters
                if span and _passed_to_calls(span, name, free - PURE_NAMES):
                    continue            # something the value reads is handed to a call that may update it before a read
                if _mutable_valued(s.value) and (total > 1 or any(isinstance(x, (ast.For, ast.While)) for x in span)):
                    continue            # a new container read several times / inside a loop: one object, not one per read
                if any(isinstance(x, (ast.FunctionDef, ast.Lambda, ast.ClassDef)) and _count_loads([x], name)
                       for t in span for x in ast.walk(t)):
                    continue            # read from a closure: evaluated later
                for t in span:
                    substitute(t, {name: s.value})
                del blk[j]
                done.append(name)
                progress = True
                break
            if progress:
                break
    return fn, done


# ---- calls ------------------------------------------------------------------------------------------
def bind_call(call, fn, method=False, fill_defaults=False):
    """positional and keyword arguments of `call` resolved against the signature of the def `fn`
    -> {parameter: argument node} (parameters left to their default absent unless fill_defaults)"""
    if not isinstance(call, ast.Call):
        raise U("not a call: %s" % ast.unparse(call))
    a = fn.args
    if a.vararg or a.kwarg or a.kwonlyargs or a.posonlyargs:
        raise U("signature of %s" % fn.name)
    params = [x.arg for x in a.args]
    if method:
        if not params or params[0] != "self":
            raise U("%s is not a method" % fn.name)
        params = params[1:]
    if any(isinstance(x, ast.Starred) for x in call.args) or any(k.arg is None for k in call.keywords):
        raise U("star arguments in %s" % ast.unparse(call))
    if len(call.args) > len(params):
        raise U("too many arguments in %s" % ast.unparse(call))
    bound = dict(zip(params, call.args))
    for k in call.keywords:
        if k.arg not in params or k.arg in bound:
            raise U("keyword %s in %s" % (k.arg, ast.unparse(call)))
        bound[k.arg] = k.value
    dfl = dict(zip(params[len(params) - len(a.defaults):], a.defaults)) if a.defaults else {}
    for p in params:
        if p not in bound:
            if p not in dfl:
                raise U("missing argument %s in %s" % (p, ast.unparse(call)))
            if fill_defaults:
                if not isinstance(dfl[p], ast.Constant):
                    raise U("non-constant default %s of %s" % (p, fn.name))
                bound[p] = dfl[p]
    return bound


def _always_returns(stmts):
    for s in stmts:
        if isinstance(s, ast.Return):
            return True
        if isinstance(s, ast.If) and s.orelse and _always_returns(s.body) and _always_returns(s.orelse):
            return True
    return False


def _nodoc(stmts):
    return [s for s in stmts if not (isinstance(s, ast.Expr) and isinstance(s.value, ast.Constant)
                                     and isinstance(s.value.value, str))]


def _ret_expr(stmts, name):
    """(docstring) if/elif/else tree of `return <expr>` -> one expression (conditional expressions for the branches)"""
    stmts = _nodoc(stmts)
    if not stmts:
        raise U("helper %s may fall off the end" % name)
    s, rest = stmts[0], stmts[1:]
    if isinstance(s, ast.Return):
        if s.value is None or rest:
            raise U("helper %s: bare return / code after return" % name)
        return s.value
    if isinstance(s, ast.If):
        if not is_pure(s.test):
            raise U("helper %s: impure test" % name)
        if s.orelse:
            if rest:
                raise U("helper %s: code after if/else" % name)
            return ast.IfExp(test=s.test, body=_ret_expr(s.body, name), orelse=_ret_expr(s.orelse, name))
        if not _always_returns(s.body):
            raise U("helper %s: if body may fall through" % name)
        return ast.IfExp(test=s.test, body=_ret_expr(s.body, name), orelse=_ret_expr(rest, name))
    raise U("helper %s: statement %s outside the inlinable subset" % (name, ast.unparse(s)[:60]))


def helper_expr(h):
    """the value a small helper returns, as one expression over its parameters (temporaries inlined)"""
    if h.decorator_list or not isinstance(h, ast.FunctionDef):
        raise U("helper %s is decorated" % h.name)
    for x in ast.walk(h):
        if isinstance(x, (ast.Yield, ast.YieldFrom, ast.Await, ast.Global, ast.Nonlocal, ast.Lambda)) or \
                (isinstance(x, (ast.FunctionDef, ast.ClassDef)) and x is not h):
            raise U("helper %s: %s" % (h.name, type(x).__name__))
    h2, _ = loops_to_comps(canon_guards(h))
    h2, _ = inline_temps(h2)
    return _ret_expr(h2.body, h.name)


def _enclosing_class(tree, fn):
    for c in ast.walk(tree):
        if isinstance(c, ast.ClassDef) and any(m is fn for m in c.body):
            return c
    return None


def inline_helpers(tree, fn, keep=(), depth=3):
    """a deep copy of `fn` (a def of `tree`) in which every call `_name(..)` of a private module-level function of the same
    file and every `self._name(..)` of a private method of the same class, not in `keep`, is replaced by the callee's body.
    A callee outside the inlinable subset raises Unsupported.  Returns (new fn, [inlined callee names])."""
    cls = _enclosing_class(tree, fn)
    mod = {}
    for n in tree.body:
        if isinstance(n, ast.FunctionDef):
            mod.setdefault(n.name, []).append(n)
    meths = {}
    if cls is not None:
        for n in cls.body:
            if isinstance(n, ast.FunctionDef):
                meths.setdefault(n.name, []).append(n)
    rebound_at_module = touched([n for n in tree.body if not isinstance(n, (ast.FunctionDef, ast.ClassDef))])
    new = copy.deepcopy(fn)
    done = []

    def callee_of(call):
        f = call.func
        if isinstance(f, ast.Name) and f.id.startswith("_") and not f.id.startswith("__") and f.id in mod and f.id not in keep:
            return f.id, mod[f.id], False
        if isinstance(f, ast.Attribute) and isinstance(f.value, ast.Name) and f.value.id == "self" and f.attr.startswith("_") \
                and not f.attr.startswith("__") and f.attr in meths and f.attr not in keep and cls is not None:
            return f.attr, meths[f.attr], True
        return None

    local = touched([new]) | {a.arg for a in new.args.args}

    class Inl(ast.NodeTransformer):
        def __init__(self, stack):
            self.stack = stack

        def visit_FunctionDef(self, n):
            return self.generic_visit(n) if n is new else n   # nested defs (other scopes) are left alone

        def visit_Call(self, call):
            call = self.generic_visit(call)
            c = callee_of(call)
            if c is None:
                return call
            name, defs, is_method = c
            if len(defs) != 1:
                raise U("helper %s defined %d times" % (name, len(defs)))
            h = defs[0]
            if name in self.stack or len(self.stack) >= depth or name == fn.name and not is_method and h is fn:
                raise U("helper %s: recursion / nesting too deep" % name)
            if not is_method and (name in rebound_at_module or name in local):
                raise U("helper name %s is re-bound" % name)
            if is_method and any(isinstance(d, ast.Name) and d.id in ("staticmethod", "classmethod", "property")
                                 for d in h.decorator_list):
                raise U("helper method %s is decorated" % name)
            body = copy.deepcopy(helper_expr(h))
            body = Inl(self.stack + [name]).visit(body)           # helpers calling helpers
            bound = bind_call(call, h, method=is_method, fill_defaults=True)
            params = set(bound)
            for p, a in bound.items():
                if not is_pure(a):
                    raise U("helper %s: argument %s=%s is not a pure expression" % (name, p, ast.unparse(a)[:40]))
            arg_free = set().union(*[loads(a) for a in bound.values()]) if bound else set()
            if arg_free & binders(body):
                raise U("helper %s: an argument name would be captured by a comprehension of the body" % name)
            free_body = loads(body) - params - binders(body) - ({"self"} if is_method else set())
            if free_body & local:
                raise U("helper %s: reads module names %s that are local names of the caller" % (name, sorted(free_body & local)))
            if params & touched([body]) or (is_method and "self" in touched([body])):
                raise U("helper %s assigns to its parameters" % name)
            done.append(name)
            return substitute(body, bound)

    new = Inl([]).visit(new)
    ast.fix_missing_locations(new)
    return new, done


def expand_ifexp(stmts, pred=None):
    """`x = A if C else B` / `return A if C else B` at statement level (with pred(C) when given) -> an if statement
    (recursively); returns the new statement list"""
    out = []
    for s in stmts:
        if isinstance(getattr(s, "value", None), ast.IfExp) and pred is not None and not pred(s.value.test):
            out.append(s)
        elif isinstance(s, ast.Assign) and len(s.targets) == 1 and isinstance(s.targets[0], ast.Name) and isinstance(s.value, ast.IfExp):
            e = s.value
            mk = lambda v, s=s: ast.Assign(targets=[copy.deepcopy(s.targets[0])], value=v, lineno=s.lineno)  # noqa
            out.append(ast.If(test=e.test, body=expand_ifexp([mk(e.body)], pred), orelse=expand_ifexp([mk(e.orelse)], pred)))
        elif isinstance(s, ast.Return) and isinstance(s.value, ast.IfExp):
            e = s.value
            out.append(ast.If(test=e.test, body=expand_ifexp([ast.Return(value=e.body)], pred),
                              orelse=expand_ifexp([ast.Return(value=e.orelse)], pred)))
        else:
            out.append(s)
    for s in out:
        ast.fix_missing_locations(s)
    return out


# ---- loops / comprehensions -------------------------------------------------------------------------
def _fresh_list(e):
    """an expression that builds a NEW list object (appending to it cannot be seen through another name)"""
    if isinstance(e, (ast.List, ast.ListComp)):
        return True
    if isinstance(e, ast.Call) and isinstance(e.func, ast.Name) and e.func.id == "list" and len(e.args) <= 1 and not e.keywords:
        return True
    if isinstance(e, ast.Subscript) and isinstance(e.slice, ast.Slice):
        return _fresh_list(e.value)
    if isinstance(e, ast.BinOp) and isinstance(e.op, ast.Add):
        return _fresh_list(e.left) or _fresh_list(e.right)
    if isinstance(e, ast.BinOp) and isinstance(e.op, ast.Mult):
        return _fresh_list(e.left) or _fresh_list(e.right)
    return False


def _append_of(st, X):
    """`X.append(E)` / `X += [E]` / `X = X + [E]` -> E"""
    if isinstance(st, ast.Expr) and isinstance(st.value, ast.Call) and isinstance(st.value.func, ast.Attribute) \
            and st.value.func.attr == "append" and isinstance(st.value.func.value, ast.Name) and st.value.func.value.id == X \
            and len(st.value.args) == 1 and not st.value.keywords and not isinstance(st.value.args[0], ast.Starred):
        return st.value.args[0]
    if isinstance(st, ast.AugAssign) and isinstance(st.op, ast.Add) and isinstance(st.target, ast.Name) and st.target.id == X \
            and isinstance(st.value, ast.List) and len(st.value.elts) == 1 and not isinstance(st.value.elts[0], ast.Starred):
        return st.value.elts[0]
    if isinstance(st, ast.Assign) and len(st.targets) == 1 and isinstance(st.targets[0], ast.Name) and st.targets[0].id == X \
            and isinstance(st.value, ast.BinOp) and isinstance(st.value.op, ast.Add) and isinstance(st.value.left, ast.Name) \
            and st.value.left.id == X and isinstance(st.value.right, ast.List) and len(st.value.right.elts) == 1:
        return st.value.right.elts[0]
    return None


def loops_to_comps(fn):
    """a deep copy of fn with `X = <fresh list>` directly followed by `for v in IT: X.append(E)` rewritten to
    `X = <fresh list> + [E for v in IT]` (same iteration order, same elements)."""
    fn = copy.deepcopy(fn)
    n = 0
    for blk in _blocks(fn):
        j = 0
        while j + 1 < len(blk):
            a, f = blk[j], blk[j + 1]
            j += 1
            if not (isinstance(a, ast.Assign) and len(a.targets) == 1 and isinstance(a.targets[0], ast.Name) and _fresh_list(a.value)
                    and is_pure(a.value)):
                continue
            X = a.targets[0].id
            if not (isinstance(f, ast.For) and not f.orelse and len(f.body) == 1 and is_pure(f.iter)):
                continue
            E = _append_of(f.body[0], X)
            if E is None or not is_pure(E):
                continue
            tnames = [y.id for y in ast.walk(f.target) if isinstance(y, ast.Name)]
            if not all(isinstance(y, (ast.Name, ast.Tuple)) for y in ast.walk(f.target) if isinstance(y, ast.expr)):
                continue
            if X in loads(E) | loads(f.iter) | set(tnames) | loads(a.value):
                continue
            # the loop variable must not be read after the loop (a comprehension does not leak it) nor be otherwise bound
            if any(_count_loads([fn], v) != _count_loads([E], v) or _stores(fn, v) != 1 for v in tnames):
                continue
            comp = ast.ListComp(elt=E, generators=[ast.comprehension(target=f.target, iter=f.iter, ifs=[], is_async=0)])
            if isinstance(a.value, ast.List) and not a.value.elts:
                a.value = comp
            else:
                a.value = ast.BinOp(left=a.value, op=ast.Add(), right=comp)
            del blk[j]
            j -= 1
            n += 1
    ast.fix_missing_locations(fn)
    return fn, n


def rename_comp(comp, names):
    """a copy of the single-generator comprehension with its bound variables renamed to `names` (alpha-renaming)"""
    if not isinstance(comp, ast.ListComp) or len(comp.generators) != 1:
        raise U("not a simple list comprehension")
    g = comp.generators[0]
    t = g.target
    old = [e.id for e in t.elts] if isinstance(t, ast.Tuple) and all(isinstance(e, ast.Name) for e in t.elts) else \
        [t.id] if isinstance(t, ast.Name) else None
    if old is None or len(old) != len(names) or len(set(old)) != len(old):
        raise U("comprehension target %s" % ast.unparse(t))
    if old == list(names):
        return comp
    others = (loads(comp.elt) | loads(g.ifs)) - set(old)
    if others & set(names) or binders([comp.elt] + g.ifs):
        raise U("cannot rename comprehension variables %s -> %s" % (old, names))
    comp = copy.deepcopy(comp)
    g = comp.generators[0]
    table = {o: ast.Name(id=n, ctx=ast.Load()) for o, n in zip(old, names)}
    comp.elt = substitute(comp.elt, table)
    g.ifs = [substitute(i, table) for i in g.ifs]
    for y in ast.walk(g.target):
        if isinstance(y, ast.Name):
            y.id = table[y.id].id
    return ast.fix_missing_locations(comp)


# ---- guards -----------------------------------------------------------------------------------------
# `not (a < b)` is NOT `a >= b` for floats (NaN): ordering comparisons keep their `not`
_NEG = {ast.Eq: ast.NotEq, ast.NotEq: ast.Eq, ast.Is: ast.IsNot, ast.IsNot: ast.Is, ast.In: ast.NotIn, ast.NotIn: ast.In}


def negate(e):
    """the negation of a condition with `not` pushed inwards (De Morgan; == / != / is / in flipped, ordering comparisons not: NaN); exact for Python truth values
    of comparisons / and / or / not (the result is used as a condition only)"""
    if isinstance(e, ast.UnaryOp) and isinstance(e.op, ast.Not):
        return canon_cond(e.operand)
    if isinstance(e, ast.Compare) and len(e.ops) == 1 and type(e.ops[0]) in _NEG:
        return ast.Compare(left=e.left, ops=[_NEG[type(e.ops[0])]()], comparators=e.comparators)
    if isinstance(e, ast.BoolOp):
        return ast.BoolOp(op=ast.Or() if isinstance(e.op, ast.And) else ast.And(), values=[negate(v) for v in e.values])
    return ast.UnaryOp(op=ast.Not(), operand=e)


def canon_cond(e):
    """`not` pushed inwards through and / or / comparisons"""
    if isinstance(e, ast.UnaryOp) and isinstance(e.op, ast.Not):
        return negate(e.operand)
    if isinstance(e, ast.BoolOp):
        return ast.BoolOp(op=e.op, values=[canon_cond(v) for v in e.values])
    return e


def canon_guards(fn):
    """a deep copy of fn in which `if not C: A else: B` reads `if C: B else: A` and every `if` test has `not` pushed inwards"""
    fn = copy.deepcopy(fn)
    for x in ast.walk(fn):
        if isinstance(x, (ast.If, ast.IfExp)):
            t = x.test
            if isinstance(t, ast.UnaryOp) and isinstance(t.op, ast.Not) and x.orelse:
                x.test, x.body, x.orelse = canon_cond(t.operand), x.orelse, x.body
            else:
                x.test = canon_cond(t)
    return ast.fix_missing_locations(fn)


# ---- commuted / re-associated arithmetic --------------------------------------------------------------
def _int_typed(e, ints):
    """syntactically an exact Python int (so + and - may be re-associated without rounding)"""
    if isinstance(e, ast.Constant):
        return isinstance(e.value, int) and not isinstance(e.value, bool)
    if isinstance(e, ast.Name):
        return e.id in ints
    if isinstance(e, ast.UnaryOp) and isinstance(e.op, (ast.USub, ast.UAdd)):
        return _int_typed(e.operand, ints)
    if isinstance(e, ast.BinOp) and isinstance(e.op, (ast.Add, ast.Sub, ast.Mult, ast.FloorDiv, ast.Mod)):
        return _int_typed(e.left, ints) and _int_typed(e.right, ints)
    if isinstance(e, ast.Call) and isinstance(e.func, ast.Name) and e.func.id in ("ceil", "floor", "len", "int") and len(e.args) == 1:
        return True
    return False


def ac_key(e, ints=()):
    """a key that is equal for two expressions that differ only by
       * the order of the two operands of a `*` or `+` (exact for ints and for floats), and
       * the order / grouping of the terms of a sum/difference of exact ints (`i - b + s`, `i + s - b`, `s + (i - b)`),
       * `a < b` / `b > a`, `a <= b` / `b >= a`, `a == b` / `b == a`.
    Everything else is compared structurally."""
    def terms(x, sign, out):
        if isinstance(x, ast.BinOp) and isinstance(x.op, (ast.Add, ast.Sub)) and _int_typed(x, ints):
            terms(x.left, sign, out)
            terms(x.right, sign if isinstance(x.op, ast.Add) else -sign, out)
        elif isinstance(x, ast.UnaryOp) and isinstance(x.op, ast.USub) and _int_typed(x, ints) and not isinstance(x.operand, ast.Constant):
            terms(x.operand, -sign, out)
        else:
            out.append((sign, key(x)))

    def key(x):
        if isinstance(x, ast.BinOp):
            if isinstance(x.op, (ast.Add, ast.Sub)) and _int_typed(x, ints):
                out = []
                terms(x, 1, out)
                return ("sum", tuple(sorted(out, key=repr)))
            if isinstance(x.op, (ast.Mult, ast.Add)):
                return (type(x.op).__name__, tuple(sorted([key(x.left), key(x.right)], key=repr)))
            return (type(x.op).__name__, key(x.left), key(x.right))
        if isinstance(x, ast.Compare) and len(x.ops) == 1:
            a, b, op = key(x.left), key(x.comparators[0]), type(x.ops[0])
            flip = {ast.Gt: ast.Lt, ast.GtE: ast.LtE}
            if op in flip:
                a, b, op = b, a, flip[op]
            if op in (ast.Eq, ast.NotEq):
                a, b = sorted([a, b], key=repr)
            return ("cmp", op.__name__, a, b)
        if isinstance(x, ast.AST):
            return (type(x).__name__, tuple((f, key(v)) for f, v in ast.iter_fields(x) if f not in ("ctx", "lineno", "col_offset",
                                                                                                  "end_lineno", "end_col_offset",
                                                                                                  "type_comment", "kind")))
        if isinstance(x, list):
            return tuple(key(v) for v in x)
        return x
    return key(e)


def match_ref(e, refs, ints=()):
    """when `e` equals one of the reference spellings `refs` (source strings) up to `ac_key`, the reference expression is
    returned (so a commuted / re-associated spelling yields the SAME generated definition); otherwise `e` itself (so any
    other change yields a different definition)."""
    k = ac_key(e, ints)
    for r in refs:
        ref = ast.parse(r, mode="eval").body
        if ac_key(ref, ints) == k:
            return ref
    return e
