"""Translator from a small subset of Python (ast) to Lean 4 definitions.

T1  loop-nest kernels (numba bodies in block.py / interp.py): every statement is one of
      for v in range(..)          ->  (pyRange ..).flatMap fun v => ..
      name = expr / a, b = e1, e2 ->  let name := expr
      if cond: body [else: body]  ->  if cond then .. else ..
      out[idx] = rhs / out[idx] += rhs    with rhs = in[idx'] | w * in[idx'] | (w * in[idx'])
                                  ->  [(idx, idx', w)]
      return name                 ->  []
    The result is a Lean function returning the list of updates in program order.
T2  integer formulas: a Python expression over ints -> a Lean `Int` expression.

Anything outside the subset raises `Unsupported`; the caller turns that into a broken obligation,
never into a pass.
"""
import ast


class Unsupported(Exception):
    pass


INT, RAT = "int", "rat"

LEAN_KEYWORDS = {"by", "at", "from", "have", "show", "fun", "let", "in", "do", "then", "else", "if", "end", "open",
                 "def", "theorem", "match", "with", "where", "at", "this", "from", "using", "section", "namespace",
                 "variable", "universe", "instance", "class", "structure", "deriving", "local", "set_option", "end"}


def nm(n):
    """Python identifier -> Lean identifier (keywords get a trailing prime)"""
    return n + "'" if n in LEAN_KEYWORDS else n



def _cast(s, t, want):
    if t == want:
        return s
    if t == INT and want == RAT:
        return "((%s : Int) : Rat)" % s
    raise Unsupported("cannot cast %s to %s: %s" % (t, want, s))


class Expr:
    """expression translator with a typing environment name -> INT|RAT"""

    def __init__(self, env, arrays=None, shapes=None, funcs=None):
        self.env = env            # scalar variables
        self.arrays = arrays or {}  # data arrays read as rationals: name -> (#indices)
        self.shapes = shapes or set()  # array names whose .shape may be read
        self.funcs = funcs or {}  # callable name -> (lean name, [arg types], result type)

    def tr(self, e):
        m = getattr(self, "e_" + type(e).__name__, None)
        if m is None:
            raise Unsupported("expression %s" % ast.dump(e)[:80])
        return m(e)

    def e_Constant(self, e):
        if isinstance(e.value, bool):
            raise Unsupported("bool constant")
        if isinstance(e.value, int):
            return ("(%d : Int)" % e.value, INT)
        if isinstance(e.value, float):
            from fractions import Fraction
            f = Fraction(repr(e.value))  # the decimal literal as written
            return ("((%d : Rat) / (%d : Rat))" % (f.numerator, f.denominator), RAT)
        raise Unsupported("constant %r" % (e.value,))

    def e_Name(self, e):
        if e.id in self.env:
            return (nm(e.id), self.env[e.id])
        raise Unsupported("unknown name %s" % e.id)

    def e_UnaryOp(self, e):
        s, t = self.tr(e.operand)
        if isinstance(e.op, ast.USub):
            return ("(-%s)" % s, t)
        if isinstance(e.op, ast.UAdd):
            return (s, t)
        raise Unsupported("unary op")

    def e_BinOp(self, e):
        (a, ta), (b, tb) = self.tr(e.left), self.tr(e.right)
        op = e.op
        if isinstance(op, ast.Div):
            return ("(%s / %s)" % (_cast(a, ta, RAT), _cast(b, tb, RAT)), RAT)
        if isinstance(op, ast.FloorDiv):
            if ta == INT and tb == INT:
                return ("(pyDiv %s %s)" % (a, b), INT)
            raise Unsupported("// on non-int")
        if isinstance(op, ast.Mod):
            if ta == INT and tb == INT:
                return ("(pyMod %s %s)" % (a, b), INT)
            raise Unsupported("% on non-int")
        if isinstance(op, ast.Pow):
            if isinstance(e.right, ast.Constant) and isinstance(e.right.value, int) and e.right.value >= 0:
                return ("(%s ^ %d)" % (a, e.right.value), ta)
            raise Unsupported("** with non-constant exponent")
        sym = {ast.Add: "+", ast.Sub: "-", ast.Mult: "*"}.get(type(op))
        if sym is None:
            raise Unsupported("binary op %s" % type(op).__name__)
        t = RAT if RAT in (ta, tb) else INT
        return ("(%s %s %s)" % (_cast(a, ta, t), sym, _cast(b, tb, t)), t)

    def e_Call(self, e):
        fn = e.func
        name = None
        if isinstance(fn, ast.Name):
            name = fn.id
        elif isinstance(fn, ast.Attribute) and isinstance(fn.value, ast.Name) and fn.value.id in ("np", "xp", "math"):
            name = "np." + fn.attr
        args = [self.tr(a) for a in e.args]
        if name in ("np.ceil", "np.floor") and len(args) == 1:
            s, t = args[0]
            f = "Rat.ceil" if name == "np.ceil" else "Rat.floor"
            return ("(%s %s)" % (f, _cast(s, t, RAT)), INT)
        if name in ("max", "min") and len(args) == 2 and all(t == INT for _, t in args):
            return ("(py%s %s %s)" % (name.capitalize(), args[0][0], args[1][0]), INT)
        if name == "abs" and len(args) == 1:
            s, t = args[0]
            return (("(ratAbs %s)" if t == RAT else "(intAbs %s)") % s, t)
        if name == "int" and len(args) == 1 and args[0][1] == INT:
            return args[0]
        if name in self.funcs:
            lean, argt, rt = self.funcs[name]
            if len(argt) != len(args):
                raise Unsupported("arity of %s" % name)
            return ("(%s %s)" % (lean, " ".join(_cast(s, t, w) for (s, t), w in zip(args, argt))), rt)
        raise Unsupported("call %s" % ast.dump(fn)[:60])

    def e_Subscript(self, e):
        # x.shape[k]  |  data[i, j]
        v = e.value
        if isinstance(v, ast.Attribute) and v.attr == "shape" and isinstance(v.value, ast.Name) \
                and v.value.id in self.shapes:
            s, t = self.tr(e.slice)
            if t != INT:
                raise Unsupported("shape index")
            return ("(%s_shape %s)" % (v.value.id, s), INT)
        if isinstance(v, ast.Name) and v.id in self.arrays:
            idx = e.slice.elts if isinstance(e.slice, ast.Tuple) else [e.slice]
            if len(idx) != self.arrays[v.id]:
                raise Unsupported("rank of %s" % v.id)
            parts = []
            for i in idx:
                s, t = self.tr(i)
                if t != INT:
                    raise Unsupported("non-int index")
                parts.append(s)
            return ("(%s %s)" % (v.id, " ".join(parts)), RAT)
        raise Unsupported("subscript %s" % ast.dump(e)[:80])

    # conditions -> Lean Prop (decidable)
    def cond(self, e):
        if isinstance(e, ast.BoolOp):
            sym = " ∧ " if isinstance(e.op, ast.And) else " ∨ "
            return "(" + sym.join(self.cond(v) for v in e.values) + ")"
        if isinstance(e, ast.UnaryOp) and isinstance(e.op, ast.Not):
            return "(¬ %s)" % self.cond(e.operand)
        if isinstance(e, ast.Compare):
            parts, left = [], e.left
            for op, right in zip(e.ops, e.comparators):
                (a, ta), (b, tb) = self.tr(left), self.tr(right)
                t = RAT if RAT in (ta, tb) else INT
                sym = {ast.Lt: "<", ast.LtE: "≤", ast.Gt: ">", ast.GtE: "≥", ast.Eq: "=", ast.NotEq: "≠"}.get(type(op))
                if sym is None:
                    raise Unsupported("comparison")
                parts.append("%s %s %s" % (_cast(a, ta, t), sym, _cast(b, tb, t)))
                left = right
            return "(" + " ∧ ".join(parts) + ")"
        raise Unsupported("condition %s" % ast.dump(e)[:80])


class Kernel:
    """T1: translate a numba loop-nest kernel into a Lean update-list function."""

    def __init__(self, fn, out="output", inp="input", int_params=(), arrays=None, funcs=None, extra_shapes=()):
        self.fn, self.out, self.inp = fn, out, inp
        self.int_params = list(int_params)
        self.arrays = arrays or {}
        self.funcs = funcs or {}
        self.accumulate = None  # True for +=, False for =
        self.extra_shapes = list(extra_shapes)

    def lean(self, name):
        env = {p: INT for p in self.int_params}
        self.ex = Expr(env, self.arrays, {self.out, self.inp} | set(self.extra_shapes), self.funcs)
        body = self.block(self.fn.body, env, 1)
        params = []
        for f, (lean, argt, rt) in self.funcs.items():
            params.append("(%s : %s)" % (lean, " → ".join(["Rat" if t == RAT else "Int" for t in argt] + ["Rat" if rt == RAT else "Int"])))
        params.append("(%s : Int → Int)" % " ".join(a + "_shape" for a in [self.out, self.inp] + self.extra_shapes))
        for a, k in self.arrays.items():
            params.append("(%s : %s)" % (a, " → ".join(["Int"] * k + ["Rat"])))
        if self.int_params:
            params.append("(%s : Int)" % " ".join(nm(p) for p in self.int_params))
        kind = "accumulate (`+=`)" if self.accumulate else "assign (`=`)"
        return ("/-- generated from `%s` (update kind: %s) -/\ndef %s %s : List (Upd Rat) :=\n%s\n" % (
            self.fn.name, kind, name, " ".join(params), body)), self.accumulate

    def block(self, stmts, env, ind):
        pad = "  " * ind
        if not stmts:
            return pad + "[]"
        s, rest = stmts[0], stmts[1:]
        ex = self.ex
        ex.env = env
        if isinstance(s, ast.Expr) and isinstance(s.value, ast.Constant):
            return self.block(rest, env, ind)  # docstring
        if isinstance(s, ast.Return):
            if rest:
                raise Unsupported("code after return")
            return pad + "[]"
        if isinstance(s, ast.Assign) and len(s.targets) == 1:
            tgt = s.targets[0]
            # shape unpacking:  a, b = x.shape
            if isinstance(tgt, ast.Tuple) and isinstance(s.value, ast.Attribute) and s.value.attr == "shape":
                arr = s.value.value.id
                if arr not in (self.out, self.inp):
                    raise Unsupported("shape of %s" % arr)
                lets, env2 = [], dict(env)
                for k, t in enumerate(tgt.elts):
                    lets.append(pad + "let %s : Int := %s_shape %d" % (nm(t.id), arr, k))
                    env2[t.id] = INT
                return "\n".join(lets) + "\n" + self.block(rest, env2, ind)
            if isinstance(tgt, ast.Tuple) and isinstance(s.value, ast.Tuple) and len(tgt.elts) == len(s.value.elts):
                lets, env2 = [], dict(env)
                vals = [ex.tr(v) for v in s.value.elts]  # simultaneous assignment: evaluate first
                for t, (v, ty) in zip(tgt.elts, vals):
                    if t.id in env:
                        raise Unsupported("rebinding %s in tuple assignment" % t.id)
                    lets.append(pad + "let %s : %s := %s" % (nm(t.id), "Rat" if ty == RAT else "Int", v))
                    env2[t.id] = ty
                return "\n".join(lets) + "\n" + self.block(rest, env2, ind)
            if isinstance(tgt, ast.Name):
                v, ty = ex.tr(s.value)
                env2 = dict(env)
                env2[tgt.id] = ty
                return pad + "let %s : %s := %s\n" % (nm(tgt.id), "Rat" if ty == RAT else "Int", v) + self.block(rest, env2, ind)
            if isinstance(tgt, ast.Subscript):
                return self.update(tgt, s.value, False, env, ind) + self.tail(rest, env, ind)
        if isinstance(s, ast.AugAssign) and isinstance(s.op, ast.Add) and isinstance(s.target, ast.Subscript):
            return self.update(s.target, s.value, True, env, ind) + self.tail(rest, env, ind)
        if isinstance(s, ast.For):
            if s.orelse or not isinstance(s.target, ast.Name):
                raise Unsupported("for form")
            it = s.iter
            if not (isinstance(it, ast.Call) and isinstance(it.func, ast.Name) and it.func.id == "range"):
                raise Unsupported("for over non-range")
            args = [ex.tr(a) for a in it.args]
            if any(t != INT for _, t in args):
                raise Unsupported("non-int range bound")
            a = [x for x, _ in args]
            if len(a) == 1:
                rng = "pyRange (0 : Int) %s (1 : Int)" % a[0]
            elif len(a) == 2:
                rng = "pyRange %s %s (1 : Int)" % (a[0], a[1])
            elif len(a) == 3:
                rng = "pyRange %s %s %s" % (a[0], a[1], a[2])
            else:
                raise Unsupported("range arity")
            env2 = dict(env)
            env2[s.target.id] = INT
            inner = self.block(s.body, env2, ind + 1)
            return pad + "((%s).flatMap fun (%s : Int) =>\n%s)" % (rng, nm(s.target.id), inner) + self.tail(rest, env, ind)
        if isinstance(s, ast.If):
            c = ex.cond(s.test)
            th = self.block(s.body, dict(env), ind + 1)
            el = self.block(s.orelse, dict(env), ind + 1)
            return pad + "(if %s then\n%s\n%selse\n%s)" % (c, th, pad, el) + self.tail(rest, env, ind)
        raise Unsupported("statement %s" % ast.dump(s)[:100])

    def tail(self, rest, env, ind):
        rest = [r for r in rest if not isinstance(r, ast.Return)]
        if not rest:
            return ""
        return " ++\n" + self.block(rest, env, ind)

    def idx(self, sub, arr):
        if not (isinstance(sub.value, ast.Name) and sub.value.id == arr):
            raise Unsupported("update of %s" % ast.dump(sub.value)[:40])
        elts = sub.slice.elts if isinstance(sub.slice, ast.Tuple) else [sub.slice]
        out = []
        for e in elts:
            s, t = self.ex.tr(e)
            if t != INT:
                raise Unsupported("non-int index")
            out.append(s)
        return "[" + ", ".join(out) + "]"

    def update(self, tgt, rhs, acc, env, ind):
        if self.accumulate is None:
            self.accumulate = acc
        elif self.accumulate != acc:
            raise Unsupported("mixed = and +=")
        self.ex.env = env
        dst = self.idx(tgt, self.out)
        # rhs: in[idx] | w * in[idx] | in[idx] * w
        w = "(1 : Rat)"
        r = rhs
        if isinstance(r, ast.BinOp) and isinstance(r.op, ast.Mult):
            if isinstance(r.right, ast.Subscript) and isinstance(r.right.value, ast.Name) and r.right.value.id == self.inp:
                ws, wt = self.ex.tr(r.left)
                w, r = _cast(ws, wt, RAT), r.right
            elif isinstance(r.left, ast.Subscript) and isinstance(r.left.value, ast.Name) and r.left.value.id == self.inp:
                ws, wt = self.ex.tr(r.right)
                w, r = _cast(ws, wt, RAT), r.left
            else:
                raise Unsupported("rhs product form")
        if not isinstance(r, ast.Subscript):
            raise Unsupported("rhs form %s" % ast.dump(rhs)[:80])
        src = self.idx(r, self.inp)
        return "  " * ind + "[(%s, %s, %s)]" % (dst, src, w)


def find_function(tree, qualname):
    """qualname like `_array_to_blocks1` or `_get_interpolate._interpolate1` or `Class.method`."""
    node = tree
    for part in qualname.split("."):
        found = None
        for n in ast.walk(node) if node is tree else node.body:
            if isinstance(n, (ast.FunctionDef, ast.ClassDef)) and n.name == part:
                found = n
                break
        if found is None:
            raise Unsupported("function %s not found" % qualname)
        node = found
    return node


def formula(expr_node, int_vars, funcs=None):
    """T2: a Python int expression over the free int variables -> Lean Int expression string."""
    ex = Expr({v: INT for v in int_vars}, funcs=funcs)
    s, t = ex.tr(expr_node)
    if t != INT:
        raise Unsupported("formula is not an int")
    return s


def find_assign(fn, target):
    """first `target = value` (or `target = [elt for ...]`) in function fn; returns the value node"""
    for n in ast.walk(fn):
        if isinstance(n, ast.Assign) and len(n.targets) == 1 and isinstance(n.targets[0], ast.Name) \
                and n.targets[0].id == target:
            return n.value
    raise Unsupported("assignment to %s not found in %s" % (target, fn.name))


def listcomp_elt(node):
    """`[elt for a, b in zip(..)]` -> (elt node, [bound names])"""
    if not isinstance(node, ast.ListComp) or len(node.generators) != 1:
        raise Unsupported("not a simple list comprehension")
    g = node.generators[0]
    if g.ifs:
        raise Unsupported("comprehension filter")
    t = g.target
    names = [e.id for e in t.elts] if isinstance(t, ast.Tuple) else [t.id]
    return node.elt, names, g.iter
