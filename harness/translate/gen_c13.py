"""Translator plugin for C13: the update formulas of `GradientMethod._update` and
`PrimalDualHybridGradient._update` (sigpy/alg.py) as Lean definitions, generic over the scalar type
`S`, the vector types `V` (primal) / `W` (dual) and the step types `P` (tau) / `D` (sigma).

Every right-hand side that moves data in the two `_update` bodies is located in the AST and translated
expression by expression (typed: scalar * vector becomes `•`, `e ** 0.5` becomes the `sqrt` parameter,
`util.axpy(y, a, x)` is read as `y + a * x`, `backend.copyto(y, e)` as `y := e`, `.copy()` as the value).
The hand-written model (Model/C13.lean) only sequences these definitions; the theorems in Props/C13.lean
are stated about them, so a changed momentum coefficient, prox argument, theta formula or rescaling
operator changes the definition the Lean kernel re-checks.  Anything outside the subset raises
`Unsupported` (a broken obligation, never a pass).
"""
import ast

from harness.translate import py2lean as T
from harness.translate import gen as G
from harness.translate import norm_alg as N

S, V, W, P, D = "S", "V", "W", "P", "D"
SCALARLIKE = (S, P, D)

CLASSES = ("variable {S V W P D : Type} [Add S] [Sub S] [Mul S] [Div S] [Neg S] [NatCast S]\n"
           "  [Add V] [Sub V] [SMul S V] [Add W] [Sub W] [SMul S W]\n"
           "  [Neg P] [SMul P V] [SMul S P] [HDiv P S P] [Neg D] [SMul D W] [SMul S D] [HDiv D S D]\n")


def key(e):
    """`self.a` -> 'self.a', `name` -> 'name'"""
    if isinstance(e, ast.Name):
        return e.id
    if isinstance(e, ast.Attribute) and isinstance(e.value, ast.Name) and e.value.id == "self":
        return "self." + e.attr
    return None


class TExpr:
    def __init__(self, env, funcs):
        self.env = env      # python key -> (lean name, type)
        self.funcs = funcs  # python key -> (lean name, [arg types], result type)
        self.used = []

    def tr(self, e):
        k = key(e)
        if k is not None:
            if k not in self.env:
                raise T.Unsupported("unknown name %s" % k)
            if k not in self.used:
                self.used.append(k)
            return self.env[k]
        if isinstance(e, ast.Constant):
            if isinstance(e.value, bool) or not isinstance(e.value, int) or e.value < 0:
                raise T.Unsupported("constant %r" % (e.value,))
            return ("((%d : Nat) : S)" % e.value, S)
        if isinstance(e, ast.UnaryOp) and isinstance(e.op, ast.USub):
            s, t = self.tr(e.operand)
            if t not in SCALARLIKE:
                raise T.Unsupported("negated vector")
            return ("(-%s)" % s, t)
        if isinstance(e, ast.Call):
            # x.copy() is the value of x
            if isinstance(e.func, ast.Attribute) and e.func.attr == "copy" and not e.args and not e.keywords:
                return self.tr(e.func.value)
            k = key(e.func)
            if k in self.funcs and not e.keywords:
                lean, argt, rt = self.funcs[k]
                if k not in self.used:
                    self.used.append(k)
                args = [self.tr(a) for a in e.args]
                if [t for _, t in args] != argt:
                    raise T.Unsupported("argument types of %s: %s" % (k, [t for _, t in args]))
                return ("(%s %s)" % (lean, " ".join(s for s, _ in args)), rt)
            raise T.Unsupported("call %s" % ast.dump(e.func)[:60])
        if isinstance(e, ast.BinOp):
            if isinstance(e.op, ast.Pow):
                s, t = self.tr(e.left)
                if t != S or not isinstance(e.right, ast.Constant):
                    raise T.Unsupported("power")
                if e.right.value == 2 and isinstance(e.right.value, int):
                    return ("(%s * %s)" % (s, s), S)
                if isinstance(e.right.value, float) and e.right.value == 0.5:
                    if "sqrt" not in self.used:
                        self.used.append("sqrt")
                    return ("(sqrt %s)" % s, S)
                raise T.Unsupported("power %r" % (e.right.value,))
            (a, ta), (b, tb) = self.tr(e.left), self.tr(e.right)
            if isinstance(e.op, (ast.Add, ast.Sub)):
                if ta != tb:
                    raise T.Unsupported("adding %s and %s" % (ta, tb))
                return ("(%s %s %s)" % (a, "+" if isinstance(e.op, ast.Add) else "-", b), ta)
            if isinstance(e.op, ast.Mult):
                return self.mul(a, ta, b, tb)
            if isinstance(e.op, ast.Div):
                if ta == S and tb == S:
                    return ("(%s / %s)" % (a, b), S)
                if ta in (P, D) and tb == S:
                    return ("(%s / %s)" % (a, b), ta)
                raise T.Unsupported("dividing %s by %s" % (ta, tb))
        raise T.Unsupported("expression %s" % ast.dump(e)[:80])

    def mul(self, a, ta, b, tb):
        if ta == S and tb == S:
            return ("(%s * %s)" % (a, b), S)
        if ta == S and tb in (P, D, V, W):
            return ("(%s • %s)" % (a, b), tb)
        if tb == S and ta in (P, D, V, W):
            return ("(%s • %s)" % (b, a), ta)
        if (ta, tb) in ((P, V), (D, W)):
            return ("(%s • %s)" % (a, b), tb)
        if (tb, ta) in ((P, V), (D, W)):
            return ("(%s • %s)" % (b, a), ta)
        raise T.Unsupported("multiplying %s and %s" % (ta, tb))


FUN_T = {"gradf": "V → V", "gm_proxg": "S → V → V", "A": "V → W", "AH": "W → V", "proxfc": "D → W → W",
         "proxg": "P → V → V", "sqrt": "S → S"}


def emit(name, doc, node, env, funcs, want, aug=None, params=None, fparams=None):
    """one Lean def from one expression node.  `aug=(target_key, op)` reads `target op= node`.
    `fparams` / `params`: the FIXED signature (function parameters, then data parameters, as python keys);
    an expression that reads anything else is outside the subset.  The signature never depends on the
    expression, so a changed operand changes the body the model calls, not the meaning of an argument."""
    tx = TExpr(env, funcs)
    if aug is not None:
        tgt, op = aug
        a, ta = tx.tr(tgt)
        b, tb = tx.tr(node)
        if isinstance(op, ast.Mult):
            s, t = tx.mul(a, ta, b, tb)
        elif isinstance(op, ast.Div) and tb == S and ta in (S, P, D):
            s, t = "(%s / %s)" % (a, b), ta
        else:
            raise T.Unsupported("augmented assignment %s" % type(op).__name__)
    else:
        s, t = tx.tr(node)
    if t != want:
        raise T.Unsupported("%s has type %s, expected %s" % (name, t, want))
    for k in tx.used:
        if k not in (fparams or []) and k not in (params or []):
            raise T.Unsupported("%s reads %s, which is not among its modelled operands %s" % (name, k, (fparams or []) + (params or [])))
    fb = ["(sqrt : S → S)" if k == "sqrt" else "(%s : %s)" % (funcs[k][0], FUN_T[funcs[k][0]]) for k in (fparams or [])]
    db = ["(%s : %s)" % env[k] for k in (params or [])]
    return "/-- generated from `%s` -/\ndef %s %s : %s := %s\n" % (doc, name, " ".join(fb + db), want, s)


def stmts(fn):
    for n in ast.walk(fn):
        if isinstance(n, ast.stmt):
            yield n


def find_call(fn, attr, first):
    """all calls `<mod>.attr(first, ...)` in fn, in source order"""
    out = []
    for n in ast.walk(fn):
        if isinstance(n, ast.Call) and isinstance(n.func, ast.Attribute) and n.func.attr == attr \
                and n.args and key(n.args[0]) == first:
            out.append(n)
    out.sort(key=lambda n: (n.lineno, n.col_offset))
    return out


def one(l, what):
    if len(l) != 1:
        raise T.Unsupported("expected exactly one %s, found %d" % (what, len(l)))
    return l[0]


def assigns(fn, target):
    out = [n for n in stmts(fn) if isinstance(n, ast.Assign) and len(n.targets) == 1 and key(n.targets[0]) == target]
    out.sort(key=lambda n: n.lineno)
    return out


def augs(node, target):
    out = [n for n in ast.walk(node) if isinstance(n, ast.AugAssign) and key(n.target) == target]
    out.sort(key=lambda n: n.lineno)
    return out


def axpy_expr(call):
    """util.axpy(y, a, x)  ==  y + a * x"""
    if len(call.args) != 3:
        raise T.Unsupported("axpy arity")
    y, a, x = call.args
    return ast.BinOp(left=y, op=ast.Add(), right=ast.BinOp(left=a, op=ast.Mult(), right=x))


def gen_c13(ctx=None):
    tree = G._parse("sigpy/alg.py")
    out = [G.HEADER % "sigpy/alg.py (GradientMethod._update, PrimalDualHybridGradient._update)"]
    out[0] = out[0].replace("namespace SigpyVerif.Gen\n", "namespace SigpyVerif.Gen.C13\n")
    out.append(CLASSES)

    # ---------------- GradientMethod._update ----------------
    # spelling normal form first (harness/translate/norm_alg.py): keywords of util.axpy / backend.copyto made positional
    # against the callee's `def`, private single-expression helpers substituted, single-assignment temporaries other than
    # the locals matched by name below inlined.  `model_pure`: the user callables this plugin models as FUNCTIONS anyway.
    fn = N.normalise_update(tree, "GradientMethod", T.find_function(tree, "GradientMethod._update"),
                            keep={"xp", "x_old", "t_old"}, model_pure={"self.gradf", "self.proxg"})
    env = {"self.x": ("x", V), "self.z": ("z", V), "x_old": ("x_old", V), "self.alpha": ("alpha", S),
           "t_old": ("t_old", S), "self.t": ("t", S)}
    funcs = {"self.gradf": ("gradf", [V], V), "self.proxg": ("gm_proxg", [S, V], V)}
    # every statement of the body must be one we account for
    accounted = 0
    c = one(find_call(fn, "axpy", "self.x"), "axpy(self.x, ..) in GradientMethod._update")
    out.append(emit("gmGrad", "util.axpy(self.x, -self.alpha, self.gradf(self.x))", axpy_expr(c), env, funcs, V, fparams=["self.gradf"], params=["self.x", "self.alpha"]))
    cps = find_call(fn, "copyto", "self.x")
    if len(cps) != 2:
        raise T.Unsupported("expected copyto(self.x, self.z) and copyto(self.x, prox) in GradientMethod._update")
    if key(cps[0].args[1]) != "self.z":
        raise T.Unsupported("first copyto(self.x, ·) is not from self.z")
    out.append(emit("gmProx", "backend.copyto(self.x, self.proxg(self.alpha, self.x))", cps[1].args[1], env, funcs, V, fparams=["self.proxg"], params=["self.alpha", "self.x"]))
    a = one(assigns(fn, "self.t"), "assignment to self.t")
    out.append(emit("gmT", "self.t = …", a.value, env, funcs, S, fparams=["sqrt"], params=["t_old"]))
    a = one(assigns(fn, "t_old"), "assignment to t_old")
    if key(a.value) != "self.t":
        raise T.Unsupported("t_old is not self.t")
    a = one(assigns(fn, "x_old"), "assignment to x_old")
    out.append(emit("gmXOld", "x_old = self.x.copy()", a.value, env, funcs, V, params=["self.x"]))
    c = one(find_call(fn, "copyto", "self.z"), "copyto(self.z, ..)")
    out.append(emit("gmZ", "backend.copyto(self.z, …)", c.args[1], env, funcs, V, params=["self.x", "t_old", "self.t", "x_old", "self.z"]))
    # statement census: a new data-moving statement would not be modelled -> refuse
    census(fn, allowed_assign={"xp", "x_old", "self.resid", "t_old", "self.t"}, allowed_calls={"copyto": 3, "axpy": 1},
           allowed_aug=set(), what="GradientMethod._update")

    # ---------------- PrimalDualHybridGradient._update ----------------
    fn = N.normalise_update(tree, "PrimalDualHybridGradient", T.find_function(tree, "PrimalDualHybridGradient._update"),
                            keep={"xp", "u_old", "x_ext_diff", "resid_dual", "x_old", "theta", "x_diff"},
                            model_pure={"self.A", "self.AH", "self.proxfc", "self.proxg"})
    env = {"self.x": ("x", V), "self.u": ("u", W), "self.x_ext": ("x_ext", V), "x_old": ("x_old", V),
           "x_diff": ("x_diff", V), "u_old": ("u_old", W), "self.tau": ("tau", P), "self.sigma": ("sigma", D), "theta": ("theta", S),
           "self.theta": ("theta0", S),
           "self.gamma_primal": ("gamma_primal", S), "self.gamma_dual": ("gamma_dual", S),
           "self.tau_min": ("tau_min", S), "self.sigma_min": ("sigma_min", S)}
    funcs = {"self.A": ("A", [V], W), "self.AH": ("AH", [W], V), "self.proxfc": ("proxfc", [D, W], W),
             "self.proxg": ("proxg", [P, V], V)}
    c = one(find_call(fn, "axpy", "self.u"), "axpy(self.u, ..)")
    out.append(emit("pdDualArg", "util.axpy(self.u, self.sigma, self.A(self.x_ext))", axpy_expr(c), env, funcs, W, fparams=["self.A"], params=["self.u", "self.sigma", "self.x_ext", "self.x"]))
    c = one(find_call(fn, "copyto", "self.u"), "copyto(self.u, ..)")
    out.append(emit("pdDualProx", "backend.copyto(self.u, self.proxfc(self.sigma, self.u))", c.args[1], env, funcs, W, fparams=["self.proxfc"], params=["self.sigma", "self.u"]))
    a = one(assigns(fn, "x_old"), "assignment to x_old")
    out.append(emit("pdXOld", "x_old = self.x.copy()", a.value, env, funcs, V, params=["self.x"]))
    c = one(find_call(fn, "axpy", "self.x"), "axpy(self.x, ..)")
    out.append(emit("pdPrimalArg", "util.axpy(self.x, -self.tau, self.AH(self.u))", axpy_expr(c), env, funcs, V, fparams=["self.AH"], params=["self.x", "self.tau", "self.u", "u_old"]))
    c = one(find_call(fn, "copyto", "self.x"), "copyto(self.x, ..)")
    out.append(emit("pdPrimalProx", "backend.copyto(self.x, self.proxg(self.tau, self.x))", c.args[1], env, funcs, V, fparams=["self.proxg"], params=["self.tau", "self.x"]))
    # the three-way branch
    top_ifs = [n for n in fn.body if isinstance(n, ast.If)]
    br = one(top_ifs, "top-level if in PrimalDualHybridGradient._update")
    if not (len(br.orelse) == 1 and isinstance(br.orelse[0], ast.If)):
        raise T.Unsupported("step-size update is not if/elif/else")
    br2 = br.orelse[0]
    want_tests = ["self.gamma_primal > 0 and self.gamma_dual == 0", "self.gamma_primal == 0 and self.gamma_dual > 0"]
    got_tests = [ast.unparse(br.test), ast.unparse(br2.test)]
    if got_tests != want_tests:
        raise T.Unsupported("branch conditions changed: %s" % got_tests)
    for tag, node, names in (("P", br, ("self.tau", "self.tau_min", "self.sigma")),
                             ("D", br2, ("self.sigma", "self.sigma_min", "self.tau"))):
        body = ast.Module(body=node.body, type_ignores=[])
        a = one(assigns(body, "theta"), "theta assignment in branch " + tag)
        out.append(emit("pdTheta" + tag, "theta = … (branch gamma_%s > 0)" % ("primal" if tag == "P" else "dual"),
                        a.value, env, funcs, S, fparams=["sqrt"],
                        params=["self.gamma_primal", "self.tau_min"] if tag == "P" else ["self.gamma_dual", "self.sigma_min"]))
        for nme in names:
            g = one(augs(body, nme), "augmented assignment to %s in branch %s" % (nme, tag))
            lean = {"self.tau": "pdTau", "self.sigma": "pdSigma", "self.tau_min": "pdTauMin", "self.sigma_min": "pdSigmaMin"}[nme] + tag
            out.append(emit(lean, ast.unparse(g), g.value, env, funcs, env[nme][1], aug=(g.target, g.op),
                            params=[nme, "theta"]))
        if len([n for n in ast.walk(body) if isinstance(n, ast.AugAssign)]) != 3:
            raise T.Unsupported("unexpected augmented assignments in branch " + tag)
    els = ast.Module(body=br2.orelse, type_ignores=[])
    a = one(assigns(els, "theta"), "theta assignment in else branch")
    out.append(emit("pdThetaElse", "theta = self.theta", a.value, env, funcs, S, params=["self.theta"]))
    a = one(assigns(fn, "x_diff"), "assignment to x_diff")
    out.append(emit("pdXDiff", "x_diff = self.x - x_old", a.value, env, funcs, V, params=["self.x", "x_old"]))
    c = one(find_call(fn, "copyto", "self.x_ext"), "copyto(self.x_ext, ..)")
    out.append(emit("pdXExt", "backend.copyto(self.x_ext, self.x + theta * x_diff)", c.args[1], env, funcs, V, params=["self.x", "theta", "x_diff", "x_old"]))
    census(fn, allowed_assign={"xp", "u_old", "x_ext_diff", "resid_dual", "x_old", "theta", "x_diff", "self.resid"},
           allowed_calls={"copyto": 3, "axpy": 2}, allowed_aug={"self.tau", "self.tau_min", "self.sigma", "self.sigma_min"},
           what="PrimalDualHybridGradient._update")
    # order of the data-moving statements (dual before primal before rescale before extrapolation)
    order = [one(find_call(fn, "axpy", "self.u"), "").lineno, one(find_call(fn, "copyto", "self.u"), "").lineno,
             one(assigns(fn, "x_old"), "").lineno, one(find_call(fn, "axpy", "self.x"), "").lineno,
             one(find_call(fn, "copyto", "self.x"), "").lineno, br.lineno, one(assigns(fn, "x_diff"), "").lineno,
             one(find_call(fn, "copyto", "self.x_ext"), "").lineno]
    if order != sorted(order):
        raise T.Unsupported("statement order of PrimalDualHybridGradient._update changed")
    out.append("end SigpyVerif.Gen.C13\n")
    return "\n".join(out).replace("end SigpyVerif.Gen\n", "")


def census(fn, allowed_assign, allowed_calls, allowed_aug, what):
    """refuse bodies with data-moving statements the plugin does not know"""
    calls = {}
    for n in stmts(fn):
        if isinstance(n, ast.Assign):
            for t in n.targets:
                if key(t) not in allowed_assign:
                    raise T.Unsupported("%s: unmodelled assignment to %s" % (what, ast.unparse(t)))
        elif isinstance(n, ast.AugAssign):
            if key(n.target) not in allowed_aug:
                raise T.Unsupported("%s: unmodelled augmented assignment to %s" % (what, ast.unparse(n.target)))
        elif isinstance(n, ast.Expr):
            c = n.value
            if isinstance(c, ast.Constant):
                continue
            if not (isinstance(c, ast.Call) and isinstance(c.func, ast.Attribute) and c.func.attr in allowed_calls):
                raise T.Unsupported("%s: unmodelled statement %s" % (what, ast.unparse(n)[:60]))
            calls[c.func.attr] = calls.get(c.func.attr, 0) + 1
        elif isinstance(n, (ast.With, ast.If, ast.FunctionDef, ast.Return, ast.Pass)):
            continue
        else:
            raise T.Unsupported("%s: unmodelled statement kind %s" % (what, type(n).__name__))
    if calls != allowed_calls:
        raise T.Unsupported("%s: call census %s, expected %s" % (what, calls, allowed_calls))


GENERATORS = {"C13": gen_c13}
