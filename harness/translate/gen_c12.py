"""Translator plugin for C12: `sigpy.alg.ConjugateGradient` (`__init__`, `_update`, `_done`, together with
`Alg.__init__` reached through `super().__init__(max_iter)` and `Alg.update`) as Lean definitions
`Gen.C12.init / update_ / update / done`, generic over the operation record `C12.Ops V S` of
Model/C12Base.lean (the record the driver instantiates with exact Gaussian rationals and Props/C12.lean
with a Mathlib inner-product space).

This is a small symbolic executor, not a pattern table: the statements of each body are walked IN SOURCE
ORDER; every assignment becomes one Lean `let` whose right-hand side is the translated Python
expression over the values current at that point, every `if` becomes a Lean `if` / `match` whose
branches contain the translation of the branch body followed by the rest of the function (so an early
`return` is just a leaf), and every leaf is the record of the object's attributes at that point.
Consequences:
  * the signatures of the generated definitions are FIXED (`o A P b x max_iter`, `o A P max_iter s`,
    `o max_iter tol s`); a changed operand, a moved statement (a stale `rzold`), a changed guard or a changed
    disjunct changes the BODY the Lean kernel re-checks the theorems against;
  * splitting a statement in two, introducing a temporary, writing `util.axpy(y, a, x)` as `y += a * x`
    or `util.axpy(r, -a, Ap)` as `r -= a * Ap` give a definitionally equal body;
  * arrays are tracked as OBJECTS (a name bound without `.copy()` shares the object; `util.axpy`,
    `util.xpay`, `+=`, `-=` update the object, so every name bound to it sees the new value).  The result of
    `self.A(·)` / `self.P(·)` may be its argument (an identity preconditioner returns its input): such an
    object must not be updated in place (outside the subset), and `State.alias` records that `self.p`
    is-or-may-be the array `self.r`.  `updInplaceGuard` is the (integer part of the) path condition under which
    `_update` updates `self.r` / `self.p` in place; Props proves it false whenever `alias` holds.
  * `initXIsCaller` / `updXIsCaller`: `self.x` is the caller's array and is never rebound.
Harmless spellings are NORMALISED before a definition is emitted (so a behaviour-preserving refactoring of these
methods regenerates the same definition, or one that differs by `let`s only, and the theorems keep checking):
  * a call to a PRIVATE helper defined in the same file - `self._name(...)` (a method of ConjugateGradient or Alg
    other than the entry points) or `_name(...)` (module level) - is replaced by the helper's body with the
    parameters bound to the arguments (objects by reference, so `return r` keeps the aliasing); as a statement or a
    whole right-hand side any helper of the subset may be inlined, nested inside an expression only a helper without
    stores, and under `or` / `and` / a conditional expression only one without operator applications; recursion is
    outside the subset; further methods of the class must be private and override nothing of Alg;
  * positional / keyword arguments of `util.axpy`, `util.xpay`, `Alg.__init__` and of helpers are resolved against
    the callee's signature (sigpy/util.py is parsed for the first two); an unknown, repeated or missing argument, `*` /
    `**`, or a reordering that would change the order in which operators are applied is outside the subset;
  * local integer / Boolean temporaries and an un-`real`-ed `xp.vdot(u, v)` are inlined; `xp.vdot(u, v).real` is
    `xp.real(xp.vdot(u, v))`; `t = a if c else b` is the `if` statement;
  * integer expressions are linear forms and integer comparisons are `D > 0` / `D >= 0` / `D = 0` rendered
    canonically (`self.max_iter - 1 > self.iter`, `self.iter + 1 < self.max_iter`, `self.iter <= self.max_iter - 2`
    all give `s.iter < (max_iter - 1)`); Booleans are and / or / not trees with negations pushed to the leaves (De
    Morgan); `if not c: A else: B` is `if c: B else: A` (an `if` on an integer comparison is emitted on its strict
    form); in `_done` an if / elif / else chain of Boolean returns is the corresponding `or` / `and` chain;
    `0 >= s` is `s <= 0`, `tol >= sqrt` is `sqrt <= tol` (but `pAp > 0` is NOT `not (pAp <= 0)`: NaN).
Everything else (an unknown statement kind, call, operator, attribute, comparison such as `pAp < 0`, a
`vdot` of which the real part is not taken, reading an attribute that is not part of the modelled state, dead code
after `return`, a public or overriding extra method, a changed base class) raises `Unsupported` = a broken
`translate:` obligation.
"""
import ast
import re

from harness.translate import py2lean as T
from harness.translate import gen as G

V, S, I, B, F, OF, SQ, CX = "V", "S", "Int", "Bool", "V → V", "Option (V → V)", "sqrt S", "complex scalar"
STATE_FIELDS = ["x", "r", "p", "rzold", "resid2", "npd", "iter", "alias"]
CONSTS = {"self.A": ("A", F), "self.P": ("P", OF), "self.max_iter": ("max_iter", I), "self.tol": ("tol", S),
          "self.b": ("b", V)}


def U(msg):
    return T.Unsupported("ConjugateGradient: " + msg)


def key(e):
    if isinstance(e, ast.Name):
        return e.id
    if isinstance(e, ast.Attribute) and isinstance(e.value, ast.Name) and e.value.id == "self":
        return "self." + e.attr
    return None


# ---------------------------------------------------------------------------------------------------
# normal forms.  Integers are LINEAR FORMS over atoms (`max_iter`, `s.iter`, a let-bound name, a non-linear
# product), Booleans are trees of and / or / not over opaque atoms and integer comparisons `D > 0` / `D >= 0` /
# `D = 0` / `D != 0` (D a linear form).  Both are rendered canonically, so that commuted / re-associated integer
# expressions (`self.max_iter - 1` / `-1 + self.max_iter`), commuted or shifted comparisons
# (`self.iter < self.max_iter - 1` / `self.max_iter - 1 > self.iter` / `self.iter + 1 < self.max_iter` /
# `self.iter <= self.max_iter - 2`), negated guards with swapped branches and De Morgan variants give the SAME
# generated text, while a changed constant, operand or comparison direction gives a different one.
# ---------------------------------------------------------------------------------------------------
def lin_add(a, b, sb=1):
    d = dict(a[0])
    for k, c in b[0].items():
        d[k] = d.get(k, 0) + sb * c
    return ({k: c for k, c in d.items() if c != 0}, a[1] + sb * b[1])


def lin_scale(a, k):
    return ({x: c * k for x, c in a[0].items() if c * k != 0}, a[1] * k)


def lin_mul(a, b):
    if not a[0]:
        return lin_scale(b, a[1])
    if not b[0]:
        return lin_scale(a, b[1])
    return ({"(%s)" % " * ".join(sorted([render_lin(a), render_lin(b)])): 1}, 0)


def render_lin(l, paren=True):
    d, c0 = l
    pos = sorted(k for k, c in d.items() if c > 0)
    neg = sorted(k for k, c in d.items() if c < 0)
    out = ""
    for k in pos + neg:
        c = d[k]
        mag = k if abs(c) == 1 else "%d * %s" % (abs(c), k)
        if not out:
            out = mag if c > 0 else "-" + mag
        else:
            out += (" + " if c > 0 else " - ") + mag
    if not out:
        return "%d" % c0 if c0 >= 0 else "(%d)" % c0
    if c0:
        out += (" + %d" % c0) if c0 > 0 else (" - %d" % -c0)
    simple = len(d) == 1 and c0 == 0 and list(d.values()) == [1]
    return out if simple or not paren else "(" + out + ")"


def cmp_node(kind, D):
    """canonical comparison node: kind in '<' (D > 0), '≤' (D >= 0), '=' (D = 0), '≠'"""
    if kind == "<" and abs(D[1] - 1) < abs(D[1]):
        kind, D = "≤", (D[0], D[1] - 1)
    elif kind == "≤" and abs(D[1] + 1) < abs(D[1]):
        kind, D = "<", (D[0], D[1] + 1)
    elif kind in ("=", "≠"):
        ks = sorted(D[0])
        if (ks and D[0][ks[-1]] > 0) or (not ks and D[1] < 0):
            D = lin_scale(D, -1)
    return ("cmp", kind, D)


def render_cmp(n):
    """`left op right` with the (lexicographically last) principal atom on the left"""
    _, kind, D = n
    d, c0 = D
    if not d:
        return "0 %s %d" % (kind, c0) if c0 >= 0 else "0 %s (%d)" % (kind, c0)
    lead = d[sorted(d)[-1]]
    neg = ({k: -c for k, c in d.items() if c < 0}, 0)
    pos = ({k: c for k, c in d.items() if c > 0}, 0)
    if lead < 0:      # neg atoms  op  pos atoms + c0
        return "%s %s %s" % (render_lin(neg), kind, render_lin((pos[0], c0)))
    op = {"<": ">", "≤": "≥"}.get(kind, kind)
    return "%s %s %s" % (render_lin(pos), op, render_lin((neg[0], -c0)))


def b_not(n):
    t = n[0]
    if t == "const":
        return ("const", not n[1])
    if t == "atom":
        return ("not", n)
    if t == "not":
        return n[1]
    if t == "cmp":
        _, kind, D = n
        if kind == "<":      # not (D > 0)  <->  -D >= 0
            return cmp_node("≤", lin_scale(D, -1))
        if kind == "≤":      # not (D >= 0) <->  -D > 0
            return cmp_node("<", lin_scale(D, -1))
        return cmp_node("≠" if kind == "=" else "=", D)
    return b_join("or" if t == "and" else "and", [b_not(x) for x in n[1]])


def b_join(op, nodes):
    out = []
    for x in nodes:
        out.extend(x[1] if x[0] == op else [x])
    return (op, out)


def render_b(n):
    t = n[0]
    if t == "const":
        return "true" if n[1] else "false"
    if t == "atom":
        return n[1]
    if t == "not":
        return "(!%s)" % render_b(n[1])
    if t == "cmp":
        return "decide (%s)" % render_cmp(n)
    return "(" + (" && " if t == "and" else " || ").join(render_b(x) for x in n[1]) + ")"


def b_int_only(n):
    """a condition over the counter and the budget only (recorded as a path condition)"""
    if n[0] == "cmp":
        return set(n[2][0]) <= {"s.iter", "max_iter"}
    return n[0] in ("and", "or") and all(b_int_only(x) for x in n[1])


class Val:
    """a value: Lean term + type; vectors live in the heap (obj = object id); integers carry their linear form,
    Booleans their tree, an un-`real`-ed `xp.vdot(u, v)` (type C) the pair of operand terms"""

    def __init__(self, typ, term=None, obj=None, lin=None, bt=None, pair=None):
        if typ == I:
            if lin is None:
                lin = ({}, int(term)) if re.fullmatch(r"\d+", term) else ({term: 1}, 0)
            term = render_lin(lin)
        if typ == B:
            if bt is None:
                bt = ("const", term == "true") if term in ("true", "false") else ("atom", term)
            term = render_b(bt)
        self.typ, self.term, self.obj, self.lin, self.bt, self.pair = typ, term, obj, lin, bt, pair


class Obj:
    def __init__(self, term, origin, may_be=None):
        self.term = term          # current contents (Lean term, an SSA name or a parameter)
        self.origin = origin      # 'param:x' | 'state:r' | 'fresh' | 'call'
        self.may_be = may_be      # for 'call': the object id of the argument it may be identical to


class Env:
    def __init__(self, shared):
        self.vars = {}            # python key -> Val
        self.heap = {}            # object id -> Obj
        self.psome = None         # None: unknown, True: inside `self.P is not None`, False: inside `is None`
        self.path = []            # integer-only path conditions (Lean Bool terms over `s.iter`, `max_iter`)
        self.lines = None
        self.frames = []          # inlined helper calls being executed: (name, caller's locals, on_return)
        self.sh = shared          # counters / collected facts shared by all branches

    def copy(self):
        e = Env(self.sh)
        e.vars = dict(self.vars)
        e.heap = {k: Obj(o.term, o.origin, o.may_be) for k, o in self.heap.items()}
        e.psome, e.path, e.frames = self.psome, list(self.path), list(self.frames)
        return e

    def new_obj(self, term, origin, may_be=None):
        self.sh["nobj"] += 1
        self.heap[self.sh["nobj"]] = Obj(term, origin, may_be)
        return self.sh["nobj"]

    def fresh(self, base):
        base = re.sub(r"[^A-Za-z0-9]", "", base.replace("self.", "")) or "t"
        n = self.sh["names"].get(base, 0) + 1
        self.sh["names"][base] = n
        return "%s_%d" % (base, n)


class Exec:
    """symbolic execution of one method body"""

    def __init__(self, tree, method, leaf, world=None):
        self.tree = tree
        self.w = world or {}      # 'cls' / 'alg': the two ClassDefs, 'util': the ast of sigpy/util.py
        self.method = method
        self.leaf = leaf          # env -> Lean term of the result at a fall-through / return
        self.shared = {"nobj": 0, "names": {}, "inplace": [], "x_rebound": False, "leaves": 0, "bnodes": {}, "nh": 0}

    # ---------------- expressions ----------------
    def vec(self, env, v):
        return env.heap[v.obj].term

    def term(self, env, v):
        if v.typ == V:
            return self.vec(env, v)
        if v.typ == SQ:
            raise U("a square root used as a number (only `<sqrt> <= tol` is modelled)")
        if v.typ == CX:
            raise U("a vdot used without taking its real part")
        return v.term

    def ev(self, env, e):
        """expression -> Val (vectors: a fresh object unless the expression is a bare name)"""
        k = key(e)
        if k is not None:
            if k not in env.vars:
                raise U("%s reads %s, which is not part of the modelled state at this point" % (self.method, k))
            return env.vars[k]
        if isinstance(e, ast.Constant):
            if isinstance(e.value, bool):
                return Val(B, "true" if e.value else "false")
            if isinstance(e.value, int):
                return Val(I, lin=({}, e.value))
            raise U("constant %r" % (e.value,))
        if isinstance(e, ast.UnaryOp):
            a = self.ev(env, e.operand)
            if isinstance(e.op, ast.USub) and a.typ == S:
                return Val(S, "(o.neg %s)" % a.term)
            if isinstance(e.op, ast.USub) and a.typ == I:
                return Val(I, lin=lin_scale(a.lin, -1))
            if isinstance(e.op, ast.Not) and a.typ == B:
                return Val(B, bt=b_not(a.bt))
            raise U("unary %s on %s" % (type(e.op).__name__, a.typ))
        if isinstance(e, ast.BinOp):
            return self.binop(env, e)
        if isinstance(e, ast.Call):
            return self.call(env, e)
        if isinstance(e, ast.Compare):
            return self.compare(env, e)
        if isinstance(e, ast.BoolOp):
            vals = [self.ev(env, x) for x in e.values]
            if any(v.typ != B for v in vals):
                raise U("and/or of non-Boolean operands in %s" % ast.unparse(e))
            return Val(B, bt=b_join("or" if isinstance(e.op, ast.Or) else "and", [v.bt for v in vals]))
        if isinstance(e, ast.Attribute) and e.attr == "real":      # xp.vdot(u, v).real  ==  xp.real(xp.vdot(u, v))
            a = self.ev(env, e.value)
            if a.typ == CX:
                return Val(S, "(o.rdot %s %s)" % a.pair)
            raise U("`.real` of a %s" % a.typ)
        raise U("expression %s" % ast.unparse(e)[:80])

    def scaled(self, env, e):
        """`a * x` / `x * a` with a scalar and a vector -> (scalar term, vector term) or None"""
        if isinstance(e, ast.BinOp) and isinstance(e.op, ast.Mult):
            a, b = self.ev(env, e.left), self.ev(env, e.right)
            if a.typ == S and b.typ == V:
                return a.term, self.vec(env, b)
            if a.typ == V and b.typ == S:
                return b.term, self.vec(env, a)
        return None

    def binop(self, env, e):
        if isinstance(e.op, ast.Pow):
            a = self.ev(env, e.left)
            if a.typ == S and isinstance(e.right, ast.Constant) and isinstance(e.right.value, float) and e.right.value == 0.5:
                return Val(SQ, a.term)
            raise U("power %s" % ast.unparse(e))
        if isinstance(e.op, (ast.Add, ast.Sub)):
            # y + a * x  (axpy),  a * y + x  (xpay),  y - a * x  (axpy with -a)
            sr = self.scaled(env, e.right)
            if sr is not None:
                y = self.ev(env, e.left)
                if y.typ == V:
                    a = sr[0] if isinstance(e.op, ast.Add) else "(o.neg %s)" % sr[0]
                    return Val(V, obj=env.new_obj("(o.axpy %s %s %s)" % (self.vec(env, y), a, sr[1]), "fresh"))
            sl = self.scaled(env, e.left) if isinstance(e.op, ast.Add) else None
            if sl is not None:
                x = self.ev(env, e.right)
                if x.typ == V:
                    return Val(V, obj=env.new_obj("(o.xpay %s %s %s)" % (sl[1], sl[0], self.vec(env, x)), "fresh"))
        a, b = self.ev(env, e.left), self.ev(env, e.right)
        if isinstance(e.op, ast.Sub) and a.typ == V and b.typ == V:
            return Val(V, obj=env.new_obj("(o.sub %s %s)" % (self.vec(env, a), self.vec(env, b)), "fresh"))
        if isinstance(e.op, ast.Div) and a.typ == S and b.typ == S:
            return Val(S, "(o.div %s %s)" % (a.term, b.term))
        if a.typ == I and b.typ == I and isinstance(e.op, (ast.Add, ast.Sub, ast.Mult)):
            if isinstance(e.op, ast.Mult):
                return Val(I, lin=lin_mul(a.lin, b.lin))
            return Val(I, lin=lin_add(a.lin, b.lin, 1 if isinstance(e.op, ast.Add) else -1))
        raise U("operator %s on %s and %s in `%s` (not an operation of C12.Ops)" % (type(e.op).__name__, a.typ, b.typ, ast.unparse(e)))

    # ---------------- calls ----------------
    def helper(self, env, f):
        """the FunctionDef a call `self._name(...)` / `_name(...)` refers to when it is a private method of
        ConjugateGradient / Alg or a private module-level function of sigpy/alg.py -> (def, is_method) or None"""
        if isinstance(f, ast.Attribute) and isinstance(f.value, ast.Name) and f.value.id == "self":
            n = f.attr
            if not n.startswith("_") or n.startswith("__") or n in ("_update", "_done"):
                return None
            for c in (self.w.get("cls"), self.w.get("alg")):
                for m in (c.body if c is not None else []):
                    if isinstance(m, ast.FunctionDef) and m.name == n:
                        return m, True
            return None
        if isinstance(f, ast.Name) and f.id.startswith("_") and not f.id.startswith("__") and f.id not in env.vars:
            defs = [m for m in self.tree.body if isinstance(m, ast.FunctionDef) and m.name == f.id]
            bound = [n for m in self.tree.body if not isinstance(m, (ast.FunctionDef, ast.ClassDef)) for n in ast.walk(m)
                     if isinstance(n, ast.Name) and n.id == f.id and isinstance(n.ctx, ast.Store)]
            if len(defs) > 1 or (defs and bound):
                raise U("module-level name %s is bound more than once" % f.id)
            if defs:
                return defs[0], False
        return None

    def is_pure(self, fn, seen=()):
        """no store other than to a local name, no statement-level call, no in-place operator, only pure helpers"""
        if fn.name in seen:
            return False
        for n in ast.walk(fn):
            if isinstance(n, (ast.AugAssign, ast.AnnAssign, ast.Delete, ast.Global, ast.Nonlocal, ast.NamedExpr,
                              ast.For, ast.While, ast.Try, ast.Raise, ast.FunctionDef, ast.Lambda)) and n is not fn:
                return False
            if isinstance(n, ast.Assign) and not all(isinstance(t, ast.Name) for t in n.targets):
                return False
            if isinstance(n, ast.Expr) and not (isinstance(n.value, ast.Constant) and isinstance(n.value.value, str)):
                return False
            if isinstance(n, ast.Call):
                h = self.helper(Env(self.shared), n.func)
                if h is not None and not self.is_pure(h[0], seen + (fn.name,)):
                    return False
        return True

    def is_simple(self, fn):
        """pure and without calls to the operators (may be evaluated speculatively: hoisted out of `or` / `and`)"""
        if not self.is_pure(fn):
            return False
        for n in ast.walk(fn):
            if isinstance(n, ast.Call):
                f = n.func
                if not (isinstance(f, ast.Attribute) and (f.attr in ("item", "copy") or ast.unparse(f.value) == "xp")):
                    return False
        return True

    def resolve(self, call, fn, is_method, what):
        """argument expressions of `call` in the order of the callee's parameters (positional and keyword
        arguments resolved against the signature of `fn`); fail-closed on anything irregular"""
        a = fn.args
        if a.vararg or a.kwarg or a.kwonlyargs or fn.decorator_list:
            raise U("%s: signature of %s" % (what, fn.name))
        params = [x.arg for x in a.posonlyargs + a.args]
        if is_method:
            if params[:1] != ["self"]:
                raise U("%s: %s is not an ordinary method" % (what, fn.name))
            params = params[1:]
        if len(set(params)) != len(params) or any(isinstance(x, ast.Starred) for x in call.args) or len(call.args) > len(params):
            raise U("%s: arguments of %s" % (what, ast.unparse(call)[:60]))
        got = dict(zip(params, call.args))
        order = list(params[:len(call.args)])
        ponly = set(x.arg for x in a.posonlyargs)
        for kw in call.keywords:
            if kw.arg is None or kw.arg not in params or kw.arg in got or kw.arg in ponly:
                raise U("%s: keyword argument %s of %s" % (what, kw.arg, ast.unparse(call)[:60]))
            got[kw.arg] = kw.value
            order.append(kw.arg)
        ndef = len(a.defaults)
        for i, pn in enumerate(params):
            if pn not in got:
                j = i - (len(params) - ndef)
                if j < 0 or not isinstance(a.defaults[j], ast.Constant) or not isinstance(a.defaults[j].value, (bool, int)):
                    raise U("%s: parameter %s of %s is not supplied" % (what, pn, fn.name))
                got[pn] = a.defaults[j]
        if order != params[:len(order)]:
            # Python evaluates the arguments in source order: harmless only if no operator / helper is applied in them
            for pn in order:
                if any(isinstance(n, ast.Call) and not (isinstance(n.func, ast.Attribute) and (
                        n.func.attr in ("item", "copy", "real", "vdot"))) for n in ast.walk(got[pn])):
                    raise U("%s: keyword arguments of %s are evaluated in a different order" % (what, ast.unparse(call)[:60]))
        return params, [got[pn] for pn in params]

    def inline_call(self, call, h, env, on_return, what):
        """the body of the private helper with its parameters bound to the arguments, followed by
        `on_return(env, value-or-None)`; recursion is outside the subset"""
        fn, is_method = h
        if any(fr[0] == fn.name for fr in env.frames) or len(env.frames) >= 6:
            raise U("%s: recursive helper %s" % (what, fn.name))
        params, exprs = self.resolve(call, fn, is_method, what)
        vals = [self.ev(env, x) for x in exprs]
        saved = {kk: v for kk, v in env.vars.items() if not kk.startswith("self.") and not kk.startswith("$")}
        for kk in saved:
            del env.vars[kk]
        for pn, v in zip(params, vals):
            env.vars[pn] = v
        env.frames.append((fn.name, saved, on_return))
        return self.block(list(fn.body), env, lambda e: self.leave(e, None))

    def leave(self, env, v):
        name, saved, on_return = env.frames.pop()
        for kk in [kk for kk in env.vars if not kk.startswith("self.") and not kk.startswith("$")]:
            del env.vars[kk]
        env.vars.update(saved)
        return on_return(env, v)

    def call(self, env, e):
        f = e.func
        if self.helper(env, f) is not None:
            raise U("helper call %s in a position it cannot be inlined from" % ast.unparse(e)[:60])
        if e.keywords:
            raise U("keyword arguments in %s" % ast.unparse(e))
        # x.copy(): a fresh object with the same contents;  s.item(): the scalar itself
        if isinstance(f, ast.Attribute) and f.attr in ("copy", "item") and not e.args and key(f) is None:
            a = self.ev(env, f.value)
            if f.attr == "copy" and a.typ == V:
                return Val(V, obj=env.new_obj(self.vec(env, a), "fresh"))
            if f.attr == "item" and a.typ == S:
                return a
            raise U("%s of a %s" % (f.attr, a.typ))
        # xp.vdot(a, b) is a complex scalar of which only the real part may be used: xp.real(·) / ·.real
        if isinstance(f, ast.Attribute) and isinstance(f.value, ast.Name) and f.value.id == "xp":
            if f.attr == "vdot" and len(e.args) == 2:
                a, b = self.ev(env, e.args[0]), self.ev(env, e.args[1])
                if a.typ == V and b.typ == V:
                    return Val(CX, pair=(self.vec(env, a), self.vec(env, b)))
            if f.attr == "real" and len(e.args) == 1:
                a = self.ev(env, e.args[0])
                if a.typ == CX:
                    return Val(S, "(o.rdot %s %s)" % a.pair)
            raise U("`%s` (only xp.real(xp.vdot(u, v)) is an operation of C12.Ops)" % ast.unparse(e)[:60])
        k = key(f)
        if k in env.vars and len(e.args) == 1:
            fn = env.vars[k]
            a = self.ev(env, e.args[0])
            if a.typ != V:
                raise U("argument of %s is a %s" % (k, a.typ))
            if fn.typ == F:
                return Val(V, obj=env.new_obj("(%s %s)" % (fn.term, self.vec(env, a)), "call", may_be=a.obj))
            if fn.typ == OF:
                if env.psome is not True:
                    raise U("%s is called where it may be None" % k)
                return Val(V, obj=env.new_obj("(P_f %s)" % self.vec(env, a), "call", may_be=a.obj))
        raise U("call %s" % ast.unparse(e)[:60])

    def compare(self, env, e):
        if len(e.ops) != 1:
            raise U("chained comparison")
        op, l, r = e.ops[0], e.left, e.comparators[0]
        a, b = self.ev(env, l), self.ev(env, r)
        if a.typ == I and b.typ == I:
            if isinstance(op, (ast.Lt, ast.LtE)):
                return Val(B, bt=cmp_node("<" if isinstance(op, ast.Lt) else "≤", lin_add(b.lin, a.lin, -1)))
            if isinstance(op, (ast.Gt, ast.GtE)):
                return Val(B, bt=cmp_node("<" if isinstance(op, ast.Gt) else "≤", lin_add(a.lin, b.lin, -1)))
            if isinstance(op, (ast.Eq, ast.NotEq)):
                return Val(B, bt=cmp_node("=" if isinstance(op, ast.Eq) else "≠", lin_add(b.lin, a.lin, -1)))
            raise U("comparison %s" % ast.unparse(e))
        if isinstance(op, ast.GtE):        # `0 >= s`, `tol >= sqrt`: the same comparison read from the right
            op, l, r, a, b = ast.LtE(), r, l, b, a
        zero = isinstance(r, ast.Constant) and r.value == 0 and not isinstance(r.value, bool)
        if isinstance(op, ast.LtE) and a.typ == S and zero:
            return Val(B, "(o.nonpos %s)" % a.term)
        if isinstance(op, ast.LtE) and a.typ == SQ and b.typ == S:
            return Val(B, "(o.sqrtLe %s %s)" % (a.term, b.term))
        raise U("comparison `%s` (Ops has `s <= 0` and `s ** 0.5 <= tol` only)" % ast.unparse(e))

    # ---------------- statements ----------------
    def bind(self, env, k, v, hint=None):
        """name the value with a `let` (unless it is already a name) and bind the python key to it"""
        if v.typ == V:
            o = env.heap[v.obj]
            if not re.fullmatch(r"[A-Za-z_][A-Za-z0-9_.]*", o.term):
                nm = env.fresh(hint or k)
                env.lines.append("let %s := %s" % (nm, o.term[1:-1] if o.term.startswith("(") else o.term))
                o.term = nm
        elif v.typ in (I, B, CX) and not k.startswith("self."):
            pass                  # a local integer / Boolean / vdot temporary is inlined (it keeps its normal form)
        elif v.typ == CX:
            raise U("%s stores a vdot of which the real part has not been taken" % k)
        elif v.typ in (S, SQ, I, B) and not re.fullmatch(r"[A-Za-z_][A-Za-z0-9_.]*|\d+", v.term):
            nm = env.fresh(hint or k)
            t = v.term
            env.lines.append("let %s := %s" % (nm, t[1:-1] if t.startswith("(") and _balanced(t[1:-1]) else t))
            v = Val(v.typ, nm)
        if k in CONSTS and not self.method.endswith("__init__"):
            raise U("%s assigns %s" % (self.method, k))
        if k == "self.x":
            self.shared["x_rebound"] = self.shared["x_rebound"] or not (
                v.typ == V and env.heap[v.obj].origin in ("param:x", "state:x"))
        env.vars[k] = v

    def inplace(self, env, tgt, new_term, src):
        """`tgt` (a vector name) is updated in place: every name bound to the object sees the new contents"""
        v = self.ev(env, tgt)
        if v.typ != V:
            raise U("in-place update of a %s in `%s`" % (v.typ, src))
        o = env.heap[v.obj]
        if o.origin == "call":
            raise U("`%s` updates in place the result of a call, which may be the call's argument itself" % src)
        if o.origin in ("state:r", "state:p"):
            self.shared["inplace"].append(list(env.path))
        nm = env.fresh(key(tgt) or "t")
        env.lines.append("let %s := %s" % (nm, new_term))
        o.term = nm

    def block(self, stmts, env, k):
        """Lean term for `stmts` followed by continuation k (env -> term)"""
        lines = env.lines = []
        for i, st in enumerate(stmts):
            rest = stmts[i + 1:]
            src = getattr(st, "_src", None) or ast.unparse(st).split("\n")[0]
            n0 = len(lines)
            pre, st2 = self.hoist(env, st)
            if pre or st2 is not st:
                return self._tail(lines, self.block(pre + [st2] + rest, env, k))
            if isinstance(st, ast.Expr) and isinstance(st.value, ast.Constant) and isinstance(st.value.value, str):
                continue
            if isinstance(st, ast.Pass):
                continue
            if isinstance(st, ast.With):
                if len(st.items) != 1 or ast.unparse(st.items[0]) != "self.device":
                    raise U("with %s" % ast.unparse(st.items[0]))
                return self._tail(lines, self.block(st.body, env, lambda e: self.block(rest, e, k)))
            if isinstance(st, ast.Return):
                if rest:
                    raise U("dead code after return in %s" % self.method)
                return self._tail(lines, self.ret(env, st))
            if isinstance(st, ast.If):
                return self._tail(lines, self.branch(st, rest, env, k))
            if isinstance(st, ast.Assign):
                if len(st.targets) != 1:
                    raise U("multiple assignment")
                tk = key(st.targets[0])
                if tk is None:
                    raise U("assignment to %s" % ast.unparse(st.targets[0]))
                if (tk, ast.unparse(st.value)) in (("xp", "self.device.xp"), ("self.device", "backend.get_device(x)")):
                    continue
                if tk in ("xp", "self.device", "o", "s", "P_f"):
                    raise U("assignment %s" % src)
                h = self.helper(env, st.value.func) if isinstance(st.value, ast.Call) else None
                if h is not None:
                    def assigned(e, v, tgt=st.targets[0], src=src):
                        if v is None:
                            raise U("`%s` uses the value of a helper that returns none" % src)
                        e.vars["$ret"] = v
                        a2 = ast.fix_missing_locations(ast.Assign(targets=[tgt], value=ast.Name(id="$ret", ctx=ast.Load())))
                        a2._src = src
                        return self.block([a2] + rest, e, k)
                    return self._tail(lines, self.inline_call(st.value, h, env, assigned, src))
                self.bind(env, tk, self.ev(env, st.value))
                env.vars.pop("$ret", None)
            elif isinstance(st, ast.AugAssign):
                tk = key(st.target)
                cur = self.ev(env, st.target)
                if cur.typ == I and isinstance(st.op, (ast.Add, ast.Sub)):
                    d = self.ev(env, st.value)
                    if d.typ != I:
                        raise U(src)
                    self.bind(env, tk, Val(I, lin=lin_add(cur.lin, d.lin, 1 if isinstance(st.op, ast.Add) else -1)))
                elif cur.typ == V and isinstance(st.op, (ast.Add, ast.Sub)):
                    sc = self.scaled(env, st.value)
                    if sc is None:
                        raise U("`%s` (only y += a * x / y -= a * x are operations of C12.Ops)" % src)
                    a = sc[0] if isinstance(st.op, ast.Add) else "(o.neg %s)" % sc[0]
                    self.inplace(env, st.target, "o.axpy %s %s %s" % (self.vec(env, cur), a, sc[1]), src)
                else:
                    raise U("augmented assignment `%s`" % src)
            elif isinstance(st, ast.Expr) and isinstance(st.value, ast.Call):
                c = st.value
                cs = ast.unparse(c.func)
                h = self.helper(env, c.func)
                if h is not None:
                    return self._tail(lines, self.inline_call(c, h, env, lambda e, v: self.block(rest, e, k), src))
                if cs in ("util.axpy", "util.xpay"):
                    params, ex = self.resolve(c, T.find_function(self.w["util"], cs[5:]), False, src)
                    if params != ["y", "a", "x"]:
                        raise U("signature of %s: %s" % (cs, params))
                    y, a, x = self.ev(env, ex[0]), self.ev(env, ex[1]), self.ev(env, ex[2])
                    if (y.typ, a.typ, x.typ) != (V, S, V):
                        raise U("argument types of `%s`" % src)
                    self.inplace(env, ex[0], "o.%s %s %s %s" % (cs[5:], self.vec(env, y), a.term, self.vec(env, x)), src)
                elif cs == "super().__init__" and self.method.endswith("__init__") and not env.frames:
                    def back(e, v):
                        if v is not None:
                            raise U("Alg.__init__ returns a value")
                        return self.block(rest, e, k)
                    return self._tail(lines, self.inline_call(c, (T.find_function(self.tree, "Alg.__init__"), True), env, back, src))
                elif cs == "self._update" and not c.args and not c.keywords and self.method == "Alg.update":
                    nm = env.fresh("s")
                    lines.append("let %s := update_ o A P max_iter %s" % (nm, state_record(self, env, inline=True)))
                    load_state(env, nm)
                else:
                    raise U("statement `%s`" % src)
            else:
                raise U("statement kind %s (`%s`)" % (type(st).__name__, src))
            if len(lines) > n0:
                lines[n0] += " " * max(1, 58 - len(lines[n0])) + "-- " + src
            else:
                lines.append("-- " + src)
        return self._tail(lines, k(env))

    @staticmethod
    def _tail(lines, tail):
        return "\n".join(lines + [tail])

    def ret(self, env, st):
        if env.frames:            # return from an inlined helper
            none = st.value is None or (isinstance(st.value, ast.Constant) and st.value.value is None)
            return self.leave(env, None if none else self.ev(env, st.value))
        if self.method.endswith("_done"):
            if st.value is None:
                raise U("_done returns nothing")
            v = self.ev(env, st.value)
            if v.typ != B:
                raise U("_done returns a %s" % v.typ)
            self.shared["leaves"] += 1
            self.shared["bnodes"][v.term] = v.bt
            return v.term
        if st.value is not None:
            raise U("%s returns a value" % self.method)
        return self.leaf(self, env)

    def branch(self, st, rest, env, k):
        src = "-- if %s:" % ast.unparse(st.test)
        t, body, orelse = st.test, st.body, st.orelse
        while isinstance(t, ast.UnaryOp) and isinstance(t.op, ast.Not):      # `if not c: A else: B` is `if c: B else: A`
            t, body, orelse = t.operand, orelse, body
        # `self.P is None` / `self.P is not None`
        if isinstance(t, ast.Compare) and len(t.ops) == 1 and isinstance(t.ops[0], (ast.Is, ast.IsNot)) \
                and key(t.left) is not None and isinstance(t.comparators[0], ast.Constant) and t.comparators[0].value is None:
            pv = self.ev(env, t.left)
            if pv.typ != OF:
                raise U("`%s` on a %s" % (ast.unparse(t), pv.typ))
            none_body, some_body = (body, orelse) if isinstance(t.ops[0], ast.Is) else (orelse, body)
            if env.psome is not None:  # already known on this path
                return self.block(some_body if env.psome else none_body, env, lambda e: self.block(rest, e, k))
            en, es = env.copy(), env.copy()
            en.psome, es.psome = False, True
            tn = self.block(none_body, en, lambda e: self.block(rest, e, k))
            ts = self.block(some_body, es, lambda e: self.block(rest, e, k))
            return "match %s with %s\n| none =>\n%s\n| some P_f =>\n%s" % (pv.term, src, _indent(tn), _indent(ts))
        c = self.ev(env, t)
        if c.typ != B:
            raise U("condition `%s` is a %s" % (ast.unparse(t), c.typ))
        node = c.bt
        if node[0] == "not" or (node[0] == "cmp" and node[1] in ("≤", "≠")):      # canonical polarity: swap the branches
            node, body, orelse = b_not(node), orelse, body
        et, ee = env.copy(), env.copy()
        if b_int_only(node):                                                  # the counter and the budget only
            et.path.append(render_b(node))
            ee.path.append(render_b(b_not(node)))
        tt = self.block(body, et, lambda e: self.block(rest, e, k))
        te = self.block(orelse, ee, lambda e: self.block(rest, e, k))
        # `_done`: an if / elif / else chain of Boolean returns is the corresponding `or` / `and` chain
        bn = self.shared["bnodes"]
        nt, ne = bn.get(_code(tt)), bn.get(_code(te))
        if nt is not None and ne is not None and not env.frames:
            if nt[0] == "const":
                comb = b_join("or", [node, ne]) if nt[1] else b_join("and", [b_not(node), ne])
            elif ne[0] == "const":
                comb = b_join("or", [b_not(node), nt]) if ne[1] else b_join("and", [node, nt])
            else:
                comb = None
            if comb is not None:
                bn[render_b(comb)] = comb
                return render_b(comb)
        cond = render_cmp(node) if node[0] == "cmp" else render_b(node)
        if cond.startswith("(") and _balanced(cond[1:-1]):
            cond = cond[1:-1]
        return "if %s then %s\n%s\nelse\n%s" % (cond, src, _indent(tt), _indent(te))

    # ---------------- normalising pre-pass on one statement ----------------
    def hoist(self, env, st):
        """(1) `t = a if c else b` is `if c: t = a else: t = b`;  (2) a call to a private helper nested in an
        expression is computed into a temporary first (`$hn = helper(...)`), which is only allowed when the helper is
        pure (and, where Python would evaluate it conditionally - `or` / `and` / conditional expression - free of operator
        applications).  A helper call that IS the right-hand side / the statement is left for `block` to inline."""
        if isinstance(st, ast.Assign) and isinstance(st.value, ast.IfExp):
            v = st.value
            new = ast.If(test=v.test, body=[ast.Assign(targets=st.targets, value=v.body)],
                         orelse=[ast.Assign(targets=st.targets, value=v.orelse)])
            return [], ast.fix_missing_locations(new)
        if isinstance(st, ast.Return) and isinstance(st.value, ast.IfExp):
            v = st.value
            new = ast.If(test=v.test, body=[ast.Return(value=v.body)], orelse=[ast.Return(value=v.orelse)])
            return [], ast.fix_missing_locations(new)
        if isinstance(st, ast.Assign):
            slot = "value"
        elif isinstance(st, ast.AugAssign):
            slot = "value"
        elif isinstance(st, ast.Expr):
            slot = "value"
        elif isinstance(st, ast.Return) and st.value is not None:
            slot = "value"
        elif isinstance(st, ast.If):
            slot = "test"
        else:
            return [], st
        root = getattr(st, slot)
        if not any(isinstance(n, ast.Call) and self.helper(env, n.func) is not None for n in ast.walk(root)):
            return [], st
        pre = []

        def visit(e, cond, top=False):
            if isinstance(e, ast.BoolOp):
                return ast.BoolOp(op=e.op, values=[visit(x, cond or i > 0) for i, x in enumerate(e.values)])
            if isinstance(e, ast.IfExp):
                return ast.IfExp(test=visit(e.test, cond), body=visit(e.body, True), orelse=visit(e.orelse, True))
            if isinstance(e, (ast.Lambda, ast.ListComp, ast.SetComp, ast.DictComp, ast.GeneratorExp)):
                return e
            if isinstance(e, ast.Call):
                h = self.helper(env, e.func)
                new = ast.Call(func=e.func if h is not None else visit(e.func, cond),
                               args=[visit(x, cond) for x in e.args],
                               keywords=[ast.keyword(arg=kw.arg, value=visit(kw.value, cond)) for kw in e.keywords])
                if h is None or top:
                    return new
                if not self.is_pure(h[0]):
                    raise U("helper %s changes the state and is called inside the expression `%s`" % (h[0].name, ast.unparse(root)[:60]))
                if cond and not self.is_simple(h[0]):
                    raise U("helper %s is called conditionally inside `%s`" % (h[0].name, ast.unparse(root)[:60]))
                self.shared["nh"] += 1
                nm = "$h%d" % self.shared["nh"]
                a2 = ast.Assign(targets=[ast.Name(id=nm, ctx=ast.Store())], value=new)
                pre.append(a2)
                return ast.Name(id=nm, ctx=ast.Load())
            if isinstance(e, ast.AST):
                kw = {}
                for f, v in ast.iter_fields(e):
                    if isinstance(v, list):
                        kw[f] = [visit(x, cond) if isinstance(x, ast.expr) else x for x in v]
                    elif isinstance(v, ast.expr):
                        kw[f] = visit(v, cond)
                    else:
                        kw[f] = v
                return type(e)(**kw)
            return e

        top = isinstance(st, (ast.Assign, ast.Expr))      # the call is the whole right-hand side / the statement
        new_root = visit(root, False, top=top)
        if not pre:
            return [], st
        kw = dict(ast.iter_fields(st))
        kw[slot] = new_root
        st2 = ast.fix_missing_locations(type(st)(**kw))
        st2._src = ast.unparse(st).split("\n")[0]
        return [ast.fix_missing_locations(x) for x in pre], st2


def _code(t):
    return "\n".join(ln for ln in t.split("\n") if not ln.strip().startswith("--")).strip()


def _balanced(s):
    d = 0
    for ch in s:
        d += ch == "("
        d -= ch == ")"
        if d < 0:
            return False
    return d == 0


def _indent(s):
    return "\n".join("  " + ln for ln in s.split("\n"))


def load_state(env, s):
    """bind the attributes of the object to the fields of the State `s`"""
    env.heap = {k: o for k, o in env.heap.items()}
    for f in ("x", "r", "p"):
        env.vars["self." + f] = Val(V, obj=env.new_obj("%s.%s" % (s, f), "state:" + f))
    env.vars["self.rzold"] = Val(S, "%s.rzold" % s)
    env.vars["self.resid"] = Val(SQ, "%s.resid2" % s)
    env.vars["self.not_positive_definite"] = Val(B, "%s.npd" % s)
    env.vars["self.iter"] = Val(I, "%s.iter" % s)
    env.vars["$alias"] = Val(B, "%s.alias" % s)


def alias_term(env):
    """is `self.p` (or may it be) the array `self.r`"""
    p, r = env.vars["self.p"], env.vars["self.r"]
    if p.typ != V or r.typ != V:
        raise U("self.p / self.r are not arrays")
    op = env.heap[p.obj]
    if op.origin == "state:p":
        return env.vars["$alias"].term
    if p.obj == r.obj or (op.origin == "call" and op.may_be == r.obj):
        return "true"
    if op.origin == "fresh":
        return "false"
    raise U("cannot tell whether self.p shares its array (%s)" % op.origin)


def state_record(ex, env, inline=False):
    need = {"self.x": V, "self.r": V, "self.p": V, "self.rzold": S, "self.resid": SQ,
            "self.not_positive_definite": B, "self.iter": I}
    for k, t in need.items():
        if k not in env.vars:
            raise U("%s: attribute %s is not set" % (ex.method, k))
        if env.vars[k].typ != t:
            raise U("%s: attribute %s is a %s, modelled as %s" % (ex.method, k, env.vars[k].typ, t))
    for k, (nm, t) in CONSTS.items():
        if k in env.vars and (env.vars[k].typ != t or (env.heap[env.vars[k].obj].term if t == V else env.vars[k].term) != nm):
            raise U("%s: %s is not the constructor argument %s" % (ex.method, k, nm))
    vals = [env.heap[env.vars["self." + f].obj].term for f in ("x", "r", "p")] + [
        env.vars["self.rzold"].term, env.vars["self.resid"].term, env.vars["self.not_positive_definite"].term,
        env.vars["self.iter"].term, alias_term(env)]
    xo = env.heap[env.vars["self.x"].obj].origin
    if xo not in ("param:x", "state:x"):
        ex.shared["x_rebound"] = True
    ex.shared["leaves"] += 1
    if inline and all(v == "s." + f for f, v in zip(STATE_FIELDS, vals)):
        return "s"
    fields = ", ".join("%s := %s" % (f, v) for f, v in zip(STATE_FIELDS, vals))
    return "{ %s }" % fields


def census(cls, alg):
    if [ast.unparse(b) for b in cls.bases] != ["Alg"]:
        raise U("base classes %s" % [ast.unparse(b) for b in cls.bases])
    got = [n.name for n in cls.body if isinstance(n, ast.FunctionDef)]
    inherited = [n.name for n in alg.body if isinstance(n, ast.FunctionDef)]
    # exactly the three entry points; any further method must be a PRIVATE helper (translated where it is called,
    # dead otherwise) that overrides nothing of Alg
    extra = [n for n in got if n not in ("__init__", "_update", "_done")]
    if sorted(n for n in got if n not in extra) != ["__init__", "_done", "_update"] or len(set(got)) != len(got) or any(
            not n.startswith("_") or n.startswith("__") or n in inherited for n in extra):
        raise U("methods %s (update/done must be Alg's; helpers must be private)" % got)
    for c in (cls, alg):
        for n in c.body:
            if not isinstance(n, ast.FunctionDef) and not (isinstance(n, ast.Expr) and isinstance(n.value, ast.Constant)):
                raise U("class-level statement %s" % ast.unparse(n)[:60])
    for n in cls.body:
        if isinstance(n, ast.FunctionDef) and n.decorator_list:
            raise U("decorated method %s" % n.name)
    need = {"__init__", "_update", "_done", "update", "done"}
    if not need <= set(inherited) or len(set(inherited)) != len(inherited) or any(
            not n.startswith("_") or n.startswith("__") for n in inherited if n not in need):
        raise U("methods of Alg %s" % inherited)


def gen_c12(ctx=None):
    tree = G._parse("sigpy/alg.py")
    cls = T.find_function(tree, "ConjugateGradient")
    if not isinstance(cls, ast.ClassDef):
        raise U("not a class")
    alg = T.find_function(tree, "Alg")
    if not isinstance(alg, ast.ClassDef):
        raise U("Alg is not a class")
    census(cls, alg)
    world = {"cls": cls, "alg": alg, "util": G._parse("sigpy/util.py")}
    out = ["/- GENERATED by harness/translate/gen_c12.py from sigpy/alg.py (ConjugateGradient.__init__/_update/_done, "
           "Alg.__init__/update) — do not edit; regenerated on every check. -/\n"
           "import SigpyVerif.Model.C12Base\nset_option linter.unusedVariables false\n"
           "namespace SigpyVerif.Gen.C12\nopen SigpyVerif SigpyVerif.C12\n\nvariable {V S : Type}\n"]

    # ---------------- __init__ ----------------
    fn = T.find_function(cls, "__init__")
    a = fn.args
    if [x.arg for x in a.args] != ["self", "A", "b", "x", "P", "max_iter", "tol"] or a.vararg or a.kwarg or a.kwonlyargs:
        raise U("__init__ signature %s" % [x.arg for x in a.args])
    ex = Exec(tree, "ConjugateGradient.__init__", lambda ex, env: state_record(ex, env), world)
    env = Env(ex.shared)
    env.vars.update({"A": Val(F, "A"), "P": Val(OF, "P"), "max_iter": Val(I, "max_iter"), "tol": Val(S, "tol"),
                     "b": Val(V, obj=env.new_obj("b", "param:b")), "x": Val(V, obj=env.new_obj("x", "param:x"))})
    body = ex.block(list(fn.body), env, lambda e: state_record(ex, e))
    out.append("/-- generated from `ConjugateGradient.__init__` (with `Alg.__init__` through `super().__init__`) -/\n"
               "def init (o : Ops V S) (A : V → V) (P : Option (V → V)) (b x : V) (max_iter : Int) : State V S :=\n%s\n" % _indent(body))
    out.append("/-- `self.x` is the array the caller passed to `__init__` -/\ndef initXIsCaller : Bool := %s\n"
               % ("false" if ex.shared["x_rebound"] else "true"))

    # ---------------- _update ----------------
    fn = T.find_function(cls, "_update")
    if [x.arg for x in fn.args.args] != ["self"]:
        raise U("_update signature")
    ex = Exec(tree, "ConjugateGradient._update", lambda ex, env: state_record(ex, env), world)
    env = Env(ex.shared)
    for k, (nm, t) in CONSTS.items():
        if t != V:
            env.vars[k] = Val(t, nm)
    load_state(env, "s")
    body = ex.block(list(fn.body), env, lambda e: state_record(ex, e))
    out.append("/-- generated from `ConjugateGradient._update` -/\n"
               "def update_ (o : Ops V S) (A : V → V) (P : Option (V → V)) (max_iter : Int) (s : State V S) : State V S :=\n%s\n" % _indent(body))
    sites = ex.shared["inplace"]
    disj = []
    for p in sites:
        d = "(" + " && ".join(p) + ")" if p else "true"
        if d not in disj:
            disj.append(d)
    guard = " || ".join(disj) if disj else "false"
    guard = guard.replace("s.iter", "iter")
    out.append("/-- (integer part of) the path condition under which `_update` updates `self.r` or `self.p` IN PLACE\n"
               "    (%d such statements) -/\ndef updInplaceGuard (max_iter : Int) (iter : Int) : Bool := %s\n" % (len(sites), guard))
    out.append("/-- `_update` never rebinds `self.x` (it is updated in place: the caller's array holds the iterate) -/\n"
               "def updXIsCaller : Bool := %s\n" % ("false" if ex.shared["x_rebound"] else "true"))

    # ---------------- Alg.update ----------------
    fn = T.find_function(tree, "Alg.update")
    if [x.arg for x in fn.args.args] != ["self"]:
        raise U("Alg.update signature")
    ex = Exec(tree, "Alg.update", lambda ex, env: state_record(ex, env), world)
    env = Env(ex.shared)
    for k, (nm, t) in CONSTS.items():
        if t != V:
            env.vars[k] = Val(t, nm)
    load_state(env, "s")
    body = ex.block(list(fn.body), env, lambda e: state_record(ex, e))
    out.append("/-- generated from `Alg.update` -/\n"
               "def update (o : Ops V S) (A : V → V) (P : Option (V → V)) (max_iter : Int) (s : State V S) : State V S :=\n%s\n" % _indent(body))

    # ---------------- _done / Alg.done ----------------
    fn = T.find_function(tree, "Alg.done")
    stm = [n for n in fn.body if not (isinstance(n, ast.Expr) and isinstance(n.value, ast.Constant))]
    if [ast.unparse(n) for n in stm] != ["return self._done()"]:
        raise U("Alg.done is not `return self._done()`")
    fn = T.find_function(cls, "_done")
    if [x.arg for x in fn.args.args] != ["self"]:
        raise U("_done signature")
    ex = Exec(tree, "ConjugateGradient._done", None, world)
    env = Env(ex.shared)
    for k, (nm, t) in CONSTS.items():
        if t != V:
            env.vars[k] = Val(t, nm)
    load_state(env, "s")

    def no_fall(e):
        raise U("_done can end without a return")
    body = ex.block(list(fn.body), env, no_fall)
    out.append("/-- generated from `ConjugateGradient._done` -/\n"
               "def done (o : Ops V S) (max_iter : Int) (tol : S) (s : State V S) : Bool :=\n%s\n" % _indent(body))
    out.append("end SigpyVerif.Gen.C12\n")
    return "\n".join(out)


GENERATORS = {"C12": gen_c12}
