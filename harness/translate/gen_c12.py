"""Translator plugin for C12: `sigpy.alg.ConjugateGradient` (`__init__`, `_update`, `_done`, together with
`Alg.__init__` reached through `super().__init__(max_iter)` and `Alg.update`) as Lean definitions
`Gen.C12.init / update_ / update / done`, generic over the operation record `C12.Ops V S` of
Model/C12Base.lean (the record the driver instantiates with exact Gaussian rationals and Props/C12.lean
with a Mathlib inner-product space).

This is a small symbolic executor, not a pattern table: the statements of each body are walked IN SOURCE
ORDER; every assignment becomes one Lean `let` whose right-hand side is the translated Python
expression over the values current at that point, every `if` becomes a Lean `if` / `match` whose
branches contain the translation of the branch body followed by the rest of the function (so an early
`return` is just a leaf), and every leaf is the record of the object's attributes at that point.
Consequences:
  * the signatures of the generated definitions are FIXED (`o A P b x max_iter`, `o A P max_iter s`,
    `o max_iter tol s`); a changed operand, a moved statement (a stale `rzold`), a changed guard or a changed
    disjunct changes the BODY the Lean kernel re-checks the theorems against;
  * splitting a statement in two, introducing a temporary, writing `util.axpy(y, a, x)` as `y += a * x`
    or `util.axpy(r, -a, Ap)` as `r -= a * Ap` give a definitionally equal body;
  * arrays are tracked as OBJECTS (a name bound without `.copy()` shares the object; `util.axpy`,
    `util.xpay`, `+=`, `-=` update the object, so every name bound to it sees the new value).  The result of
    `self.A(·)` / `self.P(·)` may be its argument (an identity preconditioner returns its input): such an
    object must not be updated in place (outside the subset), and `State.alias` records that `self.p`
    is-or-may-be the array `self.r`.  `updInplaceGuard` is the (integer part of the) path condition under which
    `_update` updates `self.r` / `self.p` in place; Props proves it false whenever `alias` holds.
  * `initXIsCaller` / `updXIsCaller`: `self.x` is the caller's array and is never rebound.
Everything else (an unknown statement kind, call, operator, attribute, comparison such as `pAp < 0`, a
`vdot` without `real`, reading an attribute that is not part of the modelled state, dead code after
`return`, a changed method set or base class) raises `Unsupported` = a broken `translate:` obligation.
"""
import ast
import re

from harness.translate import py2lean as T
from harness.translate import gen as G

V, S, I, B, F, OF, SQ = "V", "S", "Int", "Bool", "V → V", "Option (V → V)", "sqrt S"
STATE_FIELDS = ["x", "r", "p", "rzold", "resid2", "npd", "iter", "alias"]
CONSTS = {"self.A": ("A", F), "self.P": ("P", OF), "self.max_iter": ("max_iter", I), "self.tol": ("tol", S),
          "self.b": ("b", V)}


def U(msg):
    return T.Unsupported("ConjugateGradient: " + msg)


def key(e):
    if isinstance(e, ast.Name):
        return e.id
    if isinstance(e, ast.Attribute) and isinstance(e.value, ast.Name) and e.value.id == "self":
        return "self." + e.attr
    return None


class Val:
    """a value: Lean term + type; vectors live in the heap (obj = object id)"""

    def __init__(self, typ, term=None, obj=None):
        self.typ, self.term, self.obj = typ, term, obj


class Obj:
    def __init__(self, term, origin, may_be=None):
        self.term = term          # current contents (Lean term, an SSA name or a parameter)
        self.origin = origin      # 'param:x' | 'state:r' | 'fresh' | 'call'
        self.may_be = may_be      # for 'call': the object id of the argument it may be identical to


class Env:
    def __init__(self, shared):
        self.vars = {}            # python key -> Val
        self.heap = {}            # object id -> Obj
        self.psome = None         # None: unknown, True: inside `self.P is not None`, False: inside `is None`
        self.path = []            # integer-only path conditions (Lean Bool terms over `s.iter`, `max_iter`)
        self.lines = None
        self.sh = shared          # counters / collected facts shared by all branches

    def copy(self):
        e = Env(self.sh)
        e.vars = dict(self.vars)
        e.heap = {k: Obj(o.term, o.origin, o.may_be) for k, o in self.heap.items()}
        e.psome, e.path = self.psome, list(self.path)
        return e

    def new_obj(self, term, origin, may_be=None):
        self.sh["nobj"] += 1
        self.heap[self.sh["nobj"]] = Obj(term, origin, may_be)
        return self.sh["nobj"]

    def fresh(self, base):
        base = re.sub(r"[^A-Za-z0-9]", "", base.replace("self.", "")) or "t"
        n = self.sh["names"].get(base, 0) + 1
        self.sh["names"][base] = n
        return "%s_%d" % (base, n)


class Exec:
    """symbolic execution of one method body"""

    def __init__(self, tree, method, leaf):
        self.tree = tree
        self.method = method
        self.leaf = leaf          # env -> Lean term of the result at a fall-through / return
        self.shared = {"nobj": 0, "names": {}, "inplace": [], "x_rebound": False, "leaves": 0}

    # ---------------- expressions ----------------
    def vec(self, env, v):
        return env.heap[v.obj].term

    def term(self, env, v):
        if v.typ == V:
            return self.vec(env, v)
        if v.typ == SQ:
            raise U("a square root used as a number (only `<sqrt> <= tol` is modelled)")
        return v.term

    def ev(self, env, e):
        """expression -> Val (vectors: a fresh object unless the expression is a bare name)"""
        k = key(e)
        if k is not None:
            if k not in env.vars:
                raise U("%s reads %s, which is not part of the modelled state at this point" % (self.method, k))
            return env.vars[k]
        if isinstance(e, ast.Constant):
            if isinstance(e.value, bool):
                return Val(B, "true" if e.value else "false")
            if isinstance(e.value, int):
                return Val(I, "%d" % e.value if e.value >= 0 else "(%d)" % e.value)
            raise U("constant %r" % (e.value,))
        if isinstance(e, ast.UnaryOp):
            a = self.ev(env, e.operand)
            if isinstance(e.op, ast.USub) and a.typ == S:
                return Val(S, "(o.neg %s)" % a.term)
            if isinstance(e.op, ast.USub) and a.typ == I:
                return Val(I, "(-%s)" % a.term)
            if isinstance(e.op, ast.Not) and a.typ == B:
                return Val(B, "(!%s)" % a.term)
            raise U("unary %s on %s" % (type(e.op).__name__, a.typ))
        if isinstance(e, ast.BinOp):
            return self.binop(env, e)
        if isinstance(e, ast.Call):
            return self.call(env, e)
        if isinstance(e, ast.Compare):
            return self.compare(env, e)
        if isinstance(e, ast.BoolOp):
            vals = [self.ev(env, x) for x in e.values]
            if any(v.typ != B for v in vals):
                raise U("and/or of non-Boolean operands in %s" % ast.unparse(e))
            op = " || " if isinstance(e.op, ast.Or) else " && "
            return Val(B, "(" + op.join(v.term for v in vals) + ")")
        raise U("expression %s" % ast.unparse(e)[:80])

    def scaled(self, env, e):
        """`a * x` / `x * a` with a scalar and a vector -> (scalar term, vector term) or None"""
        if isinstance(e, ast.BinOp) and isinstance(e.op, ast.Mult):
            a, b = self.ev(env, e.left), self.ev(env, e.right)
            if a.typ == S and b.typ == V:
                return a.term, self.vec(env, b)
            if a.typ == V and b.typ == S:
                return b.term, self.vec(env, a)
        return None

    def binop(self, env, e):
        if isinstance(e.op, ast.Pow):
            a = self.ev(env, e.left)
            if a.typ == S and isinstance(e.right, ast.Constant) and isinstance(e.right.value, float) and e.right.value == 0.5:
                return Val(SQ, a.term)
            raise U("power %s" % ast.unparse(e))
        if isinstance(e.op, (ast.Add, ast.Sub)):
            # y + a * x  (axpy),  a * y + x  (xpay),  y - a * x  (axpy with -a)
            sr = self.scaled(env, e.right)
            if sr is not None:
                y = self.ev(env, e.left)
                if y.typ == V:
                    a = sr[0] if isinstance(e.op, ast.Add) else "(o.neg %s)" % sr[0]
                    return Val(V, obj=env.new_obj("(o.axpy %s %s %s)" % (self.vec(env, y), a, sr[1]), "fresh"))
            sl = self.scaled(env, e.left) if isinstance(e.op, ast.Add) else None
            if sl is not None:
                x = self.ev(env, e.right)
                if x.typ == V:
                    return Val(V, obj=env.new_obj("(o.xpay %s %s %s)" % (sl[1], sl[0], self.vec(env, x)), "fresh"))
        a, b = self.ev(env, e.left), self.ev(env, e.right)
        if isinstance(e.op, ast.Sub) and a.typ == V and b.typ == V:
            return Val(V, obj=env.new_obj("(o.sub %s %s)" % (self.vec(env, a), self.vec(env, b)), "fresh"))
        if isinstance(e.op, ast.Div) and a.typ == S and b.typ == S:
            return Val(S, "(o.div %s %s)" % (a.term, b.term))
        if a.typ == I and b.typ == I and isinstance(e.op, (ast.Add, ast.Sub, ast.Mult)):
            return Val(I, "(%s %s %s)" % (a.term, {ast.Add: "+", ast.Sub: "-", ast.Mult: "*"}[type(e.op)], b.term))
        raise U("operator %s on %s and %s in `%s` (not an operation of C12.Ops)" % (type(e.op).__name__, a.typ, b.typ, ast.unparse(e)))

    def call(self, env, e):
        if e.keywords:
            raise U("keyword arguments in %s" % ast.unparse(e))
        f = e.func
        # x.copy(): a fresh object with the same contents;  s.item(): the scalar itself
        if isinstance(f, ast.Attribute) and f.attr in ("copy", "item") and not e.args and key(f) is None:
            a = self.ev(env, f.value)
            if f.attr == "copy" and a.typ == V:
                return Val(V, obj=env.new_obj(self.vec(env, a), "fresh"))
            if f.attr == "item" and a.typ == S:
                return a
            raise U("%s of a %s" % (f.attr, a.typ))
        # xp.real(xp.vdot(a, b))
        if isinstance(f, ast.Attribute) and isinstance(f.value, ast.Name) and f.value.id == "xp":
            if f.attr == "real" and len(e.args) == 1:
                g = e.args[0]
                if isinstance(g, ast.Call) and isinstance(g.func, ast.Attribute) and isinstance(g.func.value, ast.Name) \
                        and g.func.value.id == "xp" and g.func.attr == "vdot" and len(g.args) == 2 and not g.keywords:
                    a, b = self.ev(env, g.args[0]), self.ev(env, g.args[1])
                    if a.typ == V and b.typ == V:
                        return Val(S, "(o.rdot %s %s)" % (self.vec(env, a), self.vec(env, b)))
            raise U("`%s` (only xp.real(xp.vdot(u, v)) is an operation of C12.Ops)" % ast.unparse(e)[:60])
        k = key(f)
        if k in env.vars and len(e.args) == 1:
            fn = env.vars[k]
            a = self.ev(env, e.args[0])
            if a.typ != V:
                raise U("argument of %s is a %s" % (k, a.typ))
            if fn.typ == F:
                return Val(V, obj=env.new_obj("(%s %s)" % (fn.term, self.vec(env, a)), "call", may_be=a.obj))
            if fn.typ == OF:
                if env.psome is not True:
                    raise U("%s is called where it may be None" % k)
                return Val(V, obj=env.new_obj("(P_f %s)" % self.vec(env, a), "call", may_be=a.obj))
        raise U("call %s" % ast.unparse(e)[:60])

    def compare(self, env, e):
        if len(e.ops) != 1:
            raise U("chained comparison")
        op, l, r = e.ops[0], e.left, e.comparators[0]
        a, b = self.ev(env, l), self.ev(env, r)
        if a.typ == I and b.typ == I:
            sym = {ast.Lt: "<", ast.LtE: "≤", ast.Gt: ">", ast.GtE: "≥", ast.Eq: "=", ast.NotEq: "≠"}.get(type(op))
            if sym is None:
                raise U("comparison %s" % ast.unparse(e))
            return Val(B, "decide (%s %s %s)" % (a.term, sym, b.term))
        if isinstance(op, ast.LtE) and a.typ == S and isinstance(r, ast.Constant) and r.value == 0 and not isinstance(r.value, bool):
            return Val(B, "(o.nonpos %s)" % a.term)
        if isinstance(op, ast.LtE) and a.typ == SQ and b.typ == S:
            return Val(B, "(o.sqrtLe %s %s)" % (a.term, b.term))
        raise U("comparison `%s` (Ops has `s <= 0` and `s ** 0.5 <= tol` only)" % ast.unparse(e))

    # ---------------- statements ----------------
    def bind(self, env, k, v, hint=None):
        """name the value with a `let` (unless it is already a name) and bind the python key to it"""
        if v.typ == V:
            o = env.heap[v.obj]
            if not re.fullmatch(r"[A-Za-z_][A-Za-z0-9_.]*", o.term):
                nm = env.fresh(hint or k)
                env.lines.append("let %s := %s" % (nm, o.term[1:-1] if o.term.startswith("(") else o.term))
                o.term = nm
        elif v.typ in (S, SQ, I, B) and not re.fullmatch(r"[A-Za-z_][A-Za-z0-9_.]*|\d+", v.term):
            nm = env.fresh(hint or k)
            t = v.term
            env.lines.append("let %s := %s" % (nm, t[1:-1] if t.startswith("(") and _balanced(t[1:-1]) else t))
            v = Val(v.typ, nm)
        if k in CONSTS and not self.method.endswith("__init__"):
            raise U("%s assigns %s" % (self.method, k))
        if k == "self.x":
            self.shared["x_rebound"] = self.shared["x_rebound"] or not (
                v.typ == V and env.heap[v.obj].origin in ("param:x", "state:x"))
        env.vars[k] = v

    def inplace(self, env, tgt, new_term, src):
        """`tgt` (a vector name) is updated in place: every name bound to the object sees the new contents"""
        v = self.ev(env, tgt)
        if v.typ != V:
            raise U("in-place update of a %s in `%s`" % (v.typ, src))
        o = env.heap[v.obj]
        if o.origin == "call":
            raise U("`%s` updates in place the result of a call, which may be the call's argument itself" % src)
        if o.origin in ("state:r", "state:p"):
            self.shared["inplace"].append(list(env.path))
        nm = env.fresh(key(tgt) or "t")
        env.lines.append("let %s := %s" % (nm, new_term))
        o.term = nm

    def block(self, stmts, env, k):
        """Lean term for `stmts` followed by continuation k (env -> term)"""
        lines = env.lines = []
        for i, st in enumerate(stmts):
            rest = stmts[i + 1:]
            src = ast.unparse(st).split("\n")[0]
            n0 = len(lines)
            if isinstance(st, ast.Expr) and isinstance(st.value, ast.Constant) and isinstance(st.value.value, str):
                continue
            if isinstance(st, ast.Pass):
                continue
            if isinstance(st, ast.With):
                if len(st.items) != 1 or ast.unparse(st.items[0]) != "self.device":
                    raise U("with %s" % ast.unparse(st.items[0]))
                return self._tail(lines, self.block(st.body, env, lambda e: self.block(rest, e, k)))
            if isinstance(st, ast.Return):
                if rest:
                    raise U("dead code after return in %s" % self.method)
                return self._tail(lines, self.ret(env, st))
            if isinstance(st, ast.If):
                return self._tail(lines, self.branch(st, rest, env, k))
            if isinstance(st, ast.Assign):
                if len(st.targets) != 1:
                    raise U("multiple assignment")
                tk = key(st.targets[0])
                if tk is None:
                    raise U("assignment to %s" % ast.unparse(st.targets[0]))
                if (tk, ast.unparse(st.value)) in (("xp", "self.device.xp"), ("self.device", "backend.get_device(x)")):
                    continue
                if tk in ("xp", "self.device", "o", "s", "P_f"):
                    raise U("assignment %s" % src)
                self.bind(env, tk, self.ev(env, st.value))
            elif isinstance(st, ast.AugAssign):
                tk = key(st.target)
                cur = self.ev(env, st.target)
                if cur.typ == I and isinstance(st.op, (ast.Add, ast.Sub)):
                    d = self.ev(env, st.value)
                    if d.typ != I:
                        raise U(src)
                    self.bind(env, tk, Val(I, "(%s %s %s)" % (cur.term, "+" if isinstance(st.op, ast.Add) else "-", d.term)))
                elif cur.typ == V and isinstance(st.op, (ast.Add, ast.Sub)):
                    sc = self.scaled(env, st.value)
                    if sc is None:
                        raise U("`%s` (only y += a * x / y -= a * x are operations of C12.Ops)" % src)
                    a = sc[0] if isinstance(st.op, ast.Add) else "(o.neg %s)" % sc[0]
                    self.inplace(env, st.target, "o.axpy %s %s %s" % (self.vec(env, cur), a, sc[1]), src)
                else:
                    raise U("augmented assignment `%s`" % src)
            elif isinstance(st, ast.Expr) and isinstance(st.value, ast.Call):
                c = st.value
                cs = ast.unparse(c.func)
                if cs in ("util.axpy", "util.xpay") and len(c.args) == 3 and not c.keywords:
                    y, a, x = self.ev(env, c.args[0]), self.ev(env, c.args[1]), self.ev(env, c.args[2])
                    if (y.typ, a.typ, x.typ) != (V, S, V):
                        raise U("argument types of `%s`" % src)
                    self.inplace(env, c.args[0], "o.%s %s %s %s" % (cs[5:], self.vec(env, y), a.term, self.vec(env, x)), src)
                elif cs == "super().__init__" and self.method.endswith("__init__"):
                    return self._tail(lines, self.inline_super(c, rest, env, k))
                elif cs == "self._update" and not c.args and not c.keywords and self.method == "Alg.update":
                    nm = env.fresh("s")
                    lines.append("let %s := update_ o A P max_iter %s" % (nm, state_record(self, env, inline=True)))
                    load_state(env, nm)
                else:
                    raise U("statement `%s`" % src)
            else:
                raise U("statement kind %s (`%s`)" % (type(st).__name__, src))
            if len(lines) > n0:
                lines[n0] += " " * max(1, 58 - len(lines[n0])) + "-- " + src
            else:
                lines.append("-- " + src)
        return self._tail(lines, k(env))

    @staticmethod
    def _tail(lines, tail):
        return "\n".join(lines + [tail])

    def ret(self, env, st):
        if self.method.endswith("_done"):
            if st.value is None:
                raise U("_done returns nothing")
            v = self.ev(env, st.value)
            if v.typ != B:
                raise U("_done returns a %s" % v.typ)
            self.shared["leaves"] += 1
            return v.term
        if st.value is not None:
            raise U("%s returns a value" % self.method)
        return self.leaf(self, env)

    def branch(self, st, rest, env, k):
        src = "-- if %s:" % ast.unparse(st.test)
        t = st.test
        # `self.P is None` / `self.P is not None`
        if isinstance(t, ast.Compare) and len(t.ops) == 1 and isinstance(t.ops[0], (ast.Is, ast.IsNot)) \
                and key(t.left) is not None and isinstance(t.comparators[0], ast.Constant) and t.comparators[0].value is None:
            pv = self.ev(env, t.left)
            if pv.typ != OF:
                raise U("`%s` on a %s" % (ast.unparse(t), pv.typ))
            none_body, some_body = (st.body, st.orelse) if isinstance(t.ops[0], ast.Is) else (st.orelse, st.body)
            if env.psome is not None:  # already known on this path
                return self.block(some_body if env.psome else none_body, env, lambda e: self.block(rest, e, k))
            en, es = env.copy(), env.copy()
            en.psome, es.psome = False, True
            tn = self.block(none_body, en, lambda e: self.block(rest, e, k))
            ts = self.block(some_body, es, lambda e: self.block(rest, e, k))
            return "match %s with %s\n| none =>\n%s\n| some P_f =>\n%s" % (pv.term, src, _indent(tn), _indent(ts))
        c = self.ev(env, t)
        if c.typ != B:
            raise U("condition `%s` is a %s" % (ast.unparse(t), c.typ))
        et, ee = env.copy(), env.copy()
        if re.fullmatch(r"(?:[\s\d()<>≤≥=≠+\-*]|decide|s\.iter|max_iter)*", c.term):  # integers of the state only
            et.path.append(c.term)
            ee.path.append("!%s" % c.term)
        tt = self.block(st.body, et, lambda e: self.block(rest, e, k))
        te = self.block(st.orelse, ee, lambda e: self.block(rest, e, k))
        cond = c.term[7:] if c.term.startswith("decide (") and _balanced(c.term[7:][1:-1]) else c.term
        if cond.startswith("(") and _balanced(cond[1:-1]):
            cond = cond[1:-1]
        return "if %s then %s\n%s\nelse\n%s" % (cond, src, _indent(tt), _indent(te))

    def inline_super(self, c, rest, env, k):
        """`super().__init__(args)`: the body of `Alg.__init__` with its parameters bound to the arguments"""
        fn = T.find_function(self.tree, "Alg.__init__")
        params = [a.arg for a in fn.args.args]
        if params[:1] != ["self"] or len(params) - 1 != len(c.args) or c.keywords or fn.args.vararg or fn.args.kwarg:
            raise U("super().__init__ arguments")
        vals = [self.ev(env, a) for a in c.args]
        saved = {kk: v for kk, v in env.vars.items() if not kk.startswith("self.")}
        for kk in saved:
            del env.vars[kk]
        for p, v in zip(params[1:], vals):
            env.vars[p] = v
        outer = self.method

        def back(e):
            for kk in [kk for kk in e.vars if not kk.startswith("self.")]:
                del e.vars[kk]
            e.vars.update(saved)
            self.method = outer
            return self.block(rest, e, k)
        self.method = "Alg.__init__"
        return self.block(list(fn.body), env, back)


def _balanced(s):
    d = 0
    for ch in s:
        d += ch == "("
        d -= ch == ")"
        if d < 0:
            return False
    return d == 0


def _indent(s):
    return "\n".join("  " + ln for ln in s.split("\n"))


def load_state(env, s):
    """bind the attributes of the object to the fields of the State `s`"""
    env.heap = {k: o for k, o in env.heap.items()}
    for f in ("x", "r", "p"):
        env.vars["self." + f] = Val(V, obj=env.new_obj("%s.%s" % (s, f), "state:" + f))
    env.vars["self.rzold"] = Val(S, "%s.rzold" % s)
    env.vars["self.resid"] = Val(SQ, "%s.resid2" % s)
    env.vars["self.not_positive_definite"] = Val(B, "%s.npd" % s)
    env.vars["self.iter"] = Val(I, "%s.iter" % s)
    env.vars["$alias"] = Val(B, "%s.alias" % s)


def alias_term(env):
    """is `self.p` (or may it be) the array `self.r`"""
    p, r = env.vars["self.p"], env.vars["self.r"]
    if p.typ != V or r.typ != V:
        raise U("self.p / self.r are not arrays")
    op = env.heap[p.obj]
    if op.origin == "state:p":
        return env.vars["$alias"].term
    if p.obj == r.obj or (op.origin == "call" and op.may_be == r.obj):
        return "true"
    if op.origin == "fresh":
        return "false"
    raise U("cannot tell whether self.p shares its array (%s)" % op.origin)


def state_record(ex, env, inline=False):
    need = {"self.x": V, "self.r": V, "self.p": V, "self.rzold": S, "self.resid": SQ,
            "self.not_positive_definite": B, "self.iter": I}
    for k, t in need.items():
        if k not in env.vars:
            raise U("%s: attribute %s is not set" % (ex.method, k))
        if env.vars[k].typ != t:
            raise U("%s: attribute %s is a %s, modelled as %s" % (ex.method, k, env.vars[k].typ, t))
    for k, (nm, t) in CONSTS.items():
        if k in env.vars and (env.vars[k].typ != t or (env.heap[env.vars[k].obj].term if t == V else env.vars[k].term) != nm):
            raise U("%s: %s is not the constructor argument %s" % (ex.method, k, nm))
    vals = [env.heap[env.vars["self." + f].obj].term for f in ("x", "r", "p")] + [
        env.vars["self.rzold"].term, env.vars["self.resid"].term, env.vars["self.not_positive_definite"].term,
        env.vars["self.iter"].term, alias_term(env)]
    xo = env.heap[env.vars["self.x"].obj].origin
    if xo not in ("param:x", "state:x"):
        ex.shared["x_rebound"] = True
    ex.shared["leaves"] += 1
    if inline and all(v == "s." + f for f, v in zip(STATE_FIELDS, vals)):
        return "s"
    fields = ", ".join("%s := %s" % (f, v) for f, v in zip(STATE_FIELDS, vals))
    return "{ %s }" % fields


def census(cls):
    if [ast.unparse(b) for b in cls.bases] != ["Alg"]:
        raise U("base classes %s" % [ast.unparse(b) for b in cls.bases])
    got = [n.name for n in cls.body if isinstance(n, ast.FunctionDef)]
    if got != ["__init__", "_update", "_done"]:
        raise U("methods %s (update/done must be Alg's)" % got)
    for n in cls.body:
        if not isinstance(n, ast.FunctionDef) and not (isinstance(n, ast.Expr) and isinstance(n.value, ast.Constant)):
            raise U("class-level statement %s" % ast.unparse(n)[:60])
    for n in cls.body:
        if isinstance(n, ast.FunctionDef) and n.decorator_list:
            raise U("decorated method %s" % n.name)


def gen_c12(ctx=None):
    tree = G._parse("sigpy/alg.py")
    cls = T.find_function(tree, "ConjugateGradient")
    if not isinstance(cls, ast.ClassDef):
        raise U("not a class")
    census(cls)
    out = ["/- GENERATED by harness/translate/gen_c12.py from sigpy/alg.py (ConjugateGradient.__init__/_update/_done, "
           "Alg.__init__/update) — do not edit; regenerated on every check. -/\n"
           "import SigpyVerif.Model.C12Base\nset_option linter.unusedVariables false\n"
           "namespace SigpyVerif.Gen.C12\nopen SigpyVerif SigpyVerif.C12\n\nvariable {V S : Type}\n"]

    # ---------------- __init__ ----------------
    fn = T.find_function(cls, "__init__")
    a = fn.args
    if [x.arg for x in a.args] != ["self", "A", "b", "x", "P", "max_iter", "tol"] or a.vararg or a.kwarg or a.kwonlyargs:
        raise U("__init__ signature %s" % [x.arg for x in a.args])
    ex = Exec(tree, "ConjugateGradient.__init__", lambda ex, env: state_record(ex, env))
    env = Env(ex.shared)
    env.vars.update({"A": Val(F, "A"), "P": Val(OF, "P"), "max_iter": Val(I, "max_iter"), "tol": Val(S, "tol"),
                     "b": Val(V, obj=env.new_obj("b", "param:b")), "x": Val(V, obj=env.new_obj("x", "param:x"))})
    body = ex.block(list(fn.body), env, lambda e: state_record(ex, e))
    out.append("/-- generated from `ConjugateGradient.__init__` (with `Alg.__init__` through `super().__init__`) -/\n"
               "def init (o : Ops V S) (A : V → V) (P : Option (V → V)) (b x : V) (max_iter : Int) : State V S :=\n%s\n" % _indent(body))
    out.append("/-- `self.x` is the array the caller passed to `__init__` -/\ndef initXIsCaller : Bool := %s\n"
               % ("false" if ex.shared["x_rebound"] else "true"))

    # ---------------- _update ----------------
    fn = T.find_function(cls, "_update")
    if [x.arg for x in fn.args.args] != ["self"]:
        raise U("_update signature")
    ex = Exec(tree, "ConjugateGradient._update", lambda ex, env: state_record(ex, env))
    env = Env(ex.shared)
    for k, (nm, t) in CONSTS.items():
        if t != V:
            env.vars[k] = Val(t, nm)
    load_state(env, "s")
    body = ex.block(list(fn.body), env, lambda e: state_record(ex, e))
    out.append("/-- generated from `ConjugateGradient._update` -/\n"
               "def update_ (o : Ops V S) (A : V → V) (P : Option (V → V)) (max_iter : Int) (s : State V S) : State V S :=\n%s\n" % _indent(body))
    sites = ex.shared["inplace"]
    disj = []
    for p in sites:
        d = "(" + " && ".join(p) + ")" if p else "true"
        if d not in disj:
            disj.append(d)
    guard = " || ".join(disj) if disj else "false"
    guard = guard.replace("s.iter", "iter")
    out.append("/-- (integer part of) the path condition under which `_update` updates `self.r` or `self.p` IN PLACE\n"
               "    (%d such statements) -/\ndef updInplaceGuard (max_iter : Int) (iter : Int) : Bool := %s\n" % (len(sites), guard))
    out.append("/-- `_update` never rebinds `self.x` (it is updated in place: the caller's array holds the iterate) -/\n"
               "def updXIsCaller : Bool := %s\n" % ("false" if ex.shared["x_rebound"] else "true"))

    # ---------------- Alg.update ----------------
    fn = T.find_function(tree, "Alg.update")
    if [x.arg for x in fn.args.args] != ["self"]:
        raise U("Alg.update signature")
    ex = Exec(tree, "Alg.update", lambda ex, env: state_record(ex, env))
    env = Env(ex.shared)
    for k, (nm, t) in CONSTS.items():
        if t != V:
            env.vars[k] = Val(t, nm)
    load_state(env, "s")
    body = ex.block(list(fn.body), env, lambda e: state_record(ex, e))
    out.append("/-- generated from `Alg.update` -/\n"
               "def update (o : Ops V S) (A : V → V) (P : Option (V → V)) (max_iter : Int) (s : State V S) : State V S :=\n%s\n" % _indent(body))

    # ---------------- _done / Alg.done ----------------
    fn = T.find_function(tree, "Alg.done")
    stm = [n for n in fn.body if not (isinstance(n, ast.Expr) and isinstance(n.value, ast.Constant))]
    if [ast.unparse(n) for n in stm] != ["return self._done()"]:
        raise U("Alg.done is not `return self._done()`")
    fn = T.find_function(cls, "_done")
    if [x.arg for x in fn.args.args] != ["self"]:
        raise U("_done signature")
    ex = Exec(tree, "ConjugateGradient._done", None)
    env = Env(ex.shared)
    for k, (nm, t) in CONSTS.items():
        if t != V:
            env.vars[k] = Val(t, nm)
    load_state(env, "s")

    def no_fall(e):
        raise U("_done can end without a return")
    body = ex.block(list(fn.body), env, no_fall)
    out.append("/-- generated from `ConjugateGradient._done` -/\n"
               "def done (o : Ops V S) (max_iter : Int) (tol : S) (s : State V S) : Bool :=\n%s\n" % _indent(body))
    out.append("end SigpyVerif.Gen.C12\n")
    return "\n".join(out)


GENERATORS = {"C12": gen_c12}
