"""C11 — spelling normaliser run on the Python ast of sigpy/thresh.py, sigpy/prox.py and sigpy/util.py BEFORE the
matchers / symbolic executors of gen_c11.py see it.

Every pass is a *semantics-preserving rewrite inside a stated subset* and is best-effort: when a construct is outside
the subset the pass leaves the code exactly as it is, so the downstream matcher still sees the unknown spelling and
raises `Unsupported` (a broken obligation).  No pass ever deletes a statement it does not understand, invents a
definition, or returns a default.

  P1  inline_helpers   calls to private module-level functions `_f(..)` / private methods `self._m(..)` defined in the
                       same file (same class) are replaced by the callee's body.  Callee subset: undecorated, no
                       */** parameters, body = docstring, assignments / augmented assignments to plain names, and
                       (a) one final `return <expr>` [call anywhere in a simple statement] or (b) `if/else` trees all
                       of whose paths end in `return <expr>` [call is exactly the value of a `return`].  Arguments are
                       resolved against the signature (positional, keyword, constant defaults).  Callee locals keep
                       their names unless they clash with a name of the caller (then `<name>__<callee>`).  Refused
                       (call left in place => downstream Unsupported): recursion (direct; mutual recursion is cut by
                       the round limit), attribute / subscript stores, expression statements (side effects), loops,
                       try, with, nested defs, globals of the callee shadowed by caller locals.
  P2  resolve_keywords keyword arguments of calls whose callee signature is known (functions of the three files, the
                       Prox call protocol `(alpha, input)`, a small numpy table) become positional, omitted middle
                       parameters are filled with their constant defaults.
  P3  loops_to_comps   `v = []` … `for T in IT: [t = e]* v.append(E)`  ->  `v = [E for T in IT]` (same iteration
                       order; single-use loop temporaries are substituted into E); `list(<genexp>)` -> list
                       comprehension.
  P4  inline_temps     a plain name assigned exactly once in the function from an expression and read exactly once, in
                       a later simple statement (or `if` test / `for` iterable / first comprehension iterable) of the
                       same block, is substituted at its use, provided no name the expression reads is re-bound in
                       between and the statements in between are plain-name assignments (no in-place updates, no
                       subscript / attribute stores, no expression statements).  Module handles (`xp = …`,
                       `device = …`) are never inlined.

Assumption (stated in the manifest note): expressions of these three files are evaluated for their value; moving a
pure expression to its single use does not change which exception is raised in a way the property observes.
"""
import ast
import copy

MAX_ROUNDS = 4
HANDLE_PREFIXES = ("backend.get_array_module(", "backend.get_device(", "device.xp", "backend.Device(")

NUMPY_SIGS = {  # suffix after xp. / np.  -> leading parameter names
    "linalg.norm": ["x", "ord", "axis", "keepdims"],
    "clip": ["a", "a_min", "a_max"],
    "sort": ["a"], "cumsum": ["a"], "flatnonzero": ["a"], "abs": ["x"], "absolute": ["x"], "conj": ["x"],
    "conjugate": ["x"], "maximum": ["x1", "x2"], "concatenate": ["arrays"], "linalg.eigh": ["a"],
}
PROX_PROTOCOL = ["alpha", "input"]


# ---------------------------------------------------------------------------------------------------
# name utilities
# ---------------------------------------------------------------------------------------------------
def _dotted(e):
    if isinstance(e, ast.Name):
        return e.id
    if isinstance(e, ast.Attribute):
        b = _dotted(e.value)
        return None if b is None else b + "." + e.attr
    return None


def _is_doc(s):
    return isinstance(s, ast.Expr) and isinstance(s.value, ast.Constant) and isinstance(s.value.value, str)


def _nodoc(body):
    return [s for s in body if not _is_doc(s)]


def _private(name, protected):
    return name.startswith("_") and not (name.startswith("__") and name.endswith("__")) and name not in protected


def _comp_nodes():
    return (ast.ListComp, ast.SetComp, ast.DictComp, ast.GeneratorExp, ast.Lambda)


def fn_stored(fn):
    """names bound at function level: parameters, assignment / for / with / except targets (comprehension variables
    live in their own scope and are reported separately by `comp_bound`)"""
    out = set()
    a = fn.args
    for p in a.posonlyargs + a.args + a.kwonlyargs + ([a.vararg] if a.vararg else []) + ([a.kwarg] if a.kwarg else []):
        out.add(p.arg)

    def walk(n, in_comp):
        for c in ast.iter_child_nodes(n):
            if isinstance(c, (ast.FunctionDef, ast.AsyncFunctionDef, ast.ClassDef)):
                out.add(c.name)
                continue
            if isinstance(c, ast.Name) and isinstance(c.ctx, (ast.Store, ast.Del)) and not in_comp:
                out.add(c.id)
            if isinstance(c, ast.NamedExpr) and isinstance(c.target, ast.Name):
                out.add(c.target.id)
            if isinstance(c, ast.ExceptHandler) and c.name:
                out.add(c.name)
            if isinstance(c, (ast.Import, ast.ImportFrom)):
                for al in c.names:
                    out.add((al.asname or al.name).split(".")[0])
            walk(c, in_comp or isinstance(c, _comp_nodes()))
    for s in fn.body:
        walk(ast.Module(body=[s], type_ignores=[]), False)
    return out


def all_names(node):
    return {n.id for n in ast.walk(node) if isinstance(n, ast.Name)} | {a.arg for a in ast.walk(node) if isinstance(a, ast.arg)}


def loaded(node):
    return [n for n in ast.walk(node) if isinstance(n, ast.Name) and isinstance(n.ctx, ast.Load)]


def stored_in(node):
    """plain names stored anywhere inside node (any scope: conservative)"""
    out = {n.id for n in ast.walk(node) if isinstance(n, ast.Name) and isinstance(n.ctx, (ast.Store, ast.Del))}
    out |= {n.target.id for n in ast.walk(node) if isinstance(n, ast.NamedExpr) and isinstance(n.target, ast.Name)}
    return out


class _Subst(ast.NodeTransformer):
    """substitute loads of names (no scope analysis: callers make sure the names are not re-bound inside)"""

    def __init__(self, mapping):
        self.m = mapping

    def visit_Name(self, n):
        if n.id in self.m and isinstance(n.ctx, ast.Load):
            return copy.deepcopy(self.m[n.id])
        return n


class _Rename(ast.NodeTransformer):
    def __init__(self, mapping):
        self.m = mapping

    def visit_Name(self, n):
        if n.id in self.m:
            return ast.Name(id=self.m[n.id], ctx=n.ctx)
        return n


def _functions(tree):
    """(class name or None, FunctionDef) for module-level functions and methods"""
    for n in tree.body:
        if isinstance(n, ast.FunctionDef):
            yield None, n
        if isinstance(n, ast.ClassDef):
            for m in n.body:
                if isinstance(m, ast.FunctionDef):
                    yield n.name, m


def signature(fn, drop_self=False):
    """(params, {param: default ast}) or None when the function has */** / keyword-only parameters"""
    a = fn.args
    if a.vararg or a.kwarg or a.kwonlyargs:
        return None
    ps = [p.arg for p in a.posonlyargs + a.args]
    dfl = dict(zip(ps[len(ps) - len(a.defaults):], a.defaults)) if a.defaults else {}
    if drop_self:
        if not ps:
            return None
        ps = ps[1:]
    return ps, dfl


def module_signatures(tree):
    out = {}
    for cls, fn in _functions(tree):
        if cls is None and not fn.decorator_list:
            sg = signature(fn)
            if sg is not None:
                out[fn.name] = sg
    return out


# ---------------------------------------------------------------------------------------------------
# P2 keywords -> positional
# ---------------------------------------------------------------------------------------------------
def _const_default(e):
    return isinstance(e, ast.Constant) or (isinstance(e, ast.UnaryOp) and isinstance(e.operand, ast.Constant))


def canon_call(call, params, defaults):
    if any(isinstance(a, ast.Starred) for a in call.args) or any(k.arg is None for k in call.keywords):
        return False
    if not call.keywords or len(call.args) > len(params):
        return False
    given = dict(zip(params, call.args))
    for k in call.keywords:
        if k.arg not in params or k.arg in given:
            return False
        given[k.arg] = k.value
    last = max(params.index(p) for p in given)
    new = []
    for p in params[:last + 1]:
        if p in given:
            new.append(given[p])
        elif p in defaults and _const_default(defaults[p]):
            new.append(copy.deepcopy(defaults[p]))
        else:
            return False
    call.args = new
    call.keywords = []
    return True


def resolve_keywords(tree, local_sigs, ext_sigs=None, protocol=()):
    """local_sigs: bare function name -> signature; ext_sigs: module alias -> {name: signature};
    protocol: dotted callee names that follow the Prox call protocol (alpha, input)"""
    ext_sigs = ext_sigs or {}
    for cls, fn in _functions(tree):
        shadow = fn_stored(fn)
        for c in ast.walk(fn):
            if not isinstance(c, ast.Call) or not c.keywords:
                continue
            d = _dotted(c.func)
            if d is None:
                continue
            if d in local_sigs and d not in shadow:
                canon_call(c, *local_sigs[d])
            elif d in protocol:
                canon_call(c, PROX_PROTOCOL, {})
            elif "." in d:
                head, rest = d.split(".", 1)
                if head in ext_sigs and rest in ext_sigs[head] and head not in shadow:
                    canon_call(c, *ext_sigs[head][rest])
                elif head in ("xp", "np") and rest in NUMPY_SIGS:
                    canon_call(c, NUMPY_SIGS[rest], {})
    return tree


# ---------------------------------------------------------------------------------------------------
# P1 helper inlining
# ---------------------------------------------------------------------------------------------------
def _simple_target(t):
    return isinstance(t, ast.Name) or (isinstance(t, ast.Tuple) and all(isinstance(x, ast.Name) for x in t.elts))


def _pure_expr(e):
    """no construct with an effect of its own (walrus, yield, await, lambda bodies are fine to copy but we refuse them)"""
    return not any(isinstance(n, (ast.NamedExpr, ast.Yield, ast.YieldFrom, ast.Await, ast.Lambda, ast.Starred))
                   for n in ast.walk(e))


def _straight(body):
    """assignments to plain names … then exactly one `return <expr>`"""
    if not body or not isinstance(body[-1], ast.Return) or body[-1].value is None or not _pure_expr(body[-1].value):
        return False
    for s in body[:-1]:
        if isinstance(s, ast.Assign) and len(s.targets) == 1 and _simple_target(s.targets[0]) and _pure_expr(s.value):
            continue
        if isinstance(s, ast.AugAssign) and isinstance(s.target, ast.Name) and _pure_expr(s.value):
            continue
        return False
    return True


def _tail(body):
    """assignments … then `return <expr>` or `if c: <tail> else: <tail>`"""
    if not body:
        return False
    for s in body[:-1]:
        if isinstance(s, ast.Assign) and len(s.targets) == 1 and _simple_target(s.targets[0]) and _pure_expr(s.value):
            continue
        if isinstance(s, ast.AugAssign) and isinstance(s.target, ast.Name) and _pure_expr(s.value):
            continue
        return False
    last = body[-1]
    if isinstance(last, ast.Return):
        return last.value is not None and _pure_expr(last.value)
    if isinstance(last, ast.If):
        return _pure_expr(last.test) and bool(last.orelse) and _tail(_nodoc(last.body)) and _tail(_nodoc(last.orelse))
    return False


def _handle_only(fn, name):
    """every binding of `name` in fn is `name = <module handle expression>` (and it is not a parameter)"""
    if any(a.arg == name for a in ast.walk(fn.args) if isinstance(a, ast.arg)):
        return False
    n = 0
    for s in ast.walk(fn):
        if isinstance(s, ast.Assign) and any(isinstance(t, ast.Name) and t.id == name for t in s.targets):
            if len(s.targets) != 1 or not _is_handle(s.value):
                return False
            n += 1
    stores = sum(1 for x in ast.walk(fn) if isinstance(x, ast.Name) and x.id == name and not isinstance(x.ctx, ast.Load))
    return n >= 1 and stores == n


def _atomic(e):
    return isinstance(e, ast.Constant) or _dotted(e) is not None


class _Inliner:
    def __init__(self, tree, protected):
        self.protected = set(protected)
        self.mod = {}
        self.cls = {}
        for cls, fn in _functions(tree):
            if fn.decorator_list or not _private(fn.name, self.protected):
                continue
            if cls is None:
                self.mod[fn.name] = fn
            else:
                self.cls[(cls, fn.name)] = fn
        self.count = 0

    # -- which helper does this call refer to? -----------------------------------------------------
    def callee(self, call, cls, self_name, shadow):
        f = call.func
        if isinstance(f, ast.Name) and f.id in self.mod and f.id not in shadow:
            return self.mod[f.id], False
        if cls is not None and isinstance(f, ast.Attribute) and isinstance(f.value, ast.Name) and f.value.id == self_name \
                and (cls, f.attr) in self.cls:
            return self.cls[(cls, f.attr)], True
        return None, False

    def helper_names(self):
        return set(self.mod) | {m for (_, m) in self.cls}

    def recursive(self, h):
        for c in ast.walk(h):
            if isinstance(c, ast.Call):
                d = _dotted(c.func)
                if d is not None and d.split(".")[-1] == h.name:
                    return True
        return False

    # -- build the inlined statements ------------------------------------------------------------------
    def expand(self, h, is_method, call, caller, self_name, tail):
        body = _nodoc(h.body)
        if self.recursive(h) or not (_tail(body) if tail else _straight(body)):
            return None
        sg = signature(h)
        if sg is None:
            return None
        params, dfl = sg
        if any(isinstance(a, ast.Starred) for a in call.args) or any(k.arg is None for k in call.keywords):
            return None
        args = list(call.args)
        binding = {}
        if is_method:
            if not params:
                return None
            binding[params[0]] = ast.Name(id=self_name, ctx=ast.Load())
            params = params[1:]
        if len(args) > len(params):
            return None
        for p, a in zip(params, args):
            binding[p] = a
        for k in call.keywords:
            if k.arg not in params or k.arg in binding:
                return None
            binding[k.arg] = k.value
        for p in params:
            if p not in binding:
                if p in dfl and _const_default(dfl[p]):
                    binding[p] = copy.deepcopy(dfl[p])
                else:
                    return None
        if not all(_pure_expr(a) for a in binding.values()):
            return None
        hstored = set()
        for s in body:
            hstored |= stored_in(s)
        allparams = list(binding)
        cnames = all_names(caller)
        cstored = fn_stored(caller)
        free = {n.id for s in body for n in loaded(s)} - hstored - set(allparams)
        if free & cstored:            # a global of the helper is shadowed by a caller local
            return None
        if any(isinstance(n, _comp_nodes()) for s in body for n in ast.walk(s)):
            # comprehension variables of the helper are renamed too; keep it simple: refuse when they clash
            comp_vars = {n.id for s in body for c in ast.walk(s) if isinstance(c, ast.comprehension) for n in ast.walk(c.target)
                         if isinstance(n, ast.Name)}
            if comp_vars & (cnames | set(allparams)):
                return None
        subst, pre, rename = {}, [], {}
        used = set(cnames) | free

        def fresh(base):
            cand = base
            if cand in used:
                cand = "%s__%s" % (base, h.name.strip("_"))
                i = 2
                while cand in used:
                    cand = "%s__%s%d" % (base, h.name.strip("_"), i)
                    i += 1
            used.add(cand)
            return cand
        for p in allparams:
            a = binding[p]
            if p not in hstored and _atomic(a):
                subst[p] = a
            else:
                # the parameter becomes a fresh local of the caller, bound to the argument
                newp = fresh(p)
                rename[p] = newp
                pre.append(ast.Assign(targets=[ast.Name(id=newp, ctx=ast.Store())], value=copy.deepcopy(a), lineno=0))
        for v in sorted(hstored - set(rename)):
            if v in allparams and v in subst:
                continue
            if v in cstored and v not in allparams and _handle_only(h, v) and _handle_only(caller, v):
                # `xp = backend.get_array_module(..)` / `device = backend.get_device(..)` in both: the same module
                # handle (arrays derived from the same input live on one device) — keep the name
                rename[v] = v
                continue
            rename[v] = fresh(v)
        # a substituted argument must not mention a name the helper body (after renaming) stores
        new_stored = set(rename.values())
        for a in subst.values():
            if {n.id for n in ast.walk(a) if isinstance(n, ast.Name)} & new_stored:
                return None
        out = []
        for s in body:
            s2 = copy.deepcopy(s)
            s2 = _Rename({k: v for k, v in rename.items() if k != v}).visit(s2)
            s2 = _Subst(subst).visit(s2)
            out.append(s2)
        return pre + out

    # -- rewrite one block ----------------------------------------------------------------------------
    def header_exprs(self, s):
        """the expressions of statement s that are evaluated exactly once when s is reached"""
        if isinstance(s, (ast.Assign, ast.AugAssign, ast.Return, ast.Expr, ast.AnnAssign)):
            return [s]
        if isinstance(s, (ast.If, ast.While)):
            return [s.test] if isinstance(s, ast.If) else []
        if isinstance(s, ast.For):
            return [s.iter]
        return []

    def find_call(self, node, cls, self_name, shadow):
        """first helper call in evaluation-once position (not inside a comprehension element / lambda)"""
        found = []

        def walk(n):
            if found:
                return
            if isinstance(n, ast.Lambda):
                return
            if isinstance(n, (ast.ListComp, ast.SetComp, ast.GeneratorExp, ast.DictComp)):
                walk(n.generators[0].iter)   # only the first iterable is evaluated once, in the enclosing scope
                return
            if isinstance(n, (ast.IfExp,)):
                walk(n.test)
                return
            if isinstance(n, ast.BoolOp):
                walk(n.values[0])
                return
            if isinstance(n, ast.Call):
                h, m = self.callee(n, cls, self_name, shadow)
                if h is not None:
                    found.append((n, h, m))
                    return
            for c in ast.iter_child_nodes(n):
                walk(c)
        walk(node)
        return found[0] if found else None

    def block(self, stmts, caller, cls, self_name):
        out = []
        changed = False
        for s in stmts:
            for fld in ("body", "orelse", "finalbody"):
                if isinstance(getattr(s, fld, None), list) and not isinstance(s, (ast.FunctionDef, ast.ClassDef)):
                    nb, ch = self.block(getattr(s, fld), caller, cls, self_name)
                    setattr(s, fld, nb)
                    changed |= ch
            if isinstance(s, ast.Try):
                for hd in s.handlers:
                    hd.body, ch = self.block(hd.body, caller, cls, self_name)
                    changed |= ch
            shadow = fn_stored(caller)
            done = False
            for hx in self.header_exprs(s):
                hit = self.find_call(hx, cls, self_name, shadow)
                if hit is None:
                    continue
                call, h, is_m = hit
                if h is caller:
                    continue
                tail = isinstance(s, ast.Return) and s.value is call
                # `x = helper(..)` with a branching helper: every `return e` of the helper becomes `x = e`
                asg = isinstance(s, ast.Assign) and s.value is call and len(s.targets) == 1 \
                    and isinstance(s.targets[0], ast.Name)
                new = self.expand(h, is_m, call, caller, self_name, False)
                if new is not None:
                    tail = asg = False
                elif tail or asg:
                    new = self.expand(h, is_m, call, caller, self_name, True)
                if new is None:
                    continue
                if asg:
                    tgt = s.targets[0].id
                    if tgt in {n.id for st_ in new for n in ast.walk(st_) if isinstance(n, ast.Name)}:
                        continue   # the target is read or written by the inlined body: leave the call

                    class RA(ast.NodeTransformer):
                        def visit_Return(self_inner, n):
                            return ast.Assign(targets=[ast.Name(id=tgt, ctx=ast.Store())], value=n.value, lineno=0)
                    out.extend(RA().visit(x) for x in new)
                elif tail:
                    out.extend(new)
                else:
                    ret = new[-1]
                    out.extend(new[:-1])
                    # replace the call node by the returned expression (identity-based)
                    class R(ast.NodeTransformer):
                        def visit_Call(self_inner, n):
                            if n is call:
                                return ret.value
                            return self_inner.generic_visit(n)
                    out.append(R().visit(s))
                self.count += 1
                changed = True
                done = True
                break
            if not done:
                out.append(s)
        return out, changed

    def run(self, tree):
        for _ in range(MAX_ROUNDS):
            any_change = False
            for cls, fn in _functions(tree):
                a = fn.args.posonlyargs + fn.args.args
                self_name = a[0].arg if (cls is not None and a) else None
                fn.body, ch = self.block(fn.body, fn, cls, self_name)
                any_change |= ch
            if not any_change:
                break
        return tree


def inline_helpers(tree, protected=()):
    inl = _Inliner(tree, protected)
    inl.run(tree)
    return inl.count


# ---------------------------------------------------------------------------------------------------
# P3 for-loop with append -> list comprehension
# ---------------------------------------------------------------------------------------------------
def _loop_as_comp(loop, v):
    """for T in IT: [t = e]* ; v.append(E)   ->  ListComp or None"""
    if loop.orelse or not _simple_target(loop.target) or not loop.body or not _pure_expr(loop.iter):
        return None
    last = loop.body[-1]
    if not (isinstance(last, ast.Expr) and isinstance(last.value, ast.Call) and _dotted(last.value.func) == v + ".append"
            and len(last.value.args) == 1 and not last.value.keywords and _pure_expr(last.value.args[0])):
        return None
    elt = copy.deepcopy(last.value.args[0])
    tnames = {n.id for n in ast.walk(loop.target) if isinstance(n, ast.Name)}
    temps = []
    for s in loop.body[:-1]:
        if not (isinstance(s, ast.Assign) and len(s.targets) == 1 and isinstance(s.targets[0], ast.Name)
                and _pure_expr(s.value)):
            return None
        t = s.targets[0].id
        if t in tnames or t == v or t in [x for x, _ in temps]:
            return None
        temps.append((t, s.value))
    # substitute temporaries (innermost last): each must be read at most once in what follows
    for t, val in reversed(temps):
        uses = [n for n in loaded(elt) if n.id == t]
        if len(uses) > 1:
            return None
        elt = _Subst({t: val}).visit(elt)
    for i, (t, val) in enumerate(temps):   # earlier temporaries used by later ones
        pass
    # after substitution no temporary may remain (a temp used by another temp was substituted through `elt`)
    tn = {t for t, _ in temps}
    for _ in range(len(temps)):
        rem = [n for n in loaded(elt) if n.id in tn]
        if not rem:
            break
        for t, val in temps:
            if sum(1 for n in loaded(elt) if n.id == t) == 1:
                elt = _Subst({t: val}).visit(elt)
    if any(n.id in tn for n in loaded(elt)):
        return None
    if v in {n.id for n in ast.walk(elt) if isinstance(n, ast.Name)} or v in {n.id for n in ast.walk(loop.iter) if isinstance(n, ast.Name)}:
        return None
    return ast.ListComp(elt=elt, generators=[ast.comprehension(target=copy.deepcopy(loop.target), iter=loop.iter,
                                                               ifs=[], is_async=0)])


def _block_l2c(stmts, fn_temps_ok):
    changed = False
    for s in stmts:
        for fld in ("body", "orelse", "finalbody"):
            if isinstance(getattr(s, fld, None), list) and not isinstance(s, (ast.FunctionDef, ast.ClassDef)):
                changed |= _block_l2c(getattr(s, fld), fn_temps_ok)
    i = 0
    while i < len(stmts):
        s = stmts[i]
        if isinstance(s, ast.Assign) and len(s.targets) == 1 and isinstance(s.targets[0], ast.Name) \
                and isinstance(s.value, ast.List) and not s.value.elts:
            v = s.targets[0].id
            # the next statement that mentions v must be the loop; statements in between are plain-name assignments
            j = i + 1
            while j < len(stmts) and v not in all_names(stmts[j]):
                if not (isinstance(stmts[j], ast.Assign) and all(_simple_target(t) for t in stmts[j].targets)):
                    break
                j += 1
            if j < len(stmts) and isinstance(stmts[j], ast.For) and v in all_names(stmts[j]):
                loop = stmts[j]
                comp = _loop_as_comp(loop, v)
                # loop variables / temporaries leak out of a for loop but not out of a comprehension: they must not
                # be read afterwards
                if comp is not None:
                    leak = {n.id for n in ast.walk(loop.target) if isinstance(n, ast.Name)} | \
                           {t.targets[0].id for t in loop.body[:-1]}
                    if fn_temps_ok(leak, loop):
                        stmts[j] = ast.Assign(targets=[ast.Name(id=v, ctx=ast.Store())], value=comp, lineno=0)
                        del stmts[i]
                        changed = True
                        continue
        i += 1
    return changed


class _ListGen(ast.NodeTransformer):
    def visit_Call(self, n):
        self.generic_visit(n)
        if isinstance(n.func, ast.Name) and n.func.id == "list" and len(n.args) == 1 and not n.keywords \
                and isinstance(n.args[0], ast.GeneratorExp):
            return ast.ListComp(elt=n.args[0].elt, generators=n.args[0].generators)
        return n


def loops_to_comps(tree):
    n = 0
    for cls, fn in _functions(tree):
        if "list" not in fn_stored(fn):
            fn.body = [_ListGen().visit(s) for s in fn.body]

        def ok(leak, loop, fn=fn):
            # every read of a leaked name must be inside the loop itself, and the name is bound nowhere else
            for nm_ in leak:
                inside = sum(1 for x in ast.walk(loop) if isinstance(x, ast.Name) and x.id == nm_)
                total = sum(1 for x in ast.walk(fn) if isinstance(x, ast.Name) and x.id == nm_) + \
                    sum(1 for x in ast.walk(fn) if isinstance(x, ast.arg) and x.arg == nm_)
                if inside != total:
                    return False
            return True
        if _block_l2c(fn.body, ok):
            n += 1
    return n


# ---------------------------------------------------------------------------------------------------
# P4 single-assignment, single-use temporaries
# ---------------------------------------------------------------------------------------------------
def _is_handle(value):
    u = ast.unparse(value)
    return u.startswith(HANDLE_PREFIXES)


def _once_positions(s):
    """expressions of statement s evaluated exactly once when s runs (where a temporary may be substituted)"""
    if isinstance(s, ast.Assign):
        return [s.value] + [t for t in s.targets if not isinstance(t, ast.Name)]
    if isinstance(s, ast.AugAssign):
        return [s.value]
    if isinstance(s, (ast.Return, ast.Expr)):
        return [s.value] if s.value is not None else []
    if isinstance(s, ast.If):
        return [s.test]
    if isinstance(s, ast.For):
        return [s.iter]
    return []


def _find_once(node, name):
    """the Name nodes `name` (Load) under node in evaluated-once positions, and those in repeated positions"""
    once, rep = [], []

    def walk(n, repeated):
        if isinstance(n, ast.Name):
            if n.id == name and isinstance(n.ctx, ast.Load):
                (rep if repeated else once).append(n)
            return
        if isinstance(n, ast.Lambda):
            for c in ast.iter_child_nodes(n):
                walk(c, True)
            return
        if isinstance(n, (ast.ListComp, ast.SetComp, ast.GeneratorExp, ast.DictComp)):
            walk(n.generators[0].iter, repeated)
            for g in n.generators[1:]:
                walk(g.iter, True)
            for g in n.generators:
                for c in g.ifs:
                    walk(c, True)
            if isinstance(n, ast.DictComp):
                walk(n.key, True)
                walk(n.value, True)
            else:
                walk(n.elt, True)
            return
        for c in ast.iter_child_nodes(n):
            walk(c, repeated)
    walk(node, False)
    return once, rep


def _plain_between(s):
    """a statement a temporary may be moved across: assignments to plain names only (recursively under if)"""
    if isinstance(s, ast.Assign):
        return all(_simple_target(t) for t in s.targets) and _pure_expr(s.value)
    if isinstance(s, ast.If):
        return _pure_expr(s.test) and all(_plain_between(x) for x in s.body + s.orelse)
    return False


def _inline_block(stmts, fn):
    changed = False
    for s in stmts:
        for fld in ("body", "orelse", "finalbody"):
            if isinstance(getattr(s, fld, None), list) and not isinstance(s, (ast.FunctionDef, ast.ClassDef)):
                changed |= _inline_block(getattr(s, fld), fn)
    i = 0
    while i < len(stmts):
        s = stmts[i]
        ok = isinstance(s, ast.Assign) and len(s.targets) == 1 and isinstance(s.targets[0], ast.Name) \
            and _pure_expr(s.value) and not _is_handle(s.value)
        if ok:
            v = s.targets[0].id
            # assigned exactly once in the function (no parameter, no other store of any kind), read exactly once
            stores = sum(1 for n in ast.walk(fn) if isinstance(n, ast.Name) and n.id == v and not isinstance(n.ctx, ast.Load))
            stores += sum(1 for a in ast.walk(fn) if isinstance(a, ast.arg) and a.arg == v)
            stores += sum(1 for n in ast.walk(fn) if isinstance(n, (ast.Global, ast.Nonlocal)) and v in n.names)
            loads = [n for n in ast.walk(fn) if isinstance(n, ast.Name) and n.id == v and isinstance(n.ctx, ast.Load)]
            if stores == 1 and len(loads) == 1 and not any(isinstance(n, ast.Name) and n.id == v for n in ast.walk(s.value)):
                free = {n.id for n in ast.walk(s.value) if isinstance(n, ast.Name)}
                j = i + 1
                while j < len(stmts):
                    t = stmts[j]
                    pos = _once_positions(t)
                    hit = None
                    for p in pos:
                        once, rep = _find_once(p, v)
                        if rep:
                            hit = "no"
                            break
                        if once:
                            hit = (p, once[0])
                            break
                    if hit == "no":
                        break
                    if hit is not None:
                        # comprehension variables in scope at the use must not capture names of the expression
                        use = hit[1]
                        captured = False
                        for c in ast.walk(t):
                            if isinstance(c, (ast.ListComp, ast.SetComp, ast.GeneratorExp, ast.DictComp)):
                                inner = [n for g in c.generators[1:] for n in ast.walk(g.iter)] + \
                                        [n for g in c.generators for x in g.ifs for n in ast.walk(x)]
                                if any(n is use for n in inner):
                                    captured = True
                        if captured:
                            break

                        class R(ast.NodeTransformer):
                            def visit_Name(self_inner, n):
                                return copy.deepcopy(s.value) if n is use else n
                        stmts[j] = R().visit(t)
                        del stmts[i]
                        changed = True
                        i -= 1
                        break
                    # t does not read v in a once-position: may we move across it?
                    if any(isinstance(n, ast.Name) and n.id == v for n in ast.walk(t)):
                        break    # v is read deeper inside (a nested block): leave it
                    if not _plain_between(t) or (stored_in(t) & free):
                        break
                    j += 1
        i += 1
    return changed


def inline_temps(tree, only=None):
    n = 0
    for cls, fn in _functions(tree):
        q = fn.name if cls is None else cls + "." + fn.name
        if only is not None and q not in only:
            continue
        for _ in range(32):
            if not _inline_block(fn.body, fn):
                break
            n += 1
    return n


# ---------------------------------------------------------------------------------------------------
# alpha-normalised text of an expression (comprehension variables -> v0, v1, …; `sum([..])` = `sum(..)`)
# ---------------------------------------------------------------------------------------------------
def canon_text(node):
    node = copy.deepcopy(node)
    k = [0]

    class A(ast.NodeTransformer):
        def visit_comp(self, n):
            ren = {}
            for g in n.generators:
                for x in ast.walk(g.target):
                    if isinstance(x, ast.Name) and x.id not in ren:
                        ren[x.id] = "v%d" % k[0]
                        k[0] += 1
            n = _Rename(ren).visit(n)
            self.generic_visit(n)
            return n
        visit_ListComp = visit_GeneratorExp = visit_SetComp = visit_comp

        def visit_Call(self, n):
            if isinstance(n.func, ast.Name) and n.func.id in ("sum", "any", "all", "min", "max", "tuple", "list") \
                    and len(n.args) == 1 and not n.keywords and isinstance(n.args[0], ast.ListComp) \
                    and n.func.id in ("sum", "any", "all", "min", "max"):
                n.args = [ast.GeneratorExp(elt=n.args[0].elt, generators=n.args[0].generators)]
            self.generic_visit(n)
            return n
    return ast.unparse(ast.fix_missing_locations(A().visit(node)))


# ---------------------------------------------------------------------------------------------------
# the pipeline
# ---------------------------------------------------------------------------------------------------
PROTECTED = ("_prox", "_check_shape", "_soft_thresh", "_hard_thresh", "_soft_thresh_cuda", "_hard_thresh_cuda",
             "_normalize_axes")


def normalise(th, px, ut):
    """normalise the three module asts in place; returns a dict of counters (for the obligation detail)"""
    stats = {}
    sig_th, sig_ut = module_signatures(th), module_signatures(ut)
    for name, tree in (("thresh", th), ("prox", px), ("util", ut)):
        stats[name + ".inlined"] = inline_helpers(tree, PROTECTED)
    resolve_keywords(th, sig_th, {"util": sig_ut})
    resolve_keywords(ut, sig_ut, {})
    resolve_keywords(px, {}, {"thresh": sig_th, "util": sig_ut}, protocol=("self.prox", "self.proxh"))
    for name, tree in (("thresh", th), ("prox", px), ("util", ut)):
        stats[name + ".loops"] = loops_to_comps(tree)
        stats[name + ".temps"] = inline_temps(tree)
        ast.fix_missing_locations(tree)
    return stats
